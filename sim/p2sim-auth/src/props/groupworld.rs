//! GroupWorld — the replicated world for the p2panda-auth group CRDT (C31, C33).
//!
//! The code under test (`GroupCrdt::process`, `GroupCrdtState::{members, root_members}`) is
//! synchronous and state-passing; this module is everything around it: 3–5 replicas holding real
//! `GroupCrdtState`s, one in-flight pool per replica, a causal buffer (an operation is handed to a
//! replica only once its dependencies were processed there), partitions with gossip on re-join,
//! duplicate delivery, honest authors that act on their local view, scripted conflict scenarios
//! (two managers acting concurrently on one member) and Byzantine authors forging operations.
//!
//! Everything random comes from the choice stream (`simcore::ctx`); value 0 is always the plain
//! choice (honest add, oldest deliverable message, no fault).

use std::collections::{BTreeMap, BTreeSet};

use p2panda_auth::group::resolver::StrongRemove;
use p2panda_auth::group::{
    GroupAction, GroupCrdt, GroupCrdtError, GroupCrdtState, GroupMember, GroupMembersState,
    GroupMembershipError,
};
use p2panda_auth::traits::{Conditions, Operation};
use p2panda_auth::{Access, AccessLevel};
use p2panda_core::cbor::{decode_cbor, encode_cbor};
use serde::de::{DeserializeOwned, IgnoredAny};
use serde::{Deserialize, Serialize};
use simcore::{ctx, violation};

/// Trace event; with `GROUPWORLD_LIVE=1` also echoed to stderr at once (to look at a run that
/// does not come back).
macro_rules! evl {
    ($($arg:tt)*) => {{
        let line = format!($($arg)*);
        if live() {
            eprintln!("  {line}");
        }
        simcore::ctx::event(line);
    }};
}

fn live() -> bool {
    static LIVE: std::sync::OnceLock<bool> = std::sync::OnceLock::new();
    *LIVE.get_or_init(|| std::env::var("GROUPWORLD_LIVE").is_ok())
}

pub type Id = char;
pub type OpId = u32;

// ---------------------------------------------------------------------------------------------
// Operation and condition types
// ---------------------------------------------------------------------------------------------

/// The harness' operation type (the crate is generic over it). Ids are integers, identities are
/// characters (the crate's `test_utils` provide `IdentityHandle for char`, `OperationId for u32`).
#[derive(Clone, Debug, Serialize, Deserialize)]
pub struct SimOp<C> {
    pub id: OpId,
    pub author: Id,
    pub dependencies: Vec<OpId>,
    pub group_id: Id,
    pub action: GroupAction<Id, C>,
}

impl<C: Conditions> Operation<Id, OpId, C> for SimOp<C> {
    fn id(&self) -> OpId {
        self.id
    }
    fn author(&self) -> Id {
        self.author
    }
    fn dependencies(&self) -> Vec<OpId> {
        self.dependencies.clone()
    }
    fn group_id(&self) -> Id {
        self.group_id
    }
    fn action(&self) -> GroupAction<Id, C> {
        self.action.clone()
    }
}

/// A totally ordered condition type, shaped like the `ExpiryTimestamp` of the crate's own tests.
#[derive(Clone, Debug, PartialEq, Eq, PartialOrd, Ord, Serialize, Deserialize)]
pub struct Expiry(pub u64);

impl Conditions for Expiry {}

pub trait Cond: Conditions + Ord + Send + Serialize + DeserializeOwned + 'static {
    const NAME: &'static str;
    const COUNT: usize;
    fn nth(i: usize) -> Self;
    fn show(&self) -> String;
}

impl Cond for () {
    const NAME: &'static str = "()";
    const COUNT: usize = 1;
    fn nth(_: usize) -> Self {}
    fn show(&self) -> String {
        "()".into()
    }
}

impl Cond for Expiry {
    const NAME: &'static str = "Expiry";
    const COUNT: usize = 3;
    fn nth(i: usize) -> Self {
        Expiry(10 * (i as u64 + 1))
    }
    fn show(&self) -> String {
        format!("c{}", self.0)
    }
}

pub type State<C> = GroupCrdtState<Id, OpId, SimOp<C>, C>;
pub type Resolver<C> = StrongRemove<Id, OpId, SimOp<C>, C>;
pub type Crdt<C> = GroupCrdt<Id, OpId, SimOp<C>, C, Resolver<C>>;
pub type CrdtErr<C> = GroupCrdtError<Id, OpId, SimOp<C>, C, Resolver<C>>;

fn err_name<C: Cond>(e: &CrdtErr<C>) -> &'static str {
    match e {
        GroupCrdtError::Inner(_) => "StatesNotFound",
        GroupCrdtError::DuplicateOperation(..) => "DuplicateOperation",
        GroupCrdtError::GroupCycle(..) => "GroupCycle",
        GroupCrdtError::ManagerGroupsNotAllowed(_) => "ManagerGroupsNotAllowed",
        GroupCrdtError::Resolver(_) => "Resolver",
        GroupCrdtError::UnknownGroup(..) => "UnknownGroup",
        GroupCrdtError::MissingDependencies(..) => "MissingDependencies",
        GroupCrdtError::StateChangeError(_, m) => match m {
            GroupMembershipError::AlreadyAdded(_) => "AlreadyAdded",
            GroupMembershipError::AlreadyRemoved(_) => "AlreadyRemoved",
            GroupMembershipError::InsufficientAccess(_) => "InsufficientAccess",
            GroupMembershipError::InactiveActor(_) => "InactiveActor",
            GroupMembershipError::InactiveMember(_) => "InactiveMember",
            GroupMembershipError::UnrecognisedActor(_) => "UnrecognisedActor",
            GroupMembershipError::UnrecognisedMember(_) => "UnrecognisedMember",
        },
    }
}

// ---------------------------------------------------------------------------------------------
// Formatting
// ---------------------------------------------------------------------------------------------

pub fn lvl(a: &AccessLevel) -> u8 {
    match a {
        AccessLevel::Pull => 0,
        AccessLevel::Read => 1,
        AccessLevel::Write => 2,
        AccessLevel::Manage => 3,
    }
}

fn lvl_name(l: u8) -> &'static str {
    ["pull", "read", "write", "manage"][l as usize]
}

fn level_of(l: u8) -> AccessLevel {
    [AccessLevel::Pull, AccessLevel::Read, AccessLevel::Write, AccessLevel::Manage][l as usize].clone()
}

fn show_acc<C: Cond>(l: u8, c: &Option<C>) -> String {
    match c {
        None => lvl_name(l).to_string(),
        Some(c) => format!("{}[{}]", lvl_name(l), c.show()),
    }
}

fn show_access<C: Cond>(a: &Access<C>) -> String {
    show_acc(lvl(&a.level), &a.conditions)
}

fn show_member(m: &GroupMember<Id>) -> String {
    match m {
        GroupMember::Individual(i) => i.to_string(),
        GroupMember::Group(g) => format!("g{g}"),
    }
}

fn action_kind<C>(a: &GroupAction<Id, C>) -> &'static str {
    match a {
        GroupAction::Create { .. } => "Create",
        GroupAction::Add { .. } => "Add",
        GroupAction::Remove { .. } => "Remove",
        GroupAction::Promote { .. } => "Promote",
        GroupAction::Demote { .. } => "Demote",
    }
}

fn show_action<C: Cond>(a: &GroupAction<Id, C>) -> String {
    match a {
        GroupAction::Create { initial_members } => {
            let v: Vec<String> = initial_members.iter().map(|(m, a)| format!("{}={}", show_member(m), show_access(a))).collect();
            format!("create {{{}}}", v.join(" "))
        }
        GroupAction::Add { member, access } => format!("add {}={}", show_member(member), show_access(access)),
        GroupAction::Remove { member } => format!("remove {}", show_member(member)),
        GroupAction::Promote { member, access } => format!("promote {}->{}", show_member(member), show_access(access)),
        GroupAction::Demote { member, access } => format!("demote {}->{}", show_member(member), show_access(access)),
    }
}

fn action_target<C>(a: &GroupAction<Id, C>) -> Option<GroupMember<Id>> {
    match a {
        GroupAction::Create { .. } => None,
        GroupAction::Add { member, .. } | GroupAction::Remove { member } | GroupAction::Promote { member, .. } | GroupAction::Demote { member, .. } => Some(*member),
    }
}

fn action_access<C: Clone>(a: &GroupAction<Id, C>) -> Option<Access<C>> {
    match a {
        GroupAction::Add { access, .. } | GroupAction::Promote { access, .. } | GroupAction::Demote { access, .. } => Some(access.clone()),
        _ => None,
    }
}

// ---------------------------------------------------------------------------------------------
// Views (what the property observes) and mirror types (full state dump through serde)
// ---------------------------------------------------------------------------------------------

pub type RootView<C> = Vec<(GroupMember<Id>, u8, Option<C>)>;
pub type MemView<C> = Vec<(Id, u8, Option<C>)>;

#[derive(Clone, Debug, PartialEq, Eq)]
pub struct Views<C> {
    pub groups: BTreeMap<Id, (RootView<C>, MemView<C>)>,
    /// Groups whose `members()` was not asked because it would not come back (see
    /// `nesting_walks`); their member view is left empty.
    pub skipped: BTreeMap<Id, u64>,
}

/// `members_inner` keeps no visited set: it follows every walk through the nesting graph up to
/// `MAX_NESTED_DEPTH` = 1000 levels. With one simple nesting cycle that is 1000 steps; with two
/// cycles through one group it is exponential. The number of walks it would follow from `g`
/// (saturating), computed from the replica's own root views.
pub fn nesting_walks<C: Cond>(roots: &BTreeMap<Id, RootView<C>>, g: Id) -> u64 {
    let children = |x: Id| -> Vec<Id> {
        roots.get(&x).map(|rv| rv.iter().filter_map(|(m, _, _)| if let GroupMember::Group(c) = m { Some(*c) } else { None }).collect()).unwrap_or_default()
    };
    // cycle reachable from g?
    let mut cyclic = false;
    let mut stack = vec![(g, vec![g])];
    let mut budget = 10_000;
    while let Some((x, path)) = stack.pop() {
        budget -= 1;
        if budget == 0 {
            cyclic = true;
            break;
        }
        for c in children(x) {
            if path.contains(&c) {
                cyclic = true;
            } else {
                let mut p = path.clone();
                p.push(c);
                stack.push((c, p));
            }
        }
    }
    if !cyclic {
        return 1;
    }
    let ids: Vec<Id> = roots.keys().copied().collect();
    let mut cur: BTreeMap<Id, u64> = ids.iter().map(|i| (*i, 1u64)).collect();
    let mut total: u64 = 0;
    for _ in 0..1000 {
        let mut next: BTreeMap<Id, u64> = BTreeMap::new();
        for i in &ids {
            let mut n: u64 = 0;
            for c in children(*i) {
                n = n.saturating_add(*cur.get(&c).unwrap_or(&0));
            }
            next.insert(*i, n);
        }
        total = total.saturating_add(*next.get(&g).unwrap_or(&0));
        cur = next;
        if total == u64::MAX {
            break;
        }
    }
    total
}

/// More walks than this and the harness does not call `members()` (each walk step costs a
/// `current_state()`); a single simple cycle is 1000.
pub const WALK_LIMIT: u64 = 5_000;

pub fn root_view<C: Cond>(y: &State<C>, g: Id) -> RootView<C> {
    let mut v: RootView<C> = y.root_members(g).into_iter().map(|(m, a)| (m, lvl(&a.level), a.conditions)).collect();
    v.sort();
    v
}

pub fn mem_view<C: Cond>(y: &State<C>, g: Id) -> MemView<C> {
    let mut v: MemView<C> = y.members(g).into_iter().map(|(m, a)| (m, lvl(&a.level), a.conditions)).collect();
    v.sort();
    v
}

pub fn views_of<C: Cond>(y: &State<C>, groups: &[Id]) -> Views<C> {
    let roots: BTreeMap<Id, RootView<C>> = groups.iter().map(|g| (*g, root_view(y, *g))).collect();
    let mut out = BTreeMap::new();
    let mut skipped = BTreeMap::new();
    for g in groups {
        let walks = nesting_walks(&roots, *g);
        let mv = if walks > WALK_LIMIT {
            skipped.insert(*g, walks);
            vec![]
        } else {
            mem_view(y, *g)
        };
        out.insert(*g, (roots[g].clone(), mv));
    }
    Views { groups: out, skipped }
}

fn show_root<C: Cond>(v: &RootView<C>) -> String {
    let s: Vec<String> = v.iter().map(|(m, l, c)| format!("{}={}", show_member(m), show_acc(*l, c))).collect();
    s.join(" ")
}

fn show_mem<C: Cond>(v: &MemView<C>) -> String {
    let s: Vec<String> = v.iter().map(|(m, l, c)| format!("{}={}", m, show_acc(*l, c))).collect();
    s.join(" ")
}

/// Mirror of `MemberState` (its fields are crate-private; serde is structural).
#[derive(Clone, Debug, PartialEq, Eq, Deserialize)]
pub struct MMember<C> {
    pub member_counter: usize,
    pub access: Access<C>,
    pub access_counter: usize,
}

#[derive(Clone, Debug, PartialEq, Eq, Deserialize)]
#[serde(bound(deserialize = "C: Deserialize<'de>"))]
pub struct MMembers<C> {
    pub members: BTreeMap<GroupMember<Id>, MMember<C>>,
}

#[derive(Deserialize)]
#[serde(bound(deserialize = "C: Deserialize<'de>"))]
struct MInner<C> {
    #[allow(dead_code)]
    operations: IgnoredAny,
    ignore: BTreeSet<OpId>,
    mutual_removes: BTreeSet<OpId>,
    states: BTreeMap<OpId, BTreeMap<Id, MMembers<C>>>,
    #[allow(dead_code)]
    graph: IgnoredAny,
}

#[derive(Deserialize)]
#[serde(bound(deserialize = "C: Deserialize<'de>"))]
struct MState<C> {
    inner: MInner<C>,
}

/// Canonical (sorted) dump of a whole replica state: serialised with the production codec (CBOR, as
/// the groups store does after every operation) and decoded into sorted mirror types.
pub fn dump_state<C: Cond>(y: &State<C>) -> String {
    let bytes = encode_cbor(y).expect("encode state");
    let m: MState<C> = decode_cbor(&bytes[..]).expect("decode mirror state");
    let mut ops: Vec<OpId> = y.inner.operations.keys().copied().collect();
    ops.sort();
    let mut heads = y.heads();
    heads.sort();
    format!("ops={:?} heads={:?} ignore={:?} mutual={:?} states={:?}", ops, heads, m.inner.ignore, m.inner.mutual_removes, m.inner.states)
}

/// What production does between any two operations: the state goes to the store as CBOR and comes
/// back (fresh `HashMap`s, hence fresh iteration orders).
pub fn reload<C: Cond>(y: &State<C>) -> State<C> {
    let bytes = encode_cbor(y).expect("encode state");
    decode_cbor(&bytes[..]).expect("decode state")
}

fn members_state_mirror<C: Cond>(s: &GroupMembersState<GroupMember<Id>, C>) -> MMembers<C> {
    let bytes = encode_cbor(s).expect("encode members state");
    decode_cbor(&bytes[..]).expect("decode members state")
}

// ---------------------------------------------------------------------------------------------
// Configuration
// ---------------------------------------------------------------------------------------------

#[derive(Clone, Debug)]
pub struct Cfg {
    /// Single linear history, every operation delivered to everybody in order at once.
    pub linear: bool,
    /// Network faults (reorder / duplicate / partition) may be enabled (swarm: random subset per run).
    pub net_faults: bool,
    /// Byzantine authors emit forged operations.
    pub byzantine: bool,
    /// Weight of the scripted conflict scenarios among the step kinds.
    pub conflict_w: usize,
    /// Weight multiplier for nested-group actions.
    pub nest_w: usize,
    pub max_groups: usize,
    pub max_ops: usize,
    /// Access conditions are used at all (`false`: every access has `conditions: None`).
    pub conditions: bool,
    pub check_c31: bool,
    pub check_c33: bool,
}

// ---------------------------------------------------------------------------------------------
// World
// ---------------------------------------------------------------------------------------------

pub struct OpRec<C> {
    pub op: SimOp<C>,
    /// Bit i set = operation #i is a strict causal ancestor.
    pub anc: u128,
    pub deps: Vec<usize>,
    pub byz: Option<&'static str>,
    pub accepted_by: BTreeSet<usize>,
    pub rejected_by: BTreeMap<usize, &'static str>,
}

pub struct Replica<C: Cond> {
    pub actor: Id,
    pub state: State<C>,
    pub pool: Vec<usize>,
    pub held: Vec<usize>,
    pub processed: BTreeSet<usize>,
    pub rejected: BTreeSet<usize>,
    pub order: Vec<usize>,
    pub part: usize,
    /// Heads after each accepted operation (sources for stale dependencies).
    pub snapshots: Vec<Vec<usize>>,
}

#[derive(Clone, Debug)]
pub struct Verdict {
    pub ok: bool,
    pub clause: &'static str,
    pub site: String,
    pub why: String,
    pub via_canonical: bool,
}

pub struct World<C: Cond> {
    pub cfg: Cfg,
    pub idents: Vec<Id>,
    pub reps: Vec<Replica<C>>,
    pub ops: Vec<OpRec<C>>,
    pub groups: Vec<Id>,
    pub create_of: BTreeMap<Id, usize>,
    nested_edges: BTreeSet<(Id, Id)>,
    id_counter: u32,
    scramble_ids: bool,
    reorder: bool,
    duplicate: bool,
    partition: bool,
    reload: bool,
    partitioned_now: bool,
    verdicts: BTreeMap<usize, Option<Verdict>>,
    cycle_allowed: bool,
}

const MAX_TOTAL_OPS: usize = 100;

fn wchoose<T: Copy>(label: &'static str, items: &[(T, usize)]) -> Option<T> {
    let total: usize = items.iter().map(|(_, w)| *w).sum();
    if total == 0 {
        return None;
    }
    let mut v = ctx::choose(label, total);
    for (it, w) in items {
        if v < *w {
            return Some(*it);
        }
        v -= *w;
    }
    None
}

impl<C: Cond> World<C> {
    pub fn new(cfg: Cfg) -> Self {
        let n_rep = 3 + ctx::choose("replicas", 3);
        let n_passive = ctx::choose("passive", 4);
        let idents: Vec<Id> = (0..n_rep + n_passive).map(|i| (b'A' + i as u8) as char).collect();
        let scramble_ids = !cfg.linear && ctx::chance("scramble_ids", 1, 2);
        let (mut reorder, mut duplicate, mut partition, mut reload) = (false, false, false, false);
        if cfg.net_faults {
            reorder = ctx::chance("f.reorder", 3, 4);
            duplicate = ctx::chance("f.duplicate", 1, 2);
            partition = ctx::chance("f.partition", 3, 4);
            reload = ctx::chance("f.reload", 1, 2);
        }
        let reps = (0..n_rep)
            .map(|i| Replica {
                actor: idents[i],
                state: Crdt::<C>::init(),
                pool: vec![],
                held: vec![],
                processed: BTreeSet::new(),
                rejected: BTreeSet::new(),
                order: vec![],
                part: 0,
                snapshots: vec![],
            })
            .collect();
        evl!(
            "world: {} replicas {:?}, passive identities {:?}, conditions {}, faults: reorder={} duplicate={} partition={} cbor-reload={} byzantine={} ids={}",
            n_rep,
            &idents[..n_rep],
            &idents[n_rep..],
            C::NAME,
            reorder,
            duplicate,
            partition,
            reload,
            cfg.byzantine,
            if scramble_ids { "scrambled" } else { "sequential" }
        );
        World {
            cfg,
            idents,
            reps,
            ops: vec![],
            groups: vec![],
            create_of: BTreeMap::new(),
            nested_edges: BTreeSet::new(),
            id_counter: 0,
            scramble_ids,
            reorder,
            duplicate,
            partition,
            reload,
            partitioned_now: false,
            verdicts: BTreeMap::new(),
            cycle_allowed: false,
        }
    }

    // ----- helpers ---------------------------------------------------------------------------

    fn next_id(&mut self) -> OpId {
        self.id_counter += 1;
        if self.scramble_ids {
            loop {
                let id = (simcore::rng::mix(&[ctx::seed(), self.id_counter as u64]) & 0xFFFF_FFFF) as u32;
                if !self.ops.iter().any(|o| o.op.id == id) {
                    return id;
                }
                self.id_counter += 1;
            }
        } else {
            self.id_counter
        }
    }

    fn seq_of(&self, id: OpId) -> usize {
        self.ops.iter().position(|o| o.op.id == id).expect("harness: unknown operation id")
    }

    fn heads_seq(&self, r: usize) -> Vec<usize> {
        let mut v: Vec<usize> = self.reps[r].state.heads().into_iter().map(|id| self.seq_of(id)).collect();
        v.sort();
        v
    }

    fn gen_access(&self, allow_manage: bool) -> Access<C> {
        // 0 = read without conditions.
        let l = *ctx::pick("access.level", &[1u8, 0, 2, 3]);
        let l = if l == 3 && !allow_manage { 2 } else { l };
        let c = if self.cfg.conditions { ctx::choose("access.cond", 1 + C::COUNT) } else { 0 };
        Access { level: level_of(l), conditions: if c == 0 { None } else { Some(C::nth(c - 1)) } }
    }

    fn show_op(&self, seq: usize) -> String {
        let o = &self.ops[seq];
        let deps: Vec<String> = o.deps.iter().map(|d| format!("#{d}")).collect();
        format!("#{seq} {} in g{}: {} deps[{}]", o.op.author, o.op.group_id, show_action(&o.op.action), deps.join(","))
    }

    fn reaches(&self, from: Id, to: Id) -> bool {
        let mut stack = vec![from];
        let mut seen = BTreeSet::new();
        while let Some(x) = stack.pop() {
            if x == to {
                return true;
            }
            if !seen.insert(x) {
                continue;
            }
            for (p, c) in &self.nested_edges {
                if *p == x {
                    stack.push(*c);
                }
            }
        }
        false
    }

    fn known_groups(&self, r: usize) -> Vec<Id> {
        self.groups.iter().copied().filter(|g| self.reps[r].state.has_group(*g)).collect()
    }

    fn is_manager_in(view: &RootView<C>, who: Id) -> bool {
        view.iter().any(|(m, l, _)| *m == GroupMember::Individual(who) && *l == 3)
    }

    fn is_active_in(view: &RootView<C>, m: &GroupMember<Id>) -> bool {
        view.iter().any(|(x, _, _)| x == m)
    }

    // ----- emitting and applying ---------------------------------------------------------------

    /// Register an operation in the world (ancestry, bookkeeping) and return its sequence number.
    fn register(&mut self, op: SimOp<C>, byz: Option<&'static str>) -> usize {
        let seq = self.ops.len();
        let deps: Vec<usize> = op.dependencies.iter().map(|d| self.seq_of(*d)).collect();
        let mut anc = 0u128;
        for d in &deps {
            anc |= self.ops[*d].anc | (1u128 << *d);
        }
        if let GroupAction::Create { initial_members } = &op.action {
            self.create_of.insert(op.group_id, seq);
            for (m, _) in initial_members {
                if let GroupMember::Group(c) = m {
                    self.nested_edges.insert((op.group_id, *c));
                }
            }
        }
        if let GroupAction::Add { member: GroupMember::Group(c), .. } = &op.action {
            self.nested_edges.insert((op.group_id, *c));
        }
        self.ops.push(OpRec { op, anc, deps, byz, accepted_by: BTreeSet::new(), rejected_by: BTreeMap::new() });
        seq
    }

    /// Put an operation on the wire: into the pool of every replica in the sender's partition,
    /// withheld from the others until a heal.
    fn broadcast(&mut self, seq: usize, origin: usize, skip_origin: bool) {
        let part = self.reps[origin].part;
        let mut withheld = false;
        for r in 0..self.reps.len() {
            if r == origin && skip_origin {
                continue;
            }
            if self.reps[r].part == part {
                self.reps[r].pool.push(seq);
            } else {
                self.reps[r].held.push(seq);
                withheld = true;
            }
        }
        if withheld {
            ctx::fault("partition");
        }
    }

    /// Hand one operation to one replica (`GroupCrdt::process`) and run the per-delivery oracles.
    /// Returns a short outcome tag for the trace.
    fn apply(&mut self, r: usize, seq: usize) -> String {
        let op = self.ops[seq].op.clone();
        let was_processed = self.reps[r].processed.contains(&seq);
        ctx::add_steps(1);
        let reload_now = self.reload && ctx::chance("reload", 1, 4);
        let input = if reload_now {
            ctx::probe("state_reloaded_via_cbor");
            reload(&self.reps[r].state)
        } else {
            self.reps[r].state.clone()
        };
        let before = if was_processed || self.ops[seq].byz.is_some() { Some(dump_state(&self.reps[r].state)) } else { None };
        match Crdt::<C>::process(input, &op) {
            Ok(y) => {
                if was_processed {
                    violation(
                        "duplicate-delivery-accepted",
                        "GroupCrdt::process accepted an operation it had already processed",
                        format!("replica {} accepted {} twice", self.reps[r].actor, self.show_op(seq)),
                    );
                }
                let rep = &mut self.reps[r];
                rep.state = y;
                rep.processed.insert(seq);
                rep.rejected.remove(&seq);
                rep.order.push(seq);
                self.ops[seq].accepted_by.insert(r);
                let h = self.heads_seq(r);
                self.reps[r].snapshots.push(h);
                if self.cfg.check_c33 {
                    self.check_acceptance(r, seq);
                }
                if self.ops[seq].byz.is_some() {
                    ctx::probe("byzantine_op_accepted");
                }
                "ok".into()
            }
            Err(e) => {
                let name = err_name(&e);
                // `process` takes the state by value: the replica *is* the copy the caller kept (the
                // store row that is not overwritten when the transaction is abandoned).
                if let Some(b) = before {
                    let after = dump_state(&self.reps[r].state);
                    if b != after {
                        violation("rejected-operation-changed-replica", "GroupCrdt::process returned Err", format!("replica {} after rejecting {} ({name})", self.reps[r].actor, self.show_op(seq)));
                    }
                }
                if was_processed {
                    ctx::fault("duplicate");
                    if name != "DuplicateOperation" {
                        ctx::probe("duplicate_rejected_with_other_error");
                    }
                    return "dup".into();
                }
                self.reps[r].rejected.insert(seq);
                self.ops[seq].rejected_by.insert(r, name);
                if self.ops[seq].byz.is_some() {
                    ctx::probe("byzantine_op_rejected");
                } else if self.ops[seq].accepted_by.is_empty() {
                    ctx::probe("honest_op_rejected_by_first_replica");
                } else {
                    ctx::probe("honest_op_rejected_remotely");
                }
                format!("REJECTED({name})")
            }
        }
    }

    /// An honest author (replica `r`) publishes `action`: processed locally first (dependencies =
    /// its heads); only if its own replica accepts it, it goes on the wire.
    fn act(&mut self, r: usize, group: Id, action: GroupAction<Id, C>) -> Option<usize> {
        if self.ops.len() >= MAX_TOTAL_OPS {
            return None;
        }
        let mut deps = self.reps[r].state.heads();
        deps.sort();
        if !self.cfg.linear {
            ctx::shuffle("deps.order", &mut deps);
        }
        let id = self.next_id();
        let op = SimOp { id, author: self.reps[r].actor, dependencies: deps, group_id: group, action };
        if let GroupAction::Create { .. } = &op.action {
            self.groups.push(group);
        }
        let seq = self.register(op, None);
        let out = self.apply(r, seq);
        evl!("{} publishes {} -> {}", self.reps[r].actor, self.show_op(seq), out);
        if out != "ok" {
            // Not published. (A locally rejected honest operation is allowed by both properties.)
            ctx::probe("honest_op_rejected_locally");
            return None;
        }
        self.broadcast(seq, r, true);
        Some(seq)
    }

    // ----- honest workload ---------------------------------------------------------------------

    fn gen_honest(&mut self, r: usize) -> Option<(Id, GroupAction<Id, C>)> {
        let actor = self.reps[r].actor;
        let known = self.known_groups(r);
        let mut managed: Vec<(Id, RootView<C>)> = vec![];
        let mut member_of: Vec<Id> = vec![];
        for g in &known {
            let rv = root_view(&self.reps[r].state, *g);
            if Self::is_active_in(&rv, &GroupMember::Individual(actor)) {
                member_of.push(*g);
                if Self::is_manager_in(&rv, actor) {
                    managed.push((*g, rv));
                }
            }
        }
        let can_create = self.groups.len() < self.cfg.max_groups;
        let nest = self.cfg.nest_w;
        let mut kinds: Vec<(&'static str, usize)> = vec![];
        if !managed.is_empty() {
            kinds.push(("add", 4));
            kinds.push(("modify", 5));
            kinds.push(("remove", 2));
            if known.len() > 1 {
                kinds.push(("addgroup", 2 * nest));
            }
        }
        if can_create {
            kinds.push(("create", if self.groups.is_empty() { 100 } else { nest }));
        }
        if !member_of.is_empty() {
            kinds.push(("selfremove", 1));
        }
        let kind = wchoose("honest.kind", &kinds)?;
        match kind {
            "create" => {
                let gid = (b'1' + self.groups.len() as u8) as char;
                let mut initial: Vec<(GroupMember<Id>, Access<C>)> = vec![(GroupMember::Individual(actor), Access::manage())];
                let root = self.groups.is_empty();
                for (k, i) in self.idents.clone().into_iter().enumerate() {
                    if i != actor && ctx::chance("create.member", 1, 2) {
                        // In the root group the other replicas' identities are often managers, so
                        // that several actors can act concurrently.
                        let acc = if root && k < self.reps.len() && ctx::chance("create.manager", 2, 3) { Access::manage() } else { self.gen_access(true) };
                        initial.push((GroupMember::Individual(i), acc));
                    }
                }
                if !known.is_empty() && ctx::chance("create.subgroup", 1, 4) {
                    let sub = *ctx::pick("create.subgroup.which", &known);
                    initial.push((GroupMember::Group(sub), self.gen_access(false)));
                }
                Some((gid, GroupAction::Create { initial_members: initial }))
            }
            "selfremove" => {
                let g = *ctx::pick("selfremove.group", &member_of);
                Some((g, GroupAction::Remove { member: GroupMember::Individual(actor) }))
            }
            _ => {
                let (g, rv) = managed[ctx::choose("honest.group", managed.len())].clone();
                match kind {
                    "add" => {
                        let cands: Vec<Id> = self.idents.iter().copied().filter(|i| !Self::is_active_in(&rv, &GroupMember::Individual(*i))).collect();
                        if cands.is_empty() {
                            return None;
                        }
                        let t = *ctx::pick("add.target", &cands);
                        Some((g, GroupAction::Add { member: GroupMember::Individual(t), access: self.gen_access(true) }))
                    }
                    "addgroup" => {
                        let cands: Vec<Id> = known.iter().copied().filter(|x| *x != g && !Self::is_active_in(&rv, &GroupMember::Group(*x))).collect();
                        if cands.is_empty() {
                            return None;
                        }
                        let t = *ctx::pick("addgroup.target", &cands);
                        if self.reaches(t, g) {
                            // Would close a nesting cycle somewhere in the world. The crate only
                            // rejects cycles visible at the dependencies; concurrent ones are met by
                            // the depth cap. Allowed once per run, rarely.
                            if self.cycle_allowed || !ctx::chance("addgroup.cycle", 1, 16) {
                                return None;
                            }
                            self.cycle_allowed = true;
                            ctx::probe("nested_cycle_attempted");
                        }
                        Some((g, GroupAction::Add { member: GroupMember::Group(t), access: self.gen_access(false) }))
                    }
                    "remove" => {
                        let t = rv[ctx::choose("remove.target", rv.len())].0;
                        Some((g, GroupAction::Remove { member: t }))
                    }
                    _ => {
                        let (t, cur, _) = rv[ctx::choose("modify.target", rv.len())].clone();
                        let acc = self.gen_access(!t.is_group());
                        let new = lvl(&acc.level);
                        let promote = if new != cur { new > cur } else { !ctx::chance("modify.same_level_as_demote", 1, 2) };
                        Some((g, if promote { GroupAction::Promote { member: t, access: acc } } else { GroupAction::Demote { member: t, access: acc } }))
                    }
                }
            }
        }
    }

    fn step_act(&mut self) {
        let r = ctx::choose("act.replica", self.reps.len());
        if let Some((g, a)) = self.gen_honest(r) {
            self.act(r, g, a);
        }
    }

    /// Scripted conflicts: two managers of one group act concurrently on the same member.
    fn step_conflict(&mut self) -> bool {
        let mut triples: Vec<(Id, usize, usize)> = vec![];
        for g in self.groups.clone() {
            let mgrs: Vec<usize> = (0..self.reps.len())
                .filter(|r| self.reps[*r].state.has_group(g) && Self::is_manager_in(&root_view(&self.reps[*r].state, g), self.reps[*r].actor))
                .collect();
            for a in &mgrs {
                for b in &mgrs {
                    if a != b {
                        triples.push((g, *a, *b));
                    }
                }
            }
        }
        if triples.is_empty() {
            return false;
        }
        let (g, m1, m2) = triples[ctx::choose("conflict.who", triples.len())];
        let v1 = root_view(&self.reps[m1].state, g);
        let v2 = root_view(&self.reps[m2].state, g);
        let absent: Vec<Id> = self
            .idents
            .iter()
            .copied()
            .filter(|i| !Self::is_active_in(&v1, &GroupMember::Individual(*i)) && !Self::is_active_in(&v2, &GroupMember::Individual(*i)))
            .collect();
        let present: Vec<(GroupMember<Id>, u8)> = v1.iter().filter(|e| v2.contains(e)).map(|(m, l, _)| (*m, *l)).collect();
        let cross_w = if self.cfg.conditions && C::COUNT > 1 { 2 } else { 0 };
        let Some(kind) = wchoose("conflict.kind", &[("same_level", 6), ("remove_vs_modify", 3), ("modify_vs_modify", 2), ("mutual_remove", 1), ("remove_vs_act", 1), ("manage_vs_lower_with_conditions", cross_w)]) else { return false };
        let (a1, a2): (GroupAction<Id, C>, GroupAction<Id, C>) = match kind {
            "same_level" => {
                // conditions: (none, some) first — the suspicious comparison.
                let l = *ctx::pick("conflict.level", &[1u8, 2, 0, 3]);
                let pair = ctx::choose("conflict.conds", 4);
                let c0 = C::nth(0);
                let c1 = C::nth(C::COUNT - 1);
                let (ca, cb) = match pair {
                    _ if !self.cfg.conditions => (None, None),
                    0 => (None, Some(c0)),
                    1 => (Some(c0), None),
                    2 => (Some(c0), Some(c1)),
                    _ => (Some(c1), Some(c0)),
                };
                let add_new = !absent.is_empty() && (present.is_empty() || !ctx::chance("conflict.modify_existing", 1, 2));
                if add_new {
                    let t = GroupMember::Individual(*ctx::pick("conflict.target", &absent));
                    (GroupAction::Add { member: t, access: Access { level: level_of(l), conditions: ca } }, GroupAction::Add { member: t, access: Access { level: level_of(l), conditions: cb } })
                } else if !present.is_empty() {
                    let (t, cur) = present[ctx::choose("conflict.target", present.len())];
                    let l = if t.is_group() && l == 3 { 2 } else { l };
                    let mk = |c: Option<C>| {
                        let access = Access { level: level_of(l), conditions: c };
                        if l >= cur { GroupAction::Promote { member: t, access } } else { GroupAction::Demote { member: t, access } }
                    };
                    (mk(ca), mk(cb))
                } else {
                    return false;
                }
            }
            "manage_vs_lower_with_conditions" => {
                // One manager makes another replica's identity a manager under a narrow condition,
                // the other gives it a lower level under a wider one: which of the two is "lower"?
                let me = [self.reps[m1].actor, self.reps[m2].actor];
                let cands: Vec<Id> = self.reps.iter().map(|r| r.actor).filter(|a| !me.contains(a)).collect();
                if cands.is_empty() {
                    return false;
                }
                let t = *ctx::pick("conflict.target", &cands);
                let tm = GroupMember::Individual(t);
                let low = *ctx::pick("conflict.level", &[1u8, 2, 0]);
                let hi: Access<C> = Access { level: AccessLevel::Manage, conditions: Some(C::nth(0)) };
                let lo: Access<C> = Access { level: level_of(low), conditions: Some(C::nth(C::COUNT - 1)) };
                let a1 = if Self::is_active_in(&v1, &tm) { GroupAction::Promote { member: tm, access: hi } } else { GroupAction::Add { member: tm, access: hi } };
                let a2 = if Self::is_active_in(&v2, &tm) {
                    let cur = v2.iter().find(|e| e.0 == tm).map(|e| e.1).unwrap_or(0);
                    if low >= cur { GroupAction::Promote { member: tm, access: lo } } else { GroupAction::Demote { member: tm, access: lo } }
                } else {
                    GroupAction::Add { member: tm, access: lo }
                };
                (a1, a2)
            }
            "remove_vs_modify" | "modify_vs_modify" => {
                if present.is_empty() {
                    return false;
                }
                let (t, cur) = present[ctx::choose("conflict.target", present.len())];
                let mk = |w: &mut Self| {
                    let acc = w.gen_access(!t.is_group());
                    if lvl(&acc.level) >= cur { GroupAction::Promote { member: t, access: acc } } else { GroupAction::Demote { member: t, access: acc } }
                };
                if kind == "remove_vs_modify" { (GroupAction::Remove { member: t }, mk(self)) } else { (mk(self), mk(self)) }
            }
            "mutual_remove" => (
                GroupAction::Remove { member: GroupMember::Individual(self.reps[m2].actor) },
                GroupAction::Remove { member: GroupMember::Individual(self.reps[m1].actor) },
            ),
            _ => {
                // m1 removes (or demotes) m2 while m2 keeps acting as a manager.
                let a1 = if ctx::chance("conflict.demote_instead", 1, 3) {
                    GroupAction::Demote { member: GroupMember::Individual(self.reps[m2].actor), access: self.gen_access(false) }
                } else {
                    GroupAction::Remove { member: GroupMember::Individual(self.reps[m2].actor) }
                };
                let Some((g2, a2)) = self.gen_honest(m2) else { return false };
                if g2 != g {
                    return false;
                }
                (a1, a2)
            }
        };
        evl!("conflict scenario {kind}: {} and {} act concurrently in g{g}", self.reps[m1].actor, self.reps[m2].actor);
        let s1 = self.act(m1, g, a1);
        // m2 has not been handed m1's operation (deliveries only happen in delivery steps), so the
        // two are concurrent whatever the network does later.
        let s2 = self.act(m2, g, a2);
        s1.is_some() && s2.is_some()
    }

    // ----- Byzantine workload ------------------------------------------------------------------

    /// A forged operation: any identity, any action, dependencies = the heads (or an older set of
    /// heads) of some replica. Never processed by an "own" replica first; it just appears on the wire.
    fn step_byzantine(&mut self) {
        if self.ops.len() >= MAX_TOTAL_OPS || self.groups.is_empty() {
            return;
        }
        let v = ctx::choose("byz.view", self.reps.len());
        let stale = !self.reps[v].snapshots.is_empty() && ctx::chance("byz.stale", 1, 4);
        let deps_seq: Vec<usize> = if stale {
            let n = self.reps[v].snapshots.len();
            self.reps[v].snapshots[n - 1 - ctx::choose("byz.stale.which", n)].clone()
        } else {
            self.heads_seq(v)
        };
        if deps_seq.is_empty() {
            return;
        }
        let mut past = 0u128;
        for d in &deps_seq {
            past |= self.ops[*d].anc | (1u128 << *d);
        }
        // Only groups whose create is in the causal past of the declared dependencies (an operation
        // on a group unknown at its dependencies is outside the API's contract).
        let groups: Vec<Id> = self.groups.iter().copied().filter(|g| self.create_of.get(g).map(|c| past & (1u128 << *c) != 0).unwrap_or(false)).collect();
        if groups.is_empty() {
            return;
        }
        let g = *ctx::pick("byz.group", &groups);
        let view = root_view(&self.reps[v].state, g);
        let author = *ctx::pick("byz.author", &self.idents);
        let author_is_mgr = Self::is_manager_in(&view, author);
        let author_is_member = Self::is_active_in(&view, &GroupMember::Individual(author));
        let actives: Vec<GroupMember<Id>> = view.iter().map(|(m, _, _)| *m).collect();
        let mut everyone: Vec<GroupMember<Id>> = self.idents.iter().map(|i| GroupMember::Individual(*i)).collect();
        everyone.extend(self.groups.iter().filter(|x| **x != g).map(|x| GroupMember::Group(*x)));
        let inactive: Vec<GroupMember<Id>> = everyone.iter().copied().filter(|m| !actives.contains(m)).collect();
        let act = *ctx::pick("byz.action", &["add", "remove", "promote", "demote"]);
        let want_active = match act {
            "add" => ctx::chance("byz.add_existing", 1, 4),
            _ => !ctx::chance("byz.target_nonmember", 1, 3),
        };
        let pool = if want_active && !actives.is_empty() { &actives } else if !inactive.is_empty() { &inactive } else { &actives };
        if pool.is_empty() {
            return;
        }
        let target = *ctx::pick("byz.target", pool);
        let target_active = actives.contains(&target);
        let acc = self.gen_access(true);
        let action = match act {
            "add" => GroupAction::Add { member: target, access: acc },
            "remove" => GroupAction::Remove { member: target },
            "promote" => GroupAction::Promote { member: target, access: acc },
            _ => GroupAction::Demote { member: target, access: acc },
        };
        let label: &'static str = if stale {
            "byzantine_op.stale_dependencies"
        } else if !author_is_member {
            if act == "add" && target == GroupMember::Individual(author) { "byzantine_op.non_member_adds_itself" } else { "byzantine_op.non_member_acts" }
        } else if !author_is_mgr {
            if act == "remove" && target == GroupMember::Individual(author) { "byzantine_op.member_removes_itself" } else { "byzantine_op.non_manager_acts" }
        } else if (act == "add") == target_active {
            "byzantine_op.manager_invalid_target"
        } else {
            "byzantine_op.forged_in_managers_name"
        };
        let mut deps: Vec<OpId> = deps_seq.iter().map(|d| self.ops[*d].op.id).collect();
        ctx::shuffle("deps.order", &mut deps);
        let id = self.next_id();
        let seq = self.register(SimOp { id, author, dependencies: deps, group_id: g, action }, Some(label));
        ctx::fault(label);
        evl!("BYZANTINE [{}] {} (view of {})", &label["byzantine_op.".len()..], self.show_op(seq), self.reps[v].actor);
        self.broadcast(seq, v, false);
    }

    // ----- network -----------------------------------------------------------------------------

    fn deliverable(&self, r: usize) -> Vec<usize> {
        let rep = &self.reps[r];
        (0..rep.pool.len()).filter(|i| self.ops[rep.pool[*i]].deps.iter().all(|d| rep.processed.contains(d))).collect()
    }

    /// Deliver one message to replica `r` (oldest deliverable unless the reorder fault is on).
    fn deliver_one(&mut self, r: usize, log: &mut Vec<String>) -> bool {
        let cands = self.deliverable(r);
        if cands.is_empty() {
            return false;
        }
        let k = if self.reorder { ctx::choose("deliver.which", cands.len()) } else { 0 };
        if k != 0 {
            ctx::fault("reorder");
        }
        let seq = self.reps[r].pool.remove(cands[k]);
        if self.reps[r].rejected.contains(&seq) {
            // Already refused here once; a second copy is dropped by the layer above.
            return true;
        }
        let out = self.apply(r, seq);
        log.push(if out == "ok" { format!("#{seq}") } else { format!("#{seq}:{out}") });
        true
    }

    fn step_deliver(&mut self) {
        let r = ctx::choose("deliver.replica", self.reps.len());
        let mut log = vec![];
        let n = 1 + ctx::choose("deliver.count", 4);
        for _ in 0..n {
            if !self.deliver_one(r, &mut log) {
                break;
            }
        }
        if !log.is_empty() {
            evl!("deliver to {}: {}", self.reps[r].actor, log.join(" "));
        }
    }

    fn step_duplicate(&mut self) {
        let r = ctx::choose("dup.replica", self.reps.len());
        let done: Vec<usize> = self.reps[r].processed.iter().copied().collect();
        if done.is_empty() {
            return;
        }
        let seq = *ctx::pick("dup.which", &done);
        self.reps[r].pool.push(seq);
        evl!("network duplicates #{seq} towards {}", self.reps[r].actor);
    }

    /// Everything any member of a partition has (processed or in flight) flows to the others.
    fn gossip(&mut self) {
        let parts: BTreeSet<usize> = self.reps.iter().map(|r| r.part).collect();
        let mut healed = false;
        for p in parts {
            let members: Vec<usize> = (0..self.reps.len()).filter(|r| self.reps[*r].part == p).collect();
            let mut known: BTreeSet<usize> = BTreeSet::new();
            for r in &members {
                known.extend(self.reps[*r].processed.iter().copied());
                known.extend(self.reps[*r].pool.iter().copied());
            }
            for r in &members {
                let rep = &mut self.reps[*r];
                for s in &known {
                    if !rep.processed.contains(s) && !rep.rejected.contains(s) && !rep.pool.contains(s) {
                        rep.pool.push(*s);
                        if let Some(i) = rep.held.iter().position(|h| h == s) {
                            rep.held.remove(i);
                            healed = true;
                        }
                    }
                }
            }
        }
        if healed {
            ctx::fault("heal");
        }
    }

    fn repartition(&mut self) {
        if !self.partition {
            return;
        }
        let k = ctx::choose("partition.count", 3);
        let n = self.reps.len();
        let mut parts = vec![0usize; n];
        if k > 0 {
            for p in parts.iter_mut() {
                *p = ctx::choose("partition.of", k + 1);
            }
        }
        let distinct: BTreeSet<usize> = parts.iter().copied().collect();
        for (r, p) in parts.iter().enumerate() {
            self.reps[r].part = *p;
        }
        self.partitioned_now = distinct.len() > 1;
        let names: Vec<String> = distinct.iter().map(|p| (0..n).filter(|r| parts[*r] == *p).map(|r| self.reps[r].actor).collect::<String>()).collect();
        evl!("network: partitions {{{}}}", names.join(" | "));
    }

    fn heal_all(&mut self) {
        for r in self.reps.iter_mut() {
            r.part = 0;
        }
        if self.partitioned_now {
            evl!("network: all partitions healed");
        }
        self.partitioned_now = false;
        self.gossip();
        // Whatever is still withheld (forged operations nobody accepted yet, …) is released too.
        for r in 0..self.reps.len() {
            let held = std::mem::take(&mut self.reps[r].held);
            for s in held {
                let rep = &mut self.reps[r];
                if !rep.processed.contains(&s) && !rep.rejected.contains(&s) && !rep.pool.contains(&s) {
                    rep.pool.push(s);
                }
            }
        }
    }

    /// Deliver until nothing deliverable is left (inside the current partitions).
    fn drain(&mut self) {
        loop {
            let mut progress = false;
            for r in 0..self.reps.len() {
                let mut log = vec![];
                while self.deliver_one(r, &mut log) {
                    progress = true;
                }
                if !log.is_empty() {
                    evl!("deliver to {}: {}", self.reps[r].actor, log.join(" "));
                }
            }
            self.gossip();
            let more = (0..self.reps.len()).any(|r| !self.deliverable(r).is_empty());
            if !progress && !more {
                break;
            }
        }
    }

    // ----- C33: reference verdict ---------------------------------------------------------------

    /// Is the operation authorized and valid in the state at its declared dependencies?
    /// (a) If the operations on its group in its causal past form a chain, by an independent
    ///     sequential replay of the documented rules (crdt/state.rs docs);
    /// (b) otherwise by asking a fresh canonical replica fed exactly the causal past in creation
    ///     order for the group's state (the crate's own concurrency resolution), then applying the
    ///     same documented rules to it.
    fn verdict(&mut self, seq: usize) -> Option<Verdict> {
        if let Some(v) = self.verdicts.get(&seq) {
            return v.clone();
        }
        let v = self.compute_verdict(seq);
        self.verdicts.insert(seq, v.clone());
        v
    }

    fn compute_verdict(&mut self, seq: usize) -> Option<Verdict> {
        let rec = &self.ops[seq];
        let g = rec.op.group_id;
        let past: Vec<usize> = (0..self.ops.len()).filter(|i| rec.anc & (1u128 << *i) != 0).collect();
        let gops: Vec<usize> = past.iter().copied().filter(|i| self.ops[*i].op.group_id == g).collect();
        let chain = gops.windows(2).all(|w| self.ops[w[1]].anc & (1u128 << w[0]) != 0);
        let (model, via_canonical): (BTreeMap<GroupMember<Id>, (bool, u8)>, bool) = if chain {
            (self.model_replay(&gops), false)
        } else {
            ctx::probe("verdict_by_canonical_replay");
            let mut y = Crdt::<C>::init();
            for p in &past {
                match Crdt::<C>::process(y, &self.ops[*p].op) {
                    Ok(n) => y = n,
                    Err(_) => {
                        // The canonical replica refuses part of the causal past that some replica
                        // accepted: no reference available (the disagreement itself is C31's).
                        ctx::probe("verdict_unavailable");
                        return None;
                    }
                }
            }
            let cur = y.inner.current_state();
            let Some(gs) = cur.get(&g) else {
                return Some(Verdict { ok: false, clause: "accepted-although-action-invalid-at-dependencies", site: "group does not exist at the dependencies".into(), why: "group unknown".into(), via_canonical: true });
            };
            let m = members_state_mirror(gs);
            (m.members.into_iter().map(|(k, v)| (k, (v.member_counter % 2 == 1, lvl(&v.access.level)))).collect(), true)
        };
        let v = Self::judge(&self.ops[seq].op, &model, via_canonical);
        if !v.ok && via_canonical {
            // With concurrency inside the group the state at the dependencies is only well defined
            // if the CRDT merge is; where the author's (or target's) concurrently assigned accesses
            // are not consistently ordered by Access::partial_cmp, replicas legitimately disagree
            // about it (that is C31's finding, reported there) and there is no reference here.
            let author = GroupMember::Individual(self.ops[seq].op.author);
            let target = action_target(&self.ops[seq].op.action);
            let anc = self.ops[seq].anc;
            let amb = Self::has_inconsistent_pair(&self.assigned_within(Some(g), |t| *t == author, anc)) || target.map(|t| Self::has_inconsistent_pair(&self.assigned_within(Some(g), |x| *x == t, anc))).unwrap_or(false);
            if amb {
                ctx::probe("verdict_ambiguous_state_at_dependencies");
                return None;
            }
            // The same holds one step downstream: if any member of the group was concurrently given
            // accesses that the comparator does not order consistently, that member's own manager
            // status — and with it the validity of every operation it authored in this causal
            // past, e.g. a demotion of our author — is order-dependent (C31's "downstream" finding).
            if Self::has_inconsistent_pair(&self.assigned_within(Some(g), |_| true, anc)) {
                ctx::probe("verdict_ambiguous_downstream_of_order_dependent_member");
                return None;
            }
        }
        Some(v)
    }

    /// Sequential replay of one group's operations with the documented rules.
    fn model_replay(&self, gops: &[usize]) -> BTreeMap<GroupMember<Id>, (bool, u8)> {
        let mut m: BTreeMap<GroupMember<Id>, (bool, u8)> = BTreeMap::new();
        for s in gops {
            let op = &self.ops[*s].op;
            if let GroupAction::Create { initial_members } = &op.action {
                m.clear();
                for (mem, acc) in initial_members {
                    m.insert(*mem, (true, lvl(&acc.level)));
                }
                continue;
            }
            if !Self::judge(op, &m, false).ok {
                continue;
            }
            match &op.action {
                GroupAction::Add { member, access } => {
                    m.insert(*member, (true, lvl(&access.level)));
                }
                GroupAction::Remove { member } => {
                    if let Some(e) = m.get_mut(member) {
                        e.0 = false;
                    }
                }
                GroupAction::Promote { member, access } => {
                    if let Some(e) = m.get_mut(member) {
                        if e.1 != 3 {
                            e.1 = lvl(&access.level);
                        }
                    }
                }
                GroupAction::Demote { member, access } => {
                    if let Some(e) = m.get_mut(member) {
                        if e.1 != 0 {
                            e.1 = lvl(&access.level);
                        }
                    }
                }
                GroupAction::Create { .. } => {}
            }
        }
        m
    }

    /// The documented rules (crdt/state.rs: add / remove / promote / demote; crdt/mod.rs: no
    /// manager groups) applied to one group's membership.
    fn judge(op: &SimOp<C>, m: &BTreeMap<GroupMember<Id>, (bool, u8)>, via_canonical: bool) -> Verdict {
        let author = GroupMember::Individual(op.author);
        let a = m.get(&author).copied();
        let active = a.map(|x| x.0).unwrap_or(false);
        let manager = active && a.map(|x| x.1 == 3).unwrap_or(false);
        let kind = action_kind(&op.action);
        let target = action_target(&op.action);
        let t = target.and_then(|t| m.get(&t).copied());
        let t_active = t.map(|x| x.0).unwrap_or(false);
        // Attribution for the two early returns in state.rs.
        let site = match (&op.action, t) {
            (GroupAction::Promote { .. }, Some((_, 3))) => "Promote of a member that already has manage access: state::promote returns Ok before any check of the actor".to_string(),
            (GroupAction::Demote { .. }, Some((_, 0))) => "Demote of a member that already has pull access: state::demote returns Ok before any check of the actor".to_string(),
            _ => kind.to_string(),
        };
        let bad = |clause: &'static str, why: String| Verdict { ok: false, clause, site: site.clone(), why, via_canonical };
        let self_remove = matches!(&op.action, GroupAction::Remove { member } if *member == author);
        if matches!(op.action, GroupAction::Create { .. }) {
            return Verdict { ok: true, clause: "", site, why: String::new(), via_canonical };
        }
        if !active {
            return bad("accepted-although-author-not-active-manager-at-dependencies", format!("author {} is {} at the dependencies", op.author, if a.is_some() { "a removed member" } else { "unknown to the group" }));
        }
        if !manager && !self_remove {
            return bad("accepted-although-author-not-active-manager-at-dependencies", format!("author {} has only {} access at the dependencies", op.author, lvl_name(a.unwrap().1)));
        }
        match &op.action {
            GroupAction::Add { member, access } => {
                if t_active {
                    return bad("accepted-although-action-invalid-at-dependencies", format!("{} is already an active member", show_member(member)));
                }
                if member.is_group() && access.is_manage() {
                    return bad("accepted-although-action-invalid-at-dependencies", "manager groups are not allowed".into());
                }
            }
            GroupAction::Remove { member } | GroupAction::Demote { member, .. } => {
                if !t_active {
                    return bad("accepted-although-action-invalid-at-dependencies", format!("{} is not an active member", show_member(member)));
                }
            }
            GroupAction::Promote { member, access } => {
                if !t_active {
                    return bad("accepted-although-action-invalid-at-dependencies", format!("{} is not an active member", show_member(member)));
                }
                if member.is_group() && access.is_manage() {
                    return bad("accepted-although-action-invalid-at-dependencies", "manager groups are not allowed".into());
                }
            }
            GroupAction::Create { .. } => {}
        }
        Verdict { ok: true, clause: "", site, why: String::new(), via_canonical }
    }

    fn check_acceptance(&mut self, r: usize, seq: usize) {
        if matches!(self.ops[seq].op.action, GroupAction::Create { .. }) {
            return;
        }
        let Some(v) = self.verdict(seq) else { return };
        if v.ok {
            if self.ops[seq].byz.is_some() {
                ctx::probe("forged_op_was_authorized_at_its_dependencies");
            }
            return;
        }
        violation(
            v.clause,
            &v.site,
            format!(
                "replica {} accepted {}{}: {} (reference: {})",
                self.reps[r].actor,
                self.show_op(seq),
                self.ops[seq].byz.map(|b| format!(" [{b}]")).unwrap_or_default(),
                v.why,
                if v.via_canonical { "canonical replica fed the causal past" } else { "sequential replay of the group's chain" }
            ),
        );
    }

    /// Every reported member traces back to a create/add this replica accepted, and its access to
    /// an access some accepted operation assigned.
    fn check_traceback(&self) {
        for (r, rep) in self.reps.iter().enumerate() {
            let _ = r;
            let mut roots: BTreeMap<Id, RootView<C>> = BTreeMap::new();
            for g in &self.groups {
                roots.insert(*g, root_view(&rep.state, *g));
            }
            for g in &self.groups {
                for (m, l, c) in &roots[g] {
                    let mut introduced = false;
                    let mut granted = false;
                    for s in &rep.processed {
                        let op = &self.ops[*s].op;
                        if op.group_id != *g {
                            continue;
                        }
                        match &op.action {
                            GroupAction::Create { initial_members } => {
                                for (im, ia) in initial_members {
                                    if im == m {
                                        introduced = true;
                                        if lvl(&ia.level) == *l && ia.conditions == *c {
                                            granted = true;
                                        }
                                    }
                                }
                            }
                            GroupAction::Add { member, access } if member == m => {
                                introduced = true;
                                if lvl(&access.level) == *l && access.conditions == *c {
                                    granted = true;
                                }
                            }
                            GroupAction::Promote { member, access } | GroupAction::Demote { member, access } if member == m => {
                                if lvl(&access.level) == *l && access.conditions == *c {
                                    granted = true;
                                }
                            }
                            _ => {}
                        }
                    }
                    if !introduced {
                        violation("member-without-accepted-create-or-add", "root_members", format!("replica {} reports {} in g{g} but accepted no create/add introducing it", rep.actor, show_member(m)));
                    } else if !granted {
                        violation("member-access-never-assigned", "root_members", format!("replica {} reports {}={} in g{g}; no accepted operation assigned that access", rep.actor, show_member(m), show_acc(*l, c)));
                    }
                }
                // Transitive individuals must be direct members of a group reachable from g.
                let mut reach: BTreeSet<Id> = BTreeSet::new();
                let mut stack = vec![*g];
                while let Some(x) = stack.pop() {
                    if !reach.insert(x) {
                        continue;
                    }
                    if let Some(rv) = roots.get(&x) {
                        for (m, _, _) in rv {
                            if let GroupMember::Group(c) = m {
                                stack.push(*c);
                            }
                        }
                    }
                }
                if nesting_walks(&roots, *g) > WALK_LIMIT {
                    continue;
                }
                for (i, _, _) in mem_view(&rep.state, *g) {
                    let found = reach.iter().any(|x| roots.get(x).map(|rv| rv.iter().any(|(m, _, _)| *m == GroupMember::Individual(i))).unwrap_or(false));
                    if !found {
                        violation("member-without-accepted-create-or-add", "members (transitive)", format!("replica {} reports {i} in members(g{g}) but it is a direct member of no reachable group", rep.actor));
                    }
                }
            }
        }
    }

    // ----- C31: convergence ---------------------------------------------------------------------

    /// Concurrency categories among the accepted operations of group `g` that target member `m`.
    fn pair_categories(&self, g: Id, m: &GroupMember<Id>) -> BTreeSet<&'static str> {
        let mut out = BTreeSet::new();
        let idx: Vec<usize> = (0..self.ops.len())
            .filter(|i| {
                let o = &self.ops[*i];
                o.op.group_id == g && !o.accepted_by.is_empty() && action_target(&o.op.action).as_ref() == Some(m)
            })
            .collect();
        for (x, a) in idx.iter().enumerate() {
            for b in idx.iter().skip(x + 1) {
                let (oa, ob) = (&self.ops[*a], &self.ops[*b]);
                if oa.anc & (1u128 << *b) != 0 || ob.anc & (1u128 << *a) != 0 {
                    continue;
                }
                let (ka, kb) = (action_kind(&oa.op.action), action_kind(&ob.op.action));
                let (aa, ab) = (action_access(&oa.op.action), action_access(&ob.op.action));
                match (aa, ab) {
                    (Some(x), Some(y)) => {
                        if x.level == y.level {
                            match (&x.conditions, &y.conditions) {
                                (None, None) => out.insert("identical grants"),
                                (None, Some(_)) | (Some(_), None) => out.insert("same-level grants with and without conditions"),
                                (Some(p), Some(q)) if p != q => out.insert("same-level grants with different conditions"),
                                _ => out.insert("identical grants"),
                            };
                        } else {
                            out.insert(if x.conditions.is_some() || y.conditions.is_some() { "grants of different levels with conditions" } else { "grants of different levels" });
                        }
                    }
                    (None, Some(_)) | (Some(_), None) => {
                        let other = if ka == "Remove" { kb } else { ka };
                        out.insert(match other {
                            "Add" => "remove and re-add",
                            "Promote" => "remove and promote",
                            _ => "remove and demote",
                        });
                    }
                    (None, None) => {
                        out.insert("two removes");
                    }
                }
            }
        }
        out
    }

    /// Probes for the rare conditions, from the operations every replica accepted.
    fn probe_history(&self) {
        let mut any_concurrent = false;
        let n = self.ops.len();
        for a in 0..n {
            for b in a + 1..n {
                let (oa, ob) = (&self.ops[a], &self.ops[b]);
                if oa.accepted_by.is_empty() || ob.accepted_by.is_empty() {
                    continue;
                }
                if ob.anc & (1u128 << a) != 0 {
                    continue;
                }
                any_concurrent = true;
                if oa.op.group_id != ob.op.group_id {
                    continue;
                }
                // mutual removal / removal of an acting member
                let removed_a = matches!(&oa.op.action, GroupAction::Remove { member } if *member == GroupMember::Individual(ob.op.author));
                let removed_b = matches!(&ob.op.action, GroupAction::Remove { member } if *member == GroupMember::Individual(oa.op.author));
                if removed_a && removed_b {
                    ctx::probe("concurrent_mutual_remove");
                } else if (removed_a || removed_b) && oa.op.author != ob.op.author {
                    ctx::probe("concurrent_remove_of_acting_member");
                }
            }
        }
        if any_concurrent {
            ctx::mark_nontrivial();
        }
        let mut seen: BTreeSet<(Id, GroupMember<Id>)> = BTreeSet::new();
        for o in &self.ops {
            if let Some(t) = action_target(&o.op.action) {
                if seen.insert((o.op.group_id, t)) {
                    for c in self.pair_categories(o.op.group_id, &t) {
                        ctx::probe(match c {
                            "same-level grants with and without conditions" => "concurrent_same_level_with_and_without_condition",
                            "same-level grants with different conditions" => "concurrent_same_level_different_conditions",
                            "grants of different levels" | "grants of different levels with conditions" => "concurrent_grants_of_different_levels",
                            "remove and promote" => "concurrent_remove_and_promote",
                            "remove and demote" => "concurrent_remove_and_demote",
                            "remove and re-add" => "concurrent_remove_and_readd",
                            "two removes" => "concurrent_double_remove",
                            _ => "concurrent_identical_grants",
                        });
                    }
                }
            }
        }
        // Nesting among the operations that were accepted.
        let mut edges: BTreeSet<(Id, Id)> = BTreeSet::new();
        for o in self.ops.iter().filter(|o| !o.accepted_by.is_empty()) {
            match &o.op.action {
                GroupAction::Create { initial_members } => {
                    for (m, _) in initial_members {
                        if let GroupMember::Group(c) = m {
                            edges.insert((o.op.group_id, *c));
                        }
                    }
                }
                GroupAction::Add { member: GroupMember::Group(c), .. } => {
                    edges.insert((o.op.group_id, *c));
                }
                _ => {}
            }
        }
        if !edges.is_empty() {
            ctx::probe("nested_group");
            let reach = |from: Id, to: Id| {
                let mut stack = vec![from];
                let mut seen = BTreeSet::new();
                while let Some(x) = stack.pop() {
                    if x == to {
                        return true;
                    }
                    if seen.insert(x) {
                        stack.extend(edges.iter().filter(|(p, _)| *p == x).map(|(_, c)| *c));
                    }
                }
                false
            };
            if edges.iter().any(|(p, c)| reach(*c, *p)) {
                ctx::probe("nested_group_cycle");
            }
        }
    }

    /// `true` if the crate's own `PartialOrd` does not order some pair of (different) accesses
    /// consistently (`a < b` and `b < a` both hold, or neither): a "take the lower one" tie-break
    /// over such a pair depends on which one comes first.
    fn has_inconsistent_pair(v: &[(u8, Option<C>)]) -> bool {
        for (i, x) in v.iter().enumerate() {
            for y in v.iter().skip(i + 1) {
                if x == y {
                    continue;
                }
                let a: Access<C> = Access { level: level_of(x.0), conditions: x.1.clone() };
                let b: Access<C> = Access { level: level_of(y.0), conditions: y.1.clone() };
                if (a < b) == (b < a) {
                    return true;
                }
            }
        }
        false
    }

    /// Accesses that accepted operations assigned (create / add / promote / demote), filtered by
    /// group and by member.
    fn assigned(&self, g: Option<Id>, pred: impl Fn(&GroupMember<Id>) -> bool) -> Vec<(u8, Option<C>)> {
        self.assigned_within(g, pred, u128::MAX)
    }

    /// Same, restricted to the operations whose bit is set in `within`.
    fn assigned_within(&self, g: Option<Id>, pred: impl Fn(&GroupMember<Id>) -> bool, within: u128) -> Vec<(u8, Option<C>)> {
        let mut out: BTreeSet<(u8, Option<C>)> = BTreeSet::new();
        for (i, o) in self.ops.iter().enumerate() {
            if within & (1u128 << i) == 0 || o.accepted_by.is_empty() || g.map(|g| g != o.op.group_id).unwrap_or(false) {
                continue;
            }
            match &o.op.action {
                GroupAction::Create { initial_members } => {
                    for (m, a) in initial_members {
                        if pred(m) {
                            out.insert((lvl(&a.level), a.conditions.clone()));
                        }
                    }
                }
                GroupAction::Add { member, access } | GroupAction::Promote { member, access } | GroupAction::Demote { member, access } => {
                    if pred(member) {
                        out.insert((lvl(&access.level), access.conditions.clone()));
                    }
                }
                GroupAction::Remove { .. } => {}
            }
        }
        out.into_iter().collect()
    }

    fn first_diff<K: Ord + Copy>(a: &[(K, u8, Option<C>)], b: &[(K, u8, Option<C>)]) -> Option<(K, Option<(u8, Option<C>)>, Option<(u8, Option<C>)>)> {
        let ka: BTreeMap<K, (u8, Option<C>)> = a.iter().map(|(m, l, c)| (*m, (*l, c.clone()))).collect();
        let kb: BTreeMap<K, (u8, Option<C>)> = b.iter().map(|(m, l, c)| (*m, (*l, c.clone()))).collect();
        let all: BTreeSet<K> = ka.keys().chain(kb.keys()).copied().collect();
        for m in all {
            if ka.get(&m) != kb.get(&m) {
                return Some((m, ka.get(&m).cloned(), kb.get(&m).cloned()));
            }
        }
        None
    }

    fn show_opt(x: &Option<(u8, Option<C>)>) -> String {
        x.as_ref().map(|x| show_acc(x.0, &x.1)).unwrap_or("absent".into())
    }

    fn site_root(&self, g: Id, m: &GroupMember<Id>, x: &Option<(u8, Option<C>)>, y: &Option<(u8, Option<C>)>) -> (&'static str, String) {
        let downstream = "root_members differ downstream of an order-dependent manager status in the same group: some member was concurrently given manage and a lower level under conditions that Access::partial_cmp does not order consistently, so replicas disagree (state::merge tie-break) on whether that member's later operations are authorized";
        if x.is_none() || y.is_none() {
            if self.authority_ambiguous(g) {
                return ("reported-membership-differs", downstream.into());
            }
            return ("reported-membership-differs", "root_members: member reported on one side only".into());
        }
        if !Self::has_inconsistent_pair(&self.assigned(Some(g), |t| t == m)) && self.authority_ambiguous(g) {
            return ("reported-access-differs", downstream.into());
        }
        if Self::has_inconsistent_pair(&self.assigned(Some(g), |t| t == m)) {
            return (
                "reported-access-differs",
                "root_members: the accesses concurrently assigned to the member are not consistently ordered by Access::partial_cmp (a<b == b<a for some pair), so the take-the-lower tie-break in state::merge depends on argument order, i.e. on HashSet iteration order of the heads / on delivery order".into(),
            );
        }
        ("reported-access-differs", "root_members: the accesses assigned to the member are consistently ordered by Access::partial_cmp (not the comparator)".into())
    }

    /// Some member of `g` was concurrently assigned manage and a lower level, not consistently
    /// ordered by the crate's comparator: whether it is a manager is then order-dependent.
    fn authority_ambiguous(&self, g: Id) -> bool {
        let mut targets: BTreeSet<GroupMember<Id>> = BTreeSet::new();
        for o in &self.ops {
            if o.op.group_id == g {
                if let Some(t) = action_target(&o.op.action) {
                    targets.insert(t);
                }
                if let GroupAction::Create { initial_members } = &o.op.action {
                    targets.extend(initial_members.iter().map(|(m, _)| *m));
                }
            }
        }
        targets.iter().any(|t| {
            let acc = self.assigned(Some(g), |x| x == t);
            acc.iter().any(|a| a.0 == 3) && acc.iter().any(|a| a.0 != 3) && Self::has_inconsistent_pair(&acc)
        })
    }

    fn concurrency_note(&self, g: Id, m: &GroupMember<Id>) -> String {
        let cats: Vec<&str> = self.pair_categories(g, m).into_iter().collect();
        if cats.is_empty() { "no concurrent operations target that member".to_string() } else { format!("after concurrent {}", cats.join(" + ")) }
    }

    fn site_transitive(&self, i: Id, x: &Option<(u8, Option<C>)>, y: &Option<(u8, Option<C>)>) -> (&'static str, String) {
        if x.is_none() || y.is_none() {
            return ("reported-membership-differs", "members (transitive): individual reported on one side only while root_members are stable".into());
        }
        let rel = self.assigned(None, |t| *t == GroupMember::Individual(i) || t.is_group());
        if Self::has_inconsistent_pair(&rel) {
            return (
                "reported-access-differs",
                "members (transitive) with stable root_members: the accesses met along the nesting paths are not consistently ordered by Access::partial_cmp (a<b == b<a for some pair), so the cap/maximum computed in members_inner depends on HashMap iteration order".into(),
            );
        }
        ("reported-access-differs", "members (transitive) with stable root_members: accesses along the nesting paths are consistently ordered by Access::partial_cmp".into())
    }

    /// Describe the first difference between two views and attribute it: (clause, site, detail).
    /// `states` are the replica states behind the views (for re-sampling root_members: a members()
    /// difference is attributed to nesting only if root_members are stable).
    fn attribute_diff(&self, a: &Views<C>, b: &Views<C>, states: &[&State<C>]) -> (&'static str, String, String) {
        for (g, (ra, _)) in &a.groups {
            let (rb, _) = &b.groups[g];
            if let Some((m, x, y)) = Self::first_diff(ra, rb) {
                let (clause, site) = self.site_root(*g, &m, &x, &y);
                return (clause, site, format!("root_members(g{g}): {} is {} vs {}; {}", show_member(&m), Self::show_opt(&x), Self::show_opt(&y), self.concurrency_note(*g, &m)));
            }
        }
        for (g, (_, ma)) in &a.groups {
            let (_, mb) = &b.groups[g];
            if let Some((i, x, y)) = Self::first_diff(ma, mb) {
                let detail = format!("members(g{g}): {i} is {} vs {}", Self::show_opt(&x), Self::show_opt(&y));
                // Are the root views behind it stable?
                for st in states {
                    for k in 0..6 {
                        let twin = if k % 2 == 0 { reload(st) } else { (*st).clone() };
                        for (g2, (r0, _)) in &a.groups {
                            let r = root_view(&twin, *g2);
                            if let Some((m, x2, y2)) = Self::first_diff(r0, &r) {
                                let (clause, site) = self.site_root(*g2, &m, &x2, &y2);
                                return (clause, site, format!("{detail}; root_members(g{g2}) is itself unstable: {} is {} vs {}; {}", show_member(&m), Self::show_opt(&x2), Self::show_opt(&y2), self.concurrency_note(*g2, &m)));
                            }
                        }
                    }
                }
                let (clause, site) = self.site_transitive(i, &x, &y);
                return (clause, site, format!("{detail} (root_members of every group stable over 6 re-reads)"));
            }
        }
        ("views-differ", "unattributed".into(), String::new())
    }

    /// Compare replicas that processed the same set of operations; also repeated queries and a
    /// CBOR-reloaded twin of each replica.
    fn check_convergence(&mut self, final_check: bool) {
        let groups = self.groups.clone();
        // (name, views, index of the replica or usize::MAX for the canonical one)
        let mut by_set: BTreeMap<Vec<usize>, Vec<(String, Views<C>, usize)>> = BTreeMap::new();
        for (ri, rep) in self.reps.iter().enumerate() {
            let v1 = views_of(&rep.state, &groups);
            if let Some((g, walks)) = v1.skipped.iter().next() {
                ctx::probe("members_query_would_not_return");
                violation(
                    "members-query-does-not-return",
                    "members_inner keeps no visited set: it follows every walk through a nesting cycle up to MAX_NESTED_DEPTH=1000, which is exponential once two nesting cycles (created by concurrent, individually valid adds) pass through one group",
                    format!("replica {}: members(g{g}) would follow {} walks, each step a current_state() (harness did not call it)", rep.actor, if *walks == u64::MAX { ">= 2^64".to_string() } else { walks.to_string() }),
                );
            }
            // Repeated queries on one replica.
            for _ in 0..2 {
                let v2 = views_of(&rep.state, &groups);
                if v2 != v1 {
                    let (clause, site, detail) = self.attribute_diff(&v1, &v2, &[&rep.state]);
                    violation(clause, &site, format!("replica {} asked twice in a row: {detail}", rep.actor));
                }
            }
            if final_check {
                // Same operations in the same order, state reloaded through the store codec.
                let twin = reload(&rep.state);
                let v3 = views_of(&twin, &groups);
                if v3 != v1 {
                    let (clause, site, detail) = self.attribute_diff(&v1, &v3, &[&rep.state]);
                    violation(clause, &site, format!("replica {} vs its CBOR-reloaded twin (same operations, same order): {detail}", rep.actor));
                }
            }
            by_set.entry(rep.processed.iter().copied().collect()).or_default().push((rep.actor.to_string(), v1, ri));
        }
        let mut canonical: Option<State<C>> = None;
        if final_check {
            // A canonical replica: all accepted operations in creation order, on another thread
            // (other hasher keys).
            let accepted: Vec<usize> = (0..self.ops.len()).filter(|i| !self.ops[*i].accepted_by.is_empty()).collect();
            let ops: Vec<SimOp<C>> = accepted.iter().map(|i| self.ops[*i].op.clone()).collect();
            // positions (in `ops`) of each operation's dependencies: the canonical replica sits
            // behind the same causal buffer as everybody else.
            let dep_pos: Vec<Vec<Option<usize>>> = accepted.iter().map(|i| self.ops[*i].deps.iter().map(|d| accepted.iter().position(|a| a == d)).collect()).collect();
            let g2 = groups.clone();
            let h = std::thread::Builder::new()
                .name("sim-canonical".into())
                .stack_size(16 << 20)
                .spawn(move || {
                    let mut y = Crdt::<C>::init();
                    let mut done = vec![];
                    let mut refused: Vec<(usize, &'static str)> = vec![];
                    for (k, op) in ops.iter().enumerate() {
                        if !dep_pos[k].iter().all(|d| d.map(|d| done.contains(&d)).unwrap_or(false)) {
                            continue;
                        }
                        match Crdt::<C>::process(y.clone(), op) {
                            Ok(n) => {
                                y = n;
                                done.push(k);
                            }
                            Err(e) => refused.push((k, err_name(&e))),
                        }
                    }
                    let v = views_of(&y, &g2);
                    (done, refused, v, y)
                })
                .expect("spawn canonical");
            match h.join() {
                Ok((done, refused, v, y)) => {
                    for (k, e) in refused {
                        evl!("canonical replica (creation order) refuses #{}: {e}", accepted[k]);
                        self.ops[accepted[k]].rejected_by.insert(usize::MAX, e);
                    }
                    let set: Vec<usize> = done.into_iter().map(|k| accepted[k]).collect();
                    by_set.entry(set).or_default().push(("canonical".into(), v, usize::MAX));
                    canonical = Some(y);
                }
                Err(p) => std::panic::resume_unwind(p),
            }
        }
        for (set, group) in &by_set {
            for (name, v, idx) in group.iter().skip(1) {
                if *v != group[0].1 {
                    let mut states: Vec<&State<C>> = vec![];
                    for i in [group[0].2, *idx] {
                        if i == usize::MAX {
                            if let Some(c) = &canonical {
                                states.push(c);
                            }
                        } else {
                            states.push(&self.reps[i].state);
                        }
                    }
                    let (clause, site, detail) = self.attribute_diff(&group[0].1, v, &states);
                    violation(clause, &site, format!("replicas {} and {} processed the same {} operations: {detail}", group[0].0, name, set.len()));
                }
            }
        }
        if final_check {
            // After heal and full delivery everybody must have been able to process the same set.
            if by_set.len() > 1 {
                let mut reported = false;
                for (s, o) in self.ops.iter().enumerate() {
                    if !o.accepted_by.is_empty() && !o.rejected_by.is_empty() {
                        let err = o.rejected_by.values().next().copied().unwrap_or("?");
                        let author = GroupMember::Individual(o.op.author);
                        let target = action_target(&o.op.action);
                        let g = o.op.group_id;
                        let amb = Self::has_inconsistent_pair(&self.assigned_within(Some(g), |t| *t == author, o.anc)) || target.map(|t| Self::has_inconsistent_pair(&self.assigned_within(Some(g), |x| *x == t, o.anc))).unwrap_or(false);
                        let site = if amb {
                            "an operation is accepted by one replica and rejected by another: the author's (or target's) access at the dependencies is order-dependent, because the accesses concurrently assigned to it are not consistently ordered by Access::partial_cmp (state::merge tie-break)".to_string()
                        } else {
                            format!("{} accepted by one replica and rejected by another ({err}); assigned accesses consistently ordered", action_kind(&o.op.action))
                        };
                        violation(
                            "replicas-cannot-process-the-same-set",
                            &site,
                            format!("{} accepted by {:?}, rejected by {:?}", self.show_op(s), o.accepted_by.iter().map(|r| self.reps[*r].actor).collect::<Vec<_>>(), o.rejected_by.iter().map(|(r, e)| (self.reps.get(*r).map(|x| x.actor.to_string()).unwrap_or("canonical".into()), *e)).collect::<Vec<_>>()),
                        );
                        reported = true;
                        break;
                    }
                }
                if !reported {
                    let sizes: Vec<String> = by_set.iter().map(|(s, g)| format!("{}:{}", g.iter().map(|x| x.0.clone()).collect::<Vec<_>>().join("+"), s.len())).collect();
                    violation("replicas-cannot-process-the-same-set", "operation sets differ after heal and full delivery", format!("processed-set sizes {sizes:?}"));
                }
            }
            if let Some((_, group)) = by_set.iter().next() {
                for (g, (rv, mv)) in &group[0].1.groups {
                    evl!("final g{g}: root [{}] members [{}]", show_root(rv), show_mem(mv));
                }
            }
        }
    }

    // ----- the run -------------------------------------------------------------------------------

    pub fn run(&mut self) {
        // Bootstrap: the first replica creates the root group; everybody learns it.
        self.step_act_by(0);
        self.drain();
        if self.cfg.linear {
            self.run_linear();
        } else {
            self.run_concurrent();
        }
        self.heal_all();
        self.drain();
        let stuck: Vec<String> = self.reps.iter().filter(|r| !r.pool.is_empty()).map(|r| format!("{}:{:?}", r.actor, r.pool)).collect();
        if !stuck.is_empty() {
            evl!("undeliverable (dependencies refused there): {}", stuck.join(" "));
        }
        self.probe_history();
        if self.ops.iter().filter(|o| !o.accepted_by.is_empty()).count() >= 4 {
            ctx::mark_nontrivial();
        }
        if self.cfg.check_c31 {
            self.check_convergence(true);
        }
        if self.cfg.check_c33 {
            self.check_traceback();
            let groups = self.groups.clone();
            for (g, (rv, mv)) in &views_of(&self.reps[0].state, &groups).groups {
                evl!("final at {} g{g}: root [{}] members [{}]", self.reps[0].actor, show_root(rv), show_mem(mv));
            }
        }
    }

    fn step_act_by(&mut self, r: usize) {
        if let Some((g, a)) = self.gen_honest(r) {
            self.act(r, g, a);
        }
    }

    fn run_linear(&mut self) {
        let n = 3 + ctx::choose("linear.ops", self.cfg.max_ops.saturating_sub(2).max(1));
        for _ in 0..n {
            if self.cfg.byzantine && ctx::chance("linear.byz", 1, 3) {
                self.step_byzantine();
            } else {
                self.step_act();
            }
            self.drain();
            if self.cfg.check_c31 {
                self.check_convergence(false);
            }
        }
    }

    fn run_concurrent(&mut self) {
        let rounds = 1 + ctx::choose("rounds", 4);
        let byz_w = if self.cfg.byzantine { 4 } else { 0 };
        let dup_w = if self.duplicate { 1 } else { 0 };
        for _ in 0..rounds {
            self.repartition();
            self.gossip();
            let steps = 2 + ctx::choose("steps", 9);
            for _ in 0..steps {
                if self.ops.len() >= self.cfg.max_ops {
                    break;
                }
                match wchoose("step", &[("act", 4), ("deliver", 4), ("conflict", self.cfg.conflict_w), ("byz", byz_w), ("dup", dup_w)]) {
                    Some("act") => self.step_act(),
                    Some("deliver") => self.step_deliver(),
                    Some("conflict") => {
                        if !self.step_conflict() {
                            self.step_act();
                        }
                    }
                    Some("byz") => self.step_byzantine(),
                    Some("dup") => self.step_duplicate(),
                    _ => {}
                }
            }
            if ctx::chance("round.sync", 1, 2) {
                self.drain();
            }
            if self.cfg.check_c31 {
                self.check_convergence(false);
            }
        }
    }
}

/// Hand-written scenarios (debugging aid, `GROUPWORLD_SCRIPT=<name> p2sim-auth one C33 1 0`):
/// consequences of findings that the random workload deliberately stays away from.
pub fn scripted(name: &str) {
    type Y = State<Expiry>;
    let op = |id: u32, author: char, deps: &[u32], g: char, action: GroupAction<Id, Expiry>| SimOp { id, author, dependencies: deps.to_vec(), group_id: g, action };
    let ind = GroupMember::Individual;
    let feed = |ops: &[&SimOp<Expiry>]| -> Y {
        let mut y: Y = Crdt::<Expiry>::init();
        for o in ops {
            match Crdt::<Expiry>::process(y.clone(), o) {
                Ok(n) => {
                    evl!("  #{} {} in g{}: {} -> ok", o.id, o.author, o.group_id, show_action(&o.action));
                    y = n
                }
                Err(e) => evl!("  #{} {} in g{}: {} -> REJECTED({})", o.id, o.author, o.group_id, show_action(&o.action), err_name(&e)),
            }
        }
        y
    };
    match name {
        // An operation on a group whose create is not in the causal past of its dependencies.
        "unknown_group" => {
            let o1 = op(1, 'A', &[], '1', GroupAction::Create { initial_members: vec![(ind('A'), Access::manage())] });
            let o2 = op(2, 'X', &[1], '9', GroupAction::Add { member: ind('X'), access: Access::manage() });
            let y = feed(&[&o1, &o2]);
            evl!("members(g1) = [{}]", show_mem(&mem_view(&y, '1')));
        }
        // A non-member's forged no-op demote of a pull member cancels that member's later,
        // concurrent, legitimate operations (the strong-remove filter treats it as a demotion).
        "forged_demote_cancels" => {
            let o1 = op(1, 'A', &[], '1', GroupAction::Create { initial_members: vec![(ind('A'), Access::manage()), (ind('D'), Access::pull())] });
            let o2 = op(2, 'X', &[1], '1', GroupAction::Demote { member: ind('D'), access: Access::read() });
            let o3 = op(3, 'A', &[1], '1', GroupAction::Promote { member: ind('D'), access: Access::manage() });
            let o4 = op(4, 'D', &[3], '1', GroupAction::Add { member: ind('E'), access: Access::read() });
            evl!("without the forged operation:");
            let y = feed(&[&o1, &o3, &o4]);
            evl!("members(g1) = [{}]", show_mem(&mem_view(&y, '1')));
            evl!("with the forged operation #2 by non-member X:");
            let y = feed(&[&o1, &o3, &o4, &o2]);
            evl!("members(g1) = [{}]", show_mem(&mem_view(&y, '1')));
        }
        _ => evl!("unknown script"),
    }
}

pub fn run_world<C: Cond>(cfg: Cfg) {
    if let Ok(name) = std::env::var("GROUPWORLD_SCRIPT") {
        scripted(&name);
        return;
    }
    let mut w: World<C> = World::new(cfg);
    w.run();
}
