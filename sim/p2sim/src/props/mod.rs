pub mod c19;
pub mod c20;
pub mod c21;
pub mod syncworld;

pub fn all() -> Vec<&'static dyn simcore::Property> {
    vec![&c19::C19, &c20::C20, &c21::C21]
}
