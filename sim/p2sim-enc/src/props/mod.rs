pub mod c34;
pub mod c36;
pub mod c38;
pub mod util;

pub fn all() -> Vec<&'static dyn simcore::Property> {
    vec![&c34::C34, &c36::C36, &c38::C38]
}
