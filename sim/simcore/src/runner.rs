//! Batch runner: one seed → many simulated runs over worker processes → merged evidence,
//! shrunk replay files, known-finding matching, exit code.

use std::collections::{BTreeMap, BTreeSet};
use std::io::Write;
use std::panic::{AssertUnwindSafe, catch_unwind};
use std::path::{Path, PathBuf};
use std::sync::Mutex;
use std::time::{Duration, Instant};

use serde_json::{Value, json};

use crate::ctx::{self, RunCtx, RunSpec, Violation};
use crate::libc_seams;
use crate::rng::{hash_str, mix};

#[derive(Clone, Copy, Debug, PartialEq, Eq)]
pub enum Tier {
    Quick,
    Thorough,
}

impl Tier {
    pub fn name(&self) -> &'static str {
        match self {
            Tier::Quick => "quick",
            Tier::Thorough => "thorough",
        }
    }
}

#[derive(Clone, Copy, Debug)]
pub struct Budget {
    /// Number of simulated runs (split over the workers).
    pub runs: u64,
    /// Wall-clock cap in seconds for the exploration phase; runs not started by then are skipped
    /// (and the evidence says so).
    pub wall_cap_s: u64,
}

pub trait Property: Sync {
    fn id(&self) -> &'static str;
    /// MANIFEST `level_claimed.category`.
    fn level(&self) -> &'static str {
        "exploration"
    }
    fn budget(&self, tier: Tier) -> Budget;
    /// Number of scenario modes (sub-batches); run r uses mode r % modes.
    fn modes(&self) -> u32 {
        1
    }
    fn mode_name(&self, _mode: u32) -> &'static str {
        "default"
    }
    /// Execute one simulated run on the current (simulator) thread. All randomness through
    /// `ctx::choose`; violations through `ctx::violation`.
    fn run(&self);
    fn rule(&self) -> &'static str;
    fn components_real(&self) -> Vec<&'static str>;
    fn components_stub(&self) -> Vec<&'static str>;
    fn assumptions(&self) -> Vec<&'static str> {
        vec![]
    }
    /// Probes that a thorough run is expected to reach (reported as `unreached_probes` otherwise).
    fn expected_probes(&self) -> Vec<&'static str> {
        vec![]
    }
    /// Real-time limit of one run (watchdog, `VERIF_RUN_LIMIT_S` overrides it). Only checks that
    /// must wait in real time (a real Node) raise it.
    fn run_limit_s(&self) -> u64 {
        150
    }
    /// Shrinking budget in seconds (0 disables shrinking, e.g. for very slow runs).
    fn shrink_budget_s(&self, tier: Tier) -> u64 {
        match tier {
            Tier::Quick => 10,
            Tier::Thorough => 40,
        }
    }
}

pub struct RunRecord {
    pub spec: RunSpec,
    pub choices: Vec<u32>,
    pub fp: u64,
    pub trace: Vec<String>,
    pub trace_dropped: u64,
    pub faults: BTreeMap<&'static str, u64>,
    pub probes: BTreeMap<&'static str, u64>,
    pub violations: Vec<Violation>,
    pub nontrivial: bool,
    pub sim_time_us: u64,
    pub steps: u64,
    pub fallback: u64,
    pub harness_error: Option<String>,
}

static PANIC_INFO: Mutex<Option<(String, String)>> = Mutex::new(None);

pub fn install_panic_hook() {
    let default = std::panic::take_hook();
    std::panic::set_hook(Box::new(move |info| {
        let is_sim = std::thread::current().name().map(|n| n.starts_with("sim")).unwrap_or(false);
        if is_sim {
            let loc = info.location().map(|l| format!("{}:{}", l.file(), l.line())).unwrap_or_default();
            let msg = if let Some(s) = info.payload().downcast_ref::<&str>() {
                s.to_string()
            } else if let Some(s) = info.payload().downcast_ref::<String>() {
                s.clone()
            } else {
                "panic".to_string()
            };
            // A panic raised inside std / a dependency on behalf of repository code is attributed to
            // the innermost repository frame (needs symbol names only, not debug info).
            let mut loc = loc;
            if !loc.contains("/repo/") && !loc.contains("/verif/") {
                let bt = std::backtrace::Backtrace::force_capture().to_string();
                let mut harness_first = false;
                for line in bt.lines() {
                    let l = line.trim();
                    let Some((_, sym)) = l.split_once(": ") else { continue };
                    if sym.starts_with("p2panda") || sym.starts_with("<p2panda") {
                        let clean = strip_symbol_hash(sym).replace("::{{closure}}", "");
                        loc = format!("{loc} in {clean}");
                        break;
                    }
                    if sym.starts_with("p2sim") || sym.starts_with("simworld") || sym.starts_with("<p2sim") || sym.starts_with("<simworld") || (sym.starts_with("simcore") && !sym.contains("runner")) {
                        harness_first = true;
                        break;
                    }
                }
                if harness_first {
                    loc = format!("/verif/ (harness frame first) {loc}");
                }
            }
            *PANIC_INFO.lock().unwrap() = Some((loc, msg));
        } else if std::env::var("VERIF_QUIET_PANICS").is_err() {
            default(info);
        }
    }));
}

fn strip_symbol_hash(sym: &str) -> &str {
    if let Some(pos) = sym.rfind("::h") {
        let tail = &sym[pos + 3..];
        if tail.len() == 16 && tail.chars().all(|c| c.is_ascii_hexdigit()) {
            return &sym[..pos];
        }
    }
    sym
}

/// Strip the line number and directory noise from a panic location for use in a signature.
fn panic_site(loc: &str) -> String {
    if let Some((_, func)) = loc.split_once(" in ") {
        return func.to_string();
    }
    let file = loc.rsplit_once(':').map(|(f, _)| f).unwrap_or(loc);
    let file = file.split_once("/repo/").map(|(_, f)| f).unwrap_or(file);
    file.to_string()
}

/// Execute a single run in a fresh thread (fresh std hasher keys, fresh thread-locals), with the
/// process-global seams reset from the spec. Pure function of (property code, spec, choices).
pub fn execute(prop: &'static dyn Property, spec: RunSpec, replay: Option<Vec<u32>>) -> RunRecord {
    libc_seams::enable_random(spec.seed);
    libc_seams::enable_clock(libc_seams::EPOCH_US);
    *PANIC_INFO.lock().unwrap() = None;
    let spec2 = spec.clone();
    let handle = std::thread::Builder::new()
        .name("sim".into())
        .stack_size(16 << 20)
        .spawn(move || {
            ctx::install(RunCtx::new(prop.id(), spec2, replay));
            let r = catch_unwind(AssertUnwindSafe(|| prop.run()));
            let c = ctx::take().expect("context vanished");
            (r.is_err(), c)
        })
        .expect("spawn sim thread");
    let (panicked, mut c) = handle.join().expect("sim thread join");
    let mut harness_error = None;
    if panicked {
        let (loc, msg) = PANIC_INFO.lock().unwrap().take().unwrap_or_default();
        if msg.starts_with("SIM-ABORT") {
            // A seam aborted the run on purpose after recording its violation (e.g. a busy loop
            // that would otherwise spin forever on the simulator thread).
        } else if loc.contains("/verif/") || loc.is_empty() {
            harness_error = Some(format!("panic in harness at {loc}: {msg}"));
        } else {
            let sig = format!("{}|panic|{}", c.property, panic_site(&loc));
            if !c.violations.iter().any(|v| v.signature == sig) {
                c.violations.push(Violation { signature: sig, detail: format!("panic at {loc}: {msg}") });
            }
        }
    }
    if c.choice_overflow {
        harness_error = Some("choice stream overflow (runaway run)".into());
    }
    RunRecord {
        spec,
        choices: c.recorded,
        fp: c.fp,
        trace: c.trace,
        trace_dropped: c.trace_dropped,
        faults: c.faults,
        probes: c.probes,
        violations: c.violations,
        nontrivial: c.nontrivial,
        sim_time_us: c.sim_time_us,
        steps: c.steps,
        fallback: c.fallback_classifications,
        harness_error,
    }
}

fn verif_dir() -> PathBuf {
    PathBuf::from(std::env::var("VERIF_DIR").unwrap_or_else(|_| "/verif".into()))
}

pub fn run_seed(base: u64, prop: &str, r: u64) -> u64 {
    mix(&[base, hash_str(prop), r])
}

// ---------------------------------------------------------------------------------------------
// Worker
// ---------------------------------------------------------------------------------------------

fn record_sample(rec: &RunRecord, mode_name: &str) -> Value {
    json!({
        "mode": mode_name,
        "seed": rec.spec.seed,
        "choices_drawn": rec.choices.len(),
        "steps": rec.steps,
        "faults": rec.faults,
        "trace": rec.trace,
        "trace_events_omitted": rec.trace_dropped,
    })
}

pub fn worker_main(prop: &'static dyn Property, tier: Tier, base_seed: u64, widx: u64, wn: u64, out: &Path) {
    let budget = prop.budget(tier);
    let start = Instant::now();
    let cap = Duration::from_secs(budget.wall_cap_s);
    let modes = prop.modes().max(1) as u64;
    let mut executed = 0u64;
    let mut skipped = 0u64;
    let mut fps: Vec<u64> = Vec::new();
    let mut faults: BTreeMap<String, u64> = BTreeMap::new();
    let mut probes: BTreeMap<String, u64> = BTreeMap::new();
    let mut per_mode: BTreeMap<String, u64> = BTreeMap::new();
    let mut sim_time_us = 0u64;
    let mut steps = 0u64;
    let mut fallback = 0u64;
    let mut fault_free_runs = 0u64;
    let mut violations: BTreeMap<String, Value> = BTreeMap::new();
    let mut violation_counts: BTreeMap<String, u64> = BTreeMap::new();
    let mut samples: Vec<Value> = Vec::new();
    let mut longest: Option<(usize, Value)> = None;
    let mut harness_errors: Vec<String> = Vec::new();

    // Real-time watchdog: a single run that does not come back (a busy loop that never yields, a
    // blocking call) would otherwise hang the whole check. The stuck run is reported with its seed.
    let current: std::sync::Arc<Mutex<Option<(Instant, u64, u32, u64)>>> = std::sync::Arc::new(Mutex::new(None));
    {
        let current = current.clone();
        let out = out.to_path_buf();
        let limit = Duration::from_secs(std::env::var("VERIF_RUN_LIMIT_S").ok().and_then(|s| s.parse().ok()).unwrap_or(prop.run_limit_s()));
        std::thread::Builder::new()
            .name("watchdog".into())
            .spawn(move || loop {
                std::thread::sleep(Duration::from_millis(500));
                let cur = *current.lock().unwrap();
                if let Some((t0, r, mode, seed)) = cur {
                    if t0.elapsed() > limit {
                        let v = json!({"run": r, "mode": mode, "seed": seed, "elapsed_s": t0.elapsed().as_secs()});
                        let _ = std::fs::write(out.with_extension("stuck"), serde_json::to_vec(&v).unwrap());
                        std::process::exit(0);
                    }
                }
            })
            .expect("spawn watchdog");
    }

    let mut r = widx;
    while r < budget.runs {
        if start.elapsed() > cap {
            skipped += (budget.runs - r).div_ceil(wn);
            break;
        }
        let spec = RunSpec { mode: (r % modes) as u32, seed: run_seed(base_seed, prop.id(), r) };
        *current.lock().unwrap() = Some((Instant::now(), r, spec.mode, spec.seed));
        let rec = execute(prop, spec, None);
        *current.lock().unwrap() = None;
        executed += 1;
        *per_mode.entry(prop.mode_name(rec.spec.mode).to_string()).or_insert(0) += 1;
        if rec.nontrivial {
            fps.push(rec.fp);
        }
        if rec.faults.is_empty() {
            fault_free_runs += 1;
        }
        for (k, v) in &rec.faults {
            *faults.entry(k.to_string()).or_insert(0) += v;
        }
        for (k, v) in &rec.probes {
            *probes.entry(k.to_string()).or_insert(0) += v;
        }
        sim_time_us += rec.sim_time_us;
        steps += rec.steps;
        fallback += rec.fallback;
        if let Some(e) = &rec.harness_error {
            if harness_errors.len() < 5 {
                harness_errors.push(format!("run {r} seed {} mode {}: {e}", rec.spec.seed, rec.spec.mode));
            }
        }
        for v in &rec.violations {
            *violation_counts.entry(v.signature.clone()).or_insert(0) += 1;
            violations.entry(v.signature.clone()).or_insert_with(|| {
                json!({
                    "signature": v.signature,
                    "detail": v.detail,
                    "run": r,
                    "mode": rec.spec.mode,
                    "seed": rec.spec.seed,
                    "choices": rec.choices,
                    "trace": rec.trace,
                })
            });
        }
        if widx == 0 && rec.nontrivial {
            if samples.len() < 2 {
                samples.push(record_sample(&rec, prop.mode_name(rec.spec.mode)));
            }
            let l = rec.trace.len();
            if longest.as_ref().map(|(n, _)| l > *n).unwrap_or(true) && executed < 400 {
                longest = Some((l, record_sample(&rec, prop.mode_name(rec.spec.mode))));
            }
        }
        r += wn;
    }
    if let Some((_, s)) = longest {
        samples.push(s);
    }
    fps.sort_unstable();
    fps.dedup();
    let v = json!({
        "executed": executed,
        "skipped": skipped,
        "fps": fps,
        "faults": faults,
        "probes": probes,
        "per_mode": per_mode,
        "sim_time_us": sim_time_us,
        "steps": steps,
        "fallback": fallback,
        "fault_free_runs": fault_free_runs,
        "violations": violations.values().collect::<Vec<_>>(),
        "violation_counts": violation_counts,
        "samples": samples,
        "harness_errors": harness_errors,
        "wall_s": start.elapsed().as_secs_f64(),
    });
    let tmp = out.with_extension("tmp");
    std::fs::write(&tmp, serde_json::to_vec(&v).unwrap()).expect("write partial");
    std::fs::rename(&tmp, out).expect("rename partial");
}

// ---------------------------------------------------------------------------------------------
// Known findings
// ---------------------------------------------------------------------------------------------

#[derive(Clone, Debug)]
pub struct KnownFinding {
    pub property: String,
    pub signature: String,
    pub status: String,
    pub what: String,
}

pub fn load_known_findings() -> Vec<KnownFinding> {
    let p = verif_dir().join("known_findings.json");
    let Ok(bytes) = std::fs::read(&p) else { return vec![] };
    let v: Value = serde_json::from_slice(&bytes).expect("known_findings.json is not valid JSON");
    let mut out = vec![];
    for e in v["findings"].as_array().cloned().unwrap_or_default() {
        out.push(KnownFinding {
            property: e["property"].as_str().unwrap_or("").to_string(),
            signature: e["signature"].as_str().unwrap_or("").to_string(),
            status: e["status"].as_str().unwrap_or("").to_string(),
            what: e["what"].as_str().unwrap_or("").to_string(),
        });
    }
    out
}

// ---------------------------------------------------------------------------------------------
// Shrinking and replay files
// ---------------------------------------------------------------------------------------------

fn reproduces(prop: &'static dyn Property, spec: &RunSpec, choices: &[u32], sig: &str) -> Option<RunRecord> {
    let rec = execute(prop, spec.clone(), Some(choices.to_vec()));
    if rec.violations.iter().any(|v| v.signature == sig) { Some(rec) } else { None }
}

/// Choice-stream shrinking: truncate, delete blocks, zero and halve values; a candidate is kept iff
/// it still produces the same violation signature.
pub fn shrink(
    prop: &'static dyn Property,
    spec: &RunSpec,
    choices: Vec<u32>,
    sig: &str,
    budget: Duration,
) -> (Vec<u32>, u64) {
    let start = Instant::now();
    let mut best = choices;
    let mut attempts = 0u64;
    // Use the actually consumed stream as the starting point.
    if let Some(rec) = reproduces(prop, spec, &best, sig) {
        best = rec.choices;
    } else {
        return (best, 0);
    }
    let time_left = |s: &Instant| s.elapsed() < budget;
    let mut improved = true;
    while improved && time_left(&start) {
        improved = false;
        // 1. truncate the tail (binary search on length)
        let mut lo = 0usize;
        let mut hi = best.len();
        while lo < hi && time_left(&start) {
            let mid = (lo + hi) / 2;
            attempts += 1;
            if let Some(rec) = reproduces(prop, spec, &best[..mid], sig) {
                let mut c = rec.choices;
                c.truncate(mid);
                if c.len() < best.len() {
                    improved = true;
                }
                best = c;
                hi = best.len().min(mid);
            } else {
                lo = mid + 1;
            }
        }
        while best.last() == Some(&0) {
            best.pop();
        }
        // 2. delete blocks
        let mut size = (best.len() / 2).max(1);
        while size >= 1 && time_left(&start) {
            let mut i = 0;
            while i + size <= best.len() && time_left(&start) {
                let mut cand = best.clone();
                cand.drain(i..i + size);
                attempts += 1;
                if reproduces(prop, spec, &cand, sig).is_some() {
                    best = cand;
                    improved = true;
                } else {
                    i += size;
                }
            }
            if size == 1 {
                break;
            }
            size /= 2;
        }
        // 3. zero / halve values
        let mut i = 0;
        while i < best.len() && time_left(&start) {
            if best[i] != 0 {
                let orig = best[i];
                let mut done = false;
                for cand_v in [0, orig / 2, orig - 1] {
                    if cand_v >= orig {
                        continue;
                    }
                    let mut cand = best.clone();
                    cand[i] = cand_v;
                    attempts += 1;
                    if reproduces(prop, spec, &cand, sig).is_some() {
                        best = cand;
                        improved = true;
                        done = true;
                        break;
                    }
                }
                let _ = done;
            }
            i += 1;
        }
        while best.last() == Some(&0) {
            best.pop();
        }
    }
    (best, attempts)
}

fn repo_head() -> String {
    std::process::Command::new("git")
        .args(["-C", "/repo", "rev-parse", "HEAD"])
        .output()
        .ok()
        .and_then(|o| String::from_utf8(o.stdout).ok())
        .map(|s| s.trim().to_string())
        .unwrap_or_default()
}

fn sanitize(sig: &str) -> String {
    let h = hash_str(sig);
    format!("{:08x}", (h ^ (h >> 32)) as u32)
}

pub fn write_replay(prop: &dyn Property, spec: &RunSpec, choices: &[u32], sig: &str, detail: &str, trace: &[String], shrunk: bool) -> PathBuf {
    let dir = verif_dir().join("replays");
    let _ = std::fs::create_dir_all(&dir);
    let path = dir.join(format!("{}-{}-{}.json", prop.id(), sanitize(sig), spec.seed));
    let v = json!({
        "property": prop.id(),
        "mode": spec.mode,
        "mode_name": prop.mode_name(spec.mode),
        "seed": spec.seed,
        "signature": sig,
        "detail": detail,
        "repo_head": repo_head(),
        "shrunk": shrunk,
        "choices": choices,
        "trace": trace,
    });
    std::fs::write(&path, serde_json::to_vec_pretty(&v).unwrap()).expect("write replay");
    path
}

pub fn write_replay_by_seed(prop: &dyn Property, spec: &RunSpec, sig: &str, detail: &str) -> PathBuf {
    let dir = verif_dir().join("replays");
    let _ = std::fs::create_dir_all(&dir);
    let path = dir.join(format!("{}-{}-{}.json", prop.id(), sanitize(sig), spec.seed));
    let v = json!({
        "property": prop.id(), "mode": spec.mode, "mode_name": prop.mode_name(spec.mode), "seed": spec.seed,
        "signature": sig, "detail": detail, "repo_head": repo_head(), "shrunk": false,
        "choices": Value::Null, "trace": [],
        "note": "the run never returned, so no choice stream could be recorded; replay draws from the PRNG seeded with `seed` (same execution) under a real-time watchdog",
    });
    std::fs::write(&path, serde_json::to_vec_pretty(&v).unwrap()).expect("write replay");
    path
}

/// Replay a file in this process. Returns exit code.
pub fn replay_main(prop: &'static dyn Property, path: &Path) -> i32 {
    let bytes = match std::fs::read(path) {
        Ok(b) => b,
        Err(e) => {
            eprintln!("cannot read replay file {path:?}: {e}");
            return 2;
        }
    };
    let v: Value = serde_json::from_slice(&bytes).expect("replay file is not JSON");
    let spec = RunSpec { mode: v["mode"].as_u64().unwrap_or(0) as u32, seed: v["seed"].as_u64().unwrap_or(0) };
    let choices: Option<Vec<u32>> = v["choices"].as_array().map(|a| a.iter().map(|x| x.as_u64().unwrap_or(0) as u32).collect());
    let sig = v["signature"].as_str().unwrap_or("").to_string();
    // Watchdog: a replayed run that does not return is itself the reproduction of a no-progress
    // violation.
    {
        let limit = Duration::from_secs(std::env::var("VERIF_RUN_LIMIT_S").ok().and_then(|s| s.parse().ok()).unwrap_or(prop.run_limit_s()));
        let id = prop.id();
        let p = path.to_path_buf();
        std::thread::spawn(move || {
            std::thread::sleep(limit);
            println!("replay: the run did not return within {} s of real time (no progress)", limit.as_secs());
            println!("VIOLATION property={} replay={}", id, p.display());
            let _ = std::io::stdout().flush();
            std::process::exit(1);
        });
    }
    let rec = execute(prop, spec, choices);
    for l in &rec.trace {
        println!("  {l}");
    }
    if let Some(e) = &rec.harness_error {
        println!("HARNESS-ERROR {e}");
        return 2;
    }
    if rec.violations.is_empty() {
        println!("replay: no violation (recorded signature: {sig})");
        return 0;
    }
    let mut same = false;
    for viol in &rec.violations {
        if viol.signature == sig {
            same = true;
        }
        println!("replay: {} — {}", viol.signature, viol.detail);
    }
    println!("VIOLATION property={} replay={}", prop.id(), path.display());
    if !same && !sig.is_empty() {
        println!("note: recorded signature {sig} not among the reproduced ones");
    }
    1
}

// ---------------------------------------------------------------------------------------------
// Parent
// ---------------------------------------------------------------------------------------------

pub fn parent_main(prop: &'static dyn Property, tier: Tier, base_seed: u64) -> i32 {
    let start = Instant::now();
    let workers: u64 = std::env::var("VERIF_WORKERS").ok().and_then(|s| s.parse().ok()).unwrap_or(16);
    let budget = prop.budget(tier);
    let workers = workers.min(budget.runs.max(1));
    let partial_dir = verif_dir().join("evidence").join(".partial");
    let _ = std::fs::create_dir_all(&partial_dir);
    let exe = std::env::current_exe().expect("current_exe");
    let mut children = vec![];
    for w in 0..workers {
        let out = partial_dir.join(format!("{}-{}-{}.json", prop.id(), std::process::id(), w));
        let _ = std::fs::remove_file(&out);
        let child = std::process::Command::new(&exe)
            .arg("worker")
            .arg(prop.id())
            .arg(tier.name())
            .arg(base_seed.to_string())
            .arg(w.to_string())
            .arg(workers.to_string())
            .arg(&out)
            .spawn()
            .expect("spawn worker");
        children.push((w, child, out));
    }
    let mut partials: Vec<Value> = vec![];
    let mut harness_errors: Vec<String> = vec![];
    let mut stuck: Vec<Value> = vec![];
    for (w, mut child, out) in children {
        let status = child.wait().expect("wait worker");
        if !status.success() {
            harness_errors.push(format!("worker {w} died: {status}"));
            continue;
        }
        let stuck_path = out.with_extension("stuck");
        if let Ok(b) = std::fs::read(&stuck_path) {
            let v: Value = serde_json::from_slice(&b).expect("stuck JSON");
            let _ = std::fs::remove_file(&stuck_path);
            stuck.push(v);
            continue;
        }
        match std::fs::read(&out) {
            Ok(b) => partials.push(serde_json::from_slice(&b).expect("partial JSON")),
            Err(e) => harness_errors.push(format!("worker {w} left no partial: {e}")),
        }
        let _ = std::fs::remove_file(&out);
    }

    // Merge.
    let mut executed = 0u64;
    let mut skipped = 0u64;
    let mut fps: BTreeSet<u64> = BTreeSet::new();
    let mut faults: BTreeMap<String, u64> = BTreeMap::new();
    let mut probes: BTreeMap<String, u64> = BTreeMap::new();
    let mut per_mode: BTreeMap<String, u64> = BTreeMap::new();
    let mut sim_time_us = 0u64;
    let mut steps = 0u64;
    let mut fallback = 0u64;
    let mut fault_free = 0u64;
    let mut samples: Vec<Value> = vec![];
    let mut viols: BTreeMap<String, Value> = BTreeMap::new();
    let mut viol_counts: BTreeMap<String, u64> = BTreeMap::new();
    let mut explore_wall = 0f64;
    for p in &partials {
        executed += p["executed"].as_u64().unwrap_or(0);
        skipped += p["skipped"].as_u64().unwrap_or(0);
        for f in p["fps"].as_array().unwrap() {
            fps.insert(f.as_u64().unwrap());
        }
        for (name, map) in [("faults", &mut faults), ("probes", &mut probes), ("per_mode", &mut per_mode), ("violation_counts", &mut viol_counts)] {
            if let Some(o) = p[name].as_object() {
                for (k, v) in o {
                    *map.entry(k.clone()).or_insert(0) += v.as_u64().unwrap_or(0);
                }
            }
        }
        sim_time_us += p["sim_time_us"].as_u64().unwrap_or(0);
        steps += p["steps"].as_u64().unwrap_or(0);
        fallback += p["fallback"].as_u64().unwrap_or(0);
        fault_free += p["fault_free_runs"].as_u64().unwrap_or(0);
        explore_wall = explore_wall.max(p["wall_s"].as_f64().unwrap_or(0.0));
        for s in p["samples"].as_array().unwrap() {
            samples.push(s.clone());
        }
        for e in p["harness_errors"].as_array().unwrap() {
            harness_errors.push(e.as_str().unwrap_or("").to_string());
        }
        for v in p["violations"].as_array().unwrap() {
            let sig = v["signature"].as_str().unwrap().to_string();
            let run = v["run"].as_u64().unwrap();
            let keep = match viols.get(&sig) {
                Some(old) => run < old["run"].as_u64().unwrap(),
                None => true,
            };
            if keep {
                viols.insert(sig, v.clone());
            }
        }
    }

    // Runs that never came back (real-time watchdog): reported by seed, without a choice stream.
    for st in &stuck {
        let sig = format!("{}|no-progress|a run did not return within the real-time limit (busy loop without yielding, or a blocking call)", prop.id());
        *viol_counts.entry(sig.clone()).or_insert(0) += 1;
        viols.entry(sig.clone()).or_insert_with(|| {
            json!({"signature": sig, "detail": format!("run {} (mode {}, seed {}) was still running after {} s of real time; the worker was stopped", st["run"], st["mode"], st["seed"], st["elapsed_s"]), "run": st["run"], "mode": st["mode"], "seed": st["seed"], "choices": Value::Null, "trace": []})
        });
    }

    // Classify violations: known finding vs. new.
    let known = load_known_findings();
    let mut known_hit: Vec<Value> = vec![];
    let mut new_violations: Vec<Value> = vec![];
    let mut exit = 0;
    for (sig, v) in &viols {
        let is_known = known.iter().find(|k| k.status == "known" && k.property == prop.id() && k.signature == *sig);
        let spec = RunSpec { mode: v["mode"].as_u64().unwrap() as u32, seed: v["seed"].as_u64().unwrap() };
        let detail = v["detail"].as_str().unwrap_or("");
        if v["choices"].is_null() {
            // Stuck run: replay by seed (fresh PRNG), guarded by the replay watchdog.
            if is_known.is_none() {
                let path = write_replay_by_seed(prop, &spec, sig, detail);
                println!("violation: {sig}\n  detail: {detail}");
                println!("VIOLATION property={} replay={}", prop.id(), path.display());
                new_violations.push(json!({"signature": sig, "detail": detail, "replay": path.display().to_string(), "runs": viol_counts.get(sig)}));
                exit = 1;
                continue;
            }
        }
        let choices: Vec<u32> = v["choices"].as_array().map(|a| a.iter().map(|x| x.as_u64().unwrap() as u32).collect()).unwrap_or_default();
        if let Some(k) = is_known {
            println!("KNOWN-FINDING: property={} {} [{}] (hit in {} runs; first seed {})", prop.id(), k.what, sig, viol_counts.get(sig).copied().unwrap_or(0), spec.seed);
            known_hit.push(json!({"signature": sig, "runs": viol_counts.get(sig), "what": k.what}));
            continue;
        }
        // New violation: shrink, validate in a fresh process, report.
        let sb = prop.shrink_budget_s(tier);
        let (shrunk, attempts) = if sb > 0 { shrink(prop, &spec, choices.clone(), sig, Duration::from_secs(sb)) } else { (choices.clone(), 0) };
        let rec = execute(prop, spec.clone(), Some(shrunk.clone()));
        let trace = rec.trace.clone();
        let still = rec.violations.iter().any(|x| x.signature == *sig);
        let mut path = write_replay(prop, &spec, &shrunk, sig, detail, &trace, true);
        let mut replay_ok = still && fresh_process_reproduces(&exe, prop.id(), &path);
        if !replay_ok {
            // Fall back to the unshrunk stream.
            let trace: Vec<String> = v["trace"].as_array().unwrap().iter().map(|x| x.as_str().unwrap_or("").to_string()).collect();
            path = write_replay(prop, &spec, &choices, sig, detail, &trace, false);
            replay_ok = fresh_process_reproduces(&exe, prop.id(), &path);
        }
        if !replay_ok {
            harness_errors.push(format!("replay_unstable: {sig} (seed {}) does not reproduce from its replay file {}", spec.seed, path.display()));
            continue;
        }
        println!("violation: {sig}\n  detail: {detail}\n  runs hit: {}  shrink attempts: {attempts}  choices: {} -> {}", viol_counts.get(sig).copied().unwrap_or(0), choices.len(), shrunk.len());
        println!("VIOLATION property={} replay={}", prop.id(), path.display());
        new_violations.push(json!({"signature": sig, "detail": detail, "replay": path.display().to_string(), "runs": viol_counts.get(sig)}));
        exit = 1;
    }

    let wall = start.elapsed().as_secs_f64();
    let unreached: Vec<&str> = prop.expected_probes().into_iter().filter(|p| probes.get(*p).copied().unwrap_or(0) == 0).collect();
    // Keep at most three samples: first, one from the middle, the longest.
    let mut picked: Vec<Value> = vec![];
    if !samples.is_empty() {
        picked.push(samples[0].clone());
        if samples.len() > 2 {
            picked.push(samples[samples.len() / 2].clone());
        }
        if samples.len() > 1 {
            let longest = samples.iter().max_by_key(|s| s["trace"].as_array().map(|a| a.len()).unwrap_or(0)).unwrap();
            picked.push(longest.clone());
        }
    }
    if picked.is_empty() {
        // No worker finished a run with a recorded trace (every worker was stopped by the real-time
        // watchdog, or the batch was empty): say so instead of leaving the list empty.
        picked.push(json!({
            "mode": "none",
            "seed": base_seed,
            "choices_drawn": 0,
            "steps": 0,
            "faults": {},
            "trace": ["no run of this batch completed with a recorded trace (see new_violations / harness_errors)"],
            "trace_events_omitted": 0,
        }));
    }
    let evidence = json!({
        "property_id": prop.id(),
        "tier": tier.name(),
        "seed": base_seed as i64,
        "level": prop.level(),
        "wall_s": wall,
        "violations": new_violations.len(),
        "assumptions": prop.assumptions(),
        "coverage": {
            "evaluations": executed,
            "distinct_nontrivial": fps.len(),
            "rule": prop.rule(),
            "samples": picked,
            "runs_planned": budget.runs,
            "runs_skipped_wall_cap": skipped,
            "runs_per_hour": if explore_wall > 0.0 { (executed as f64 / explore_wall * 3600.0) as u64 } else { 0 },
            "sim_time_covered_s": sim_time_us as f64 / 1e6,
            "seam_steps": steps,
            "fault_free_runs": fault_free,
            "faults_fired": faults,
            "probes": probes,
            "unreached_probes": unreached,
            "runs_per_mode": per_mode,
            "components_real": prop.components_real(),
            "components_stub": prop.components_stub(),
            "fallback_classifications": fallback,
            "known_findings_hit": known_hit,
            "new_violations": new_violations,
            "violation_run_counts": viol_counts,
            "harness_errors": harness_errors,
            "workers": workers,
            "repo_head": repo_head(),
        }
    });
    let ev_dir = verif_dir().join("evidence");
    let _ = std::fs::create_dir_all(&ev_dir);
    let ev_path = ev_dir.join(format!("{}.json", prop.id()));
    std::fs::write(&ev_path, serde_json::to_vec_pretty(&evidence).unwrap()).expect("write evidence");

    println!(
        "{} {}: {} runs ({} distinct non-trivial), {:.1}s, faults fired: {}, new violations: {}, known findings hit: {}",
        prop.id(), tier.name(), executed, fps.len(), wall,
        faults.values().sum::<u64>(), new_violations.len(), known_hit.len()
    );
    if !harness_errors.is_empty() {
        for e in &harness_errors {
            println!("HARNESS-ERROR {e}");
        }
        if exit == 0 {
            exit = 2;
        }
    }
    let _ = std::io::stdout().flush();
    exit
}

fn fresh_process_reproduces(exe: &Path, prop: &str, path: &Path) -> bool {
    let out = std::process::Command::new(exe).arg("replay").arg(prop).arg(path).output();
    match out {
        Ok(o) => o.status.code() == Some(1),
        Err(_) => false,
    }
}

// ---------------------------------------------------------------------------------------------
// CLI
// ---------------------------------------------------------------------------------------------

pub fn default_seed(prop: &str) -> u64 {
    // Fixed constant per property so that the unchanged tree never flaps.
    0x5EED_0000 ^ (hash_str(prop) & 0xFFFF)
}

pub fn cli_main(props: &[&'static dyn Property]) -> i32 {
    libc_seams::link_me();
    install_panic_hook();
    let args: Vec<String> = std::env::args().collect();
    let find = |id: &str| props.iter().copied().find(|p| p.id() == id);
    match args.get(1).map(|s| s.as_str()) {
        Some("list") => {
            for p in props {
                println!("{}", p.id());
            }
            0
        }
        Some("worker") => {
            let Some(p) = find(&args[2]) else { return 2 };
            let tier = if args[3] == "thorough" { Tier::Thorough } else { Tier::Quick };
            worker_main(p, tier, args[4].parse().unwrap(), args[5].parse().unwrap(), args[6].parse().unwrap(), Path::new(&args[7]));
            0
        }
        Some("run") => {
            let Some(id) = args.get(2) else { eprintln!("usage: run <Cxx> [quick|thorough]"); return 2 };
            let Some(p) = find(id) else { eprintln!("unknown property {id}"); return 2 };
            let tier_s = args.get(3).cloned().or_else(|| std::env::var("VERIF_TIER").ok()).unwrap_or_else(|| "quick".into());
            let tier = if tier_s == "thorough" { Tier::Thorough } else { Tier::Quick };
            let seed = std::env::var("VERIF_SEED").ok().and_then(|s| s.parse::<i64>().ok()).map(|s| s as u64).unwrap_or_else(|| default_seed(id));
            println!("{id}: tier={} VERIF_SEED={}", tier.name(), seed as i64);
            parent_main(p, tier, seed)
        }
        Some("replay") => {
            let Some(p) = find(&args[2]) else { return 2 };
            replay_main(p, Path::new(&args[3]))
        }
        Some("one") => {
            // Debug helper: one <Cxx> <mode> <seed>
            let Some(p) = find(&args[2]) else { return 2 };
            let spec = RunSpec { mode: args[3].parse().unwrap(), seed: args[4].parse().unwrap() };
            let rec = execute(p, spec, None);
            for l in &rec.trace {
                println!("  {l}");
            }
            println!("fp={:016x} choices={} steps={} faults={:?} probes={:?} violations={:?} harness_error={:?}", rec.fp, rec.choices.len(), rec.steps, rec.faults, rec.probes, rec.violations, rec.harness_error);
            0
        }
        Some("tracerun") => {
            // Debug helper: tracerun <Cxx> <r> [base_seed] → full trace of batch run r.
            let Some(p) = find(&args[2]) else { return 2 };
            let r: u64 = args[3].parse().unwrap();
            let base: u64 = args.get(4).and_then(|s| s.parse().ok()).unwrap_or_else(|| default_seed(p.id()));
            let modes = p.modes().max(1) as u64;
            let spec = RunSpec { mode: (r % modes) as u32, seed: run_seed(base, p.id(), r) };
            let rec = execute(p, spec, None);
            for l in &rec.trace {
                println!("  {l}");
            }
            println!("fp={:016x} violations={:?}", rec.fp, rec.violations);
            0
        }
        Some("fingerprints") => {
            // Determinism self-test helper: fingerprints <Cxx> <n> [base_seed] → one line per run.
            let Some(p) = find(&args[2]) else { return 2 };
            let n: u64 = args[3].parse().unwrap();
            let base: u64 = args.get(4).and_then(|s| s.parse().ok()).unwrap_or_else(|| default_seed(p.id()));
            let stride: u64 = args.get(5).and_then(|s| s.parse().ok()).unwrap_or(1);
            let offset: u64 = args.get(6).and_then(|s| s.parse().ok()).unwrap_or(0);
            let modes = p.modes().max(1) as u64;
            let mut r = offset;
            while r < n {
                let spec = RunSpec { mode: (r % modes) as u32, seed: run_seed(base, p.id(), r) };
                let rec = execute(p, spec, None);
                let sigs: Vec<&str> = rec.violations.iter().map(|v| v.signature.as_str()).collect();
                println!("{r} {:016x} {} {} {:?} {:?} fb={}", rec.fp, rec.choices.len(), rec.steps, rec.faults, sigs, rec.fallback);
                r += stride;
            }
            0
        }
        _ => {
            eprintln!("usage: {} run <Cxx> [quick|thorough] | replay <Cxx> <file> | list | one <Cxx> <mode> <seed> | fingerprints <Cxx> <n>", args[0]);
            2
        }
    }
}

/// Location and message of the most recent panic on a simulator thread (for scenarios that catch
/// panics themselves, e.g. through a `JoinError`).
pub fn take_panic_info() -> Option<(String, String)> {
    PANIC_INFO.lock().unwrap().take()
}
