//! C16, C17 and C29 need the hooks H4 (p2panda-net: yield point in `Gossip::stream`, `gossip::verif`)
//! and H3b (p2panda: `verif_ephemeral`), see `../hooks/`. Until they are committed to /repo the
//! crate builds without the `hooks` feature and registers nothing.

#[cfg(feature = "hooks")]
pub mod c16;
#[cfg(feature = "hooks")]
pub mod c17;
#[cfg(feature = "hooks")]
pub mod c29;

pub fn all() -> Vec<&'static dyn simcore::Property> {
    #[allow(unused_mut)]
    let mut v: Vec<&'static dyn simcore::Property> = vec![];
    #[cfg(feature = "hooks")]
    {
        v.push(&c16::C16);
        v.push(&c17::C17);
        v.push(&c29::C29);
    }
    v
}
