//! C01, C03, C05 — three views on the ingest world (see ingestworld.rs).

use simcore::{Budget, Property, Tier, ctx};
use simworld::logworld::WorldParams;

use super::ingestworld::{IngestCfg, Which, run_ingest};

fn mode_name(mode: u32) -> &'static str {
    match mode % 4 {
        0 => "fault-free/SqliteStore",
        1 => "faults/SqliteStore",
        2 => "faults/MemStore",
        _ => "faults/SqliteStore, 2-3 concurrent ingest activities interleaving at every store call",
    }
}

fn cfg_for(which: Which, mode: u32) -> IngestCfg {
    let sqlite = mode % 4 != 2;
    let faults = mode % 4 != 0;
    let concurrent = if mode % 4 == 3 { ctx::range("concurrent", 2, 3) } else { 0 };
    let (prune_num, forge_num, prune_step) = match which {
        Which::C01 => (1, 6, ctx::chance("prune_step", 1, 2)),
        Which::C03 => (1, 2, ctx::chance("prune_step", 1, 2)),
        Which::C05 => (3, 1, true),
    };
    IngestCfg {
        which,
        sqlite,
        faults,
        prune_step,
        use_processor: ctx::chance("use_processor", 1, 2),
        world: WorldParams { max_authors: 3, max_logs_per_author: 2, max_ops_per_log: if sqlite { 6 } else { 9 }, prune_num, body_kinds: 4, min_ops_per_log: 0 },
        forge_num,
        concurrent,
    }
}

const REAL: [&str; 8] = [
    "p2panda_stream::ingest::ingest_operation",
    "p2panda_stream::ingest::Ingest (processor)",
    "p2panda_stream::log_prune::LogPrune (processor)",
    "p2panda_core::validate_operation / validate_header / Header::verify",
    "p2panda_core::prune::validate_prunable_backlink / validate_backlink",
    "p2panda_store::SqliteStore (transaction, operations, logs, topics) in SqliteStore modes",
    "p2panda_core header CBOR codec (byte-flip mutations go through decode)",
    "p2panda_store LogStore::prune_entries",
];

macro_rules! ingest_prop {
    ($ty:ident, $st:ident, $id:literal, $which:expr, $quick:expr, $thorough:expr, $rule:literal, $probes:expr) => {
        pub struct $ty;
        pub static $st: $ty = $ty;
        impl Property for $ty {
            fn id(&self) -> &'static str {
                $id
            }
            fn budget(&self, tier: Tier) -> Budget {
                match tier {
                    Tier::Quick => Budget { runs: $quick, wall_cap_s: 40 },
                    Tier::Thorough => Budget { runs: $thorough, wall_cap_s: 400 },
                }
            }
            fn modes(&self) -> u32 {
                4
            }
            fn mode_name(&self, mode: u32) -> &'static str {
                mode_name(mode)
            }
            fn rule(&self) -> &'static str {
                $rule
            }
            fn components_real(&self) -> Vec<&'static str> {
                REAL.to_vec()
            }
            fn components_stub(&self) -> Vec<&'static str> {
                vec!["the remote peers / network (the simulator delivers operations itself)", "MemStore in the MemStore modes (reference model, differentially tested against SqliteStore by C08/C09)"]
            }
            fn assumptions(&self) -> Vec<&'static str> {
                vec!["authors never equivocate", "one ingest call in flight at a time except in the concurrent mode, where verdicts of single deliveries are not predicted, only the store invariants are checked", "sampling: a clean batch is evidence, not proof"]
            }
            fn expected_probes(&self) -> Vec<&'static str> {
                $probes
            }
            fn run(&self) {
                let cfg = cfg_for($which, ctx::mode());
                run_ingest(&cfg);
            }
        }
    };
}

ingest_prop!(
    C01Prop, C01, "C01", Which::C01, 16_000, 250_000,
    "one run = an honest LogWorld history delivered once (with drops, duplicates, reordering) plus forged copies: each forged copy carries exactly one mutation out of 18 kinds (bit flip through the real decoder, body changes, every header field, signature strip/replace/re-sign, author-signed malformed headers, small-order key with the signature that verifies non-strictly for every message); non-trivial = at least two deliveries; distinct = distinct trace fingerprint (schedule, mutation kinds and positions, ingest verdicts)",
    vec!["forged_copy_before_honest", "forged_copy_after_honest", "bit_flip_rejected_by_decoder"]
);
ingest_prop!(
    C03Prop, C03, "C03", Which::C03, 16_000, 250_000,
    "one run = a seeded delivery schedule (drop, duplicate, swap, long delay, full shuffle, a few forged copies) over an honest multi-author, multi-log history with prune points, fed to real ingest (+ optional real LogPrune step); LogModel predicts inserted / exists / rejected for every delivery and the affected log is read back after every delivery; non-trivial = at least two deliveries; distinct = distinct trace fingerprint",
    vec!["missing_prefix_rejected", "flagged_gap_accepted", "duplicate_delivered"]
);
ingest_prop!(
    C05Prop, C05, "C05", Which::C05, 16_000, 250_000,
    "as C03 with 2-3 prune points per log, the LogPrune step always on, and reordering with long delays so that older operations (flagged and unflagged) arrive after a newer prune point was applied; after every delivery no entry below the highest accepted prune point may exist; non-trivial = at least two deliveries; distinct = distinct trace fingerprint",
    vec!["flagged_gap_accepted"]
);
