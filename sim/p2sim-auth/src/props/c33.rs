//! C33 — Only authorized actors change group membership.
//!
//! A group operation is accepted only if, in the state at its declared dependencies, its author is
//! an active manager (or is removing itself) and the action is valid there; rejected operations
//! leave the replica unchanged, and nobody appears as a member unless an accepted create or add
//! introduced them.

use simcore::{Budget, Property, Tier, ctx};

use super::groupworld::{Cfg, Expiry, run_world};

pub struct C33Prop;
pub static C33: C33Prop = C33Prop;

const MODES: [&str; 4] = ["linear-fault-free", "linear-byzantine", "concurrent-byzantine-unit-conditions", "concurrent-byzantine-ordered-conditions"];

impl Property for C33Prop {
    fn id(&self) -> &'static str {
        "C33"
    }
    fn budget(&self, tier: Tier) -> Budget {
        match tier {
            Tier::Quick => Budget { runs: 12_000, wall_cap_s: 30 },
            Tier::Thorough => Budget { runs: 200_000, wall_cap_s: 240 },
        }
    }
    fn shrink_budget_s(&self, tier: Tier) -> u64 {
        // Per violation signature; the unchanged tree currently yields four.
        match tier {
            Tier::Quick => 5,
            Tier::Thorough => 20,
        }
    }
    fn modes(&self) -> u32 {
        MODES.len() as u32
    }
    fn mode_name(&self, mode: u32) -> &'static str {
        MODES[mode as usize % MODES.len()]
    }
    fn rule(&self) -> &'static str {
        "one run = 3-5 replicas with real GroupCrdtStates plus passive identities; honest authors act on their local views, Byzantine authors put forged operations on the wire (any identity, any action, current or stale dependencies of some replica); every acceptance is judged against the state at the operation's declared dependencies (independent sequential replay of the documented rules when the group's operations in its causal past form a chain, otherwise a fresh canonical replica fed exactly the causal past); non-trivial = a fault (incl. a forged operation) fired, concurrent operations exist, or >= 4 operations; distinct = distinct trace fingerprint"
    }
    fn components_real(&self) -> Vec<&'static str> {
        vec![
            "p2panda_auth::group::GroupCrdt::process / validate (rebuild of the state at the dependencies)",
            "p2panda_auth::group::crdt::state::{add, remove, promote, demote} access checks",
            "p2panda_auth::group::resolver::StrongRemove",
            "p2panda_auth::group::GroupCrdtState::{members, root_members, heads}",
            "serde/CBOR round trip of GroupCrdtState (p2panda_core::cbor)",
        ]
    }
    fn components_stub(&self) -> Vec<&'static str> {
        vec![
            "network and causal-delivery layer (pools, dependency buffer, partitions, duplicates)",
            "signature layer: forged operations carry any author the Byzantine sender likes only in the sense that the author identity is itself Byzantine (its key signs them); the auth crate sees author ids only",
            "reference model: sequential replay of one group's chain with the rules documented in crdt/state.rs; canonical replica for causal pasts with concurrency inside the group",
        ]
    }
    fn assumptions(&self) -> Vec<&'static str> {
        vec![
            "operations are handed to a replica only after their dependencies were processed there",
            "forged operations only name groups whose create is in the causal past of their declared dependencies",
            "GroupCrdt::process takes the state by value; on Err the replica is the copy the caller retained (the store row that is not overwritten), so 'rejected operations leave the replica unchanged' is checked on that copy",
        ]
    }
    fn expected_probes(&self) -> Vec<&'static str> {
        vec!["byzantine_op_rejected", "byzantine_op_accepted", "forged_op_was_authorized_at_its_dependencies", "verdict_by_canonical_replay", "nested_group", "concurrent_remove_of_acting_member"]
    }
    fn run(&self) {
        let mode = ctx::mode();
        let cfg = Cfg {
            linear: mode <= 1,
            net_faults: mode >= 2,
            byzantine: mode >= 1,
            conflict_w: if mode >= 2 { 1 } else { 0 },
            nest_w: 1,
            max_groups: 3,
            max_ops: 26,
            conditions: mode != 2,
            check_c31: false,
            check_c33: true,
        };
        match mode {
            2 => run_world::<()>(cfg),
            _ => run_world::<Expiry>(cfg),
        }
    }
}
