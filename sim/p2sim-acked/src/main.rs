mod props;

fn main() {
    let props = props::all();
    std::process::exit(simcore::runner::cli_main(&props));
}
