//! C04 — Pruning is authenticated and scoped to the prune operation's own log.
//!
//! StepExec engine, sequential: the real `Pipeline::new(store, TaskTracker::new())` (its own OS
//! thread with the real `Ingest` and `LogPrune` layers) over a real in-memory `SqliteStore`; exactly
//! one submission is in flight and the submitter awaits it, which is deterministic. Events are
//! built exactly as `process_operation` (p2panda/src/streams/stream.rs) builds them: log id from
//! the topic the operation arrived on, prune flag from the not yet verified header extensions.
//!
//! Workload: a victim author V with populated logs (inserted the way the forge does), an attacker A and a bystander B with logs of
//! their own (same log ids: a log id is derived from the topic), then a sequence of operations:
//! honest appends and prunes, re-deliveries, and invalid ones — forged signature claiming V (or B)
//! as author, fields tampered after signing, wrong backlink / sequence number — flagged and
//! unflagged, above and below the claimed log's height.
//!
//! Oracle (the property text): between two consecutive full dumps of every (author, log) through
//! `get_log_entries`, the set of deleted rows is empty unless the operation was accepted by ingest
//! AND carries the prune flag; then it is exactly {rows of that operation's (author, log) with a
//! smaller sequence number}.

use std::collections::{BTreeMap, BTreeSet};
use std::time::Duration;

use p2panda::operation::{LogId, Operation};
use p2panda::processor::ProcessorError;
use p2panda_core::traits::Digest;
use p2panda_core::{Hash, SeqNum, SigningKey, Topic, VerifyingKey};
use p2panda_store::logs::LogStore;
use p2panda_store::operations::OperationStore;
use p2panda_store::topics::TopicStore;
use p2panda_store::{SqliteStore, Transaction};
use simcore::{Budget, Property, Tier, ctx, ev, libc_seams, stepexec, violation};
use simworld::logworld::{key_bytes, signing_key};
use simworld::populate::sqlite_memory;

use super::nodeops::{NodePipeline, NodeTasks, event_for, make_op, short};

const NAMES: [&str; 3] = ["V", "A", "B"];

/// (author index, topic index, seq, operation id)
type Row = (usize, usize, SeqNum, Hash);
type Dump = BTreeSet<Row>;

#[derive(Clone, Copy, Debug, PartialEq, Eq)]
enum Validity {
    /// Properly signed by its author and well-formed (ingest may still reject it for its position
    /// in the log).
    WellSigned,
    /// Signature does not verify against the claimed author, or the body does not match.
    Invalid,
}

struct Delivery {
    op: Operation,
    topic: usize,
    claimed: usize,
    label: String,
    validity: Validity,
}

struct World {
    keys: Vec<SigningKey>,
    vks: Vec<VerifyingKey>,
    topics: Vec<Topic>,
    /// Honest operations each author has published per topic, in order.
    published: BTreeMap<(usize, usize), Vec<Operation>>,
    counter: u64,
}

impl World {
    fn tip(&self, a: usize, t: usize) -> Option<(SeqNum, Hash)> {
        self.published.get(&(a, t)).and_then(|v| v.last()).map(|o| (o.header.seq_num, o.hash))
    }

    fn body(&mut self) -> Option<Vec<u8>> {
        self.counter += 1;
        libc_seams::advance_wall_us(1_000);
        match ctx::choose("body", 3) {
            0 => Some(format!("payload {}", self.counter).into_bytes()),
            1 => None,
            _ => Some(vec![self.counter as u8; 300]),
        }
    }

    fn label(&self, op: &Operation, t: usize, claimed: usize) -> String {
        format!("{}:t{}#{}{}", NAMES[claimed], t, op.header.seq_num, if op.header.extensions.prune_flag().is_set() { "P" } else { "" })
    }

    /// The next honest operation of author `a` in the log of topic `t`; a flagged one may skip
    /// `gap` sequence numbers.
    fn honest(&mut self, a: usize, t: usize, prune: bool, gap: SeqNum) -> Delivery {
        let (seq, backlink) = match self.tip(a, t) {
            Some((s, h)) => (s + 1 + if prune { gap } else { 0 }, Some(h)),
            None => (if prune { gap } else { 0 }, None),
        };
        let backlink = if seq == 0 { None } else { backlink.or(Some(Hash::digest(b"pruned predecessor"))) };
        let body = self.body();
        let op = make_op(&self.keys[a], self.vks[a], self.topics[t], seq, backlink, prune, body);
        self.published.entry((a, t)).or_default().push(op.clone());
        let label = self.label(&op, t, a);
        Delivery { op, topic: t, claimed: a, label, validity: Validity::WellSigned }
    }
}

fn row_str(r: &Row) -> String {
    format!("{}:t{}#{}", NAMES[r.0], r.1, r.2)
}

fn rows_str(rows: &BTreeSet<Row>) -> String {
    let v: Vec<String> = rows.iter().take(12).map(row_str).collect();
    format!("[{}{}]", v.join(" "), if rows.len() > 12 { format!(" .. {} rows", rows.len()) } else { String::new() })
}

async fn dump(store: &SqliteStore, w: &World) -> Result<Dump, String> {
    let mut d = Dump::new();
    for (ai, vk) in w.vks.iter().enumerate() {
        for (ti, t) in w.topics.iter().enumerate() {
            let log_id = LogId::from_topic(*t);
            let entries = <SqliteStore as LogStore<Operation, VerifyingKey, LogId, SeqNum, Hash>>::get_log_entries(store, vk, &log_id, None, None).await.map_err(|e| e.to_string())?;
            for (op, _) in entries.unwrap_or_default() {
                d.insert((ai, ti, op.header.seq_num, op.hash));
            }
        }
    }
    Ok(d)
}

fn heights(d: &Dump, a: usize, t: usize) -> Option<SeqNum> {
    d.iter().filter(|r| r.0 == a && r.1 == t).map(|r| r.2).max()
}

/// One operation of the event phase.
fn draw_delivery(w: &mut World, byzantine: bool, now: &Dump) -> Delivery {
    let n_topics = w.topics.len();
    let kind = if byzantine { ctx::choose("kind", 8) } else { ctx::choose("kind", 3) };
    match kind {
        // --- honest ---------------------------------------------------------------------------
        0 | 1 => {
            let a = ctx::choose("author", 3);
            let t = ctx::choose("topic", n_topics);
            w.honest(a, t, false, 0)
        }
        2 => {
            let a = ctx::choose("author", 3);
            let t = ctx::choose("topic", n_topics);
            let gap = *ctx::pick("prune.gap", &[0u32, 0, 1, 5]);
            w.honest(a, t, true, gap)
        }
        // --- forged signature: A signs a header that names somebody else as author --------------
        3 | 4 => {
            let victim = if ctx::chance("forge.bystander", 1, 4) { 2 } else { 0 };
            let t = ctx::choose("topic", n_topics);
            let flagged = !ctx::chance("forge.unflagged", 1, 4);
            let h = heights(now, victim, t);
            let seq: SeqNum = match (ctx::choose("forge.seq", 4), h) {
                (0, Some(h)) => h + 1,
                (1, _) => 1000,
                (2, Some(h)) => h, // equal to the height: wipes everything but the latest entry
                (_, Some(h)) => ctx::choose("forge.below", h as usize + 1) as SeqNum,
                (_, None) => 3,
            };
            let backlink = if seq == 0 { None } else { w.tip(victim, t).map(|(_, h)| h).or(Some(Hash::digest(b"forged backlink"))) };
            let body = w.body();
            let op = make_op(&w.keys[1], w.vks[victim], w.topics[t], seq, backlink, flagged, body);
            ctx::fault("tamper.resign");
            let label = format!("{} FORGED[claims {}, signed by A]", w.label(&op, t, victim), NAMES[victim]);
            Delivery { op, topic: t, claimed: victim, label, validity: Validity::Invalid }
        }
        // --- an honest operation changed after signing ------------------------------------------
        5 => {
            let cands: Vec<(usize, usize)> = w.published.iter().filter(|(_, v)| !v.is_empty()).map(|(k, _)| *k).collect();
            if cands.is_empty() {
                return w.honest(0, 0, false, 0);
            }
            let (a, t) = *ctx::pick("tamper.log", &cands);
            let ops = w.published.get(&(a, t)).unwrap();
            let mut op = ctx::pick("tamper.op", ops).clone();
            let what = match ctx::choose("tamper.kind", 4) {
                0 => {
                    let flag = !op.header.extensions.prune_flag().is_set();
                    op.header.extensions = op.header.extensions.clone().set_prune_flag(flag);
                    ctx::fault("tamper.field(ext.prune)");
                    "prune flag flipped"
                }
                1 => {
                    op.header.extensions = op.header.extensions.clone().set_prune_flag(true);
                    op.header.seq_num += 1 + ctx::choose("tamper.seq", 1000) as SeqNum;
                    ctx::fault("tamper.field(seq_num)");
                    "seq_num raised and prune flag set"
                }
                2 => {
                    op.body = Some(p2panda_core::Body::from(b"swapped body".to_vec()));
                    ctx::fault("tamper.body_swap");
                    "body swapped"
                }
                _ => {
                    op.header.signature = None;
                    op.header.extensions = op.header.extensions.clone().set_prune_flag(true);
                    ctx::fault("tamper.signature_strip");
                    "signature stripped and prune flag set"
                }
            };
            op.hash = op.header.hash();
            let label = format!("{} TAMPERED[{what}]", w.label(&op, t, a));
            Delivery { op, topic: t, claimed: a, label, validity: Validity::Invalid }
        }
        // --- well signed by its own author, but not a valid continuation of the log --------------
        6 => {
            let a = ctx::choose("author", 3);
            let t = ctx::choose("topic", n_topics);
            let h = heights(now, a, t);
            let flagged = !ctx::chance("illformed.unflagged", 1, 3);
            let (seq, backlink, what): (SeqNum, Option<Hash>, &str) = match (flagged, h) {
                (true, Some(h)) => (ctx::choose("illformed.below", h as usize + 1) as SeqNum, Some(Hash::digest(b"x")), "flagged, seq not above the log's height"),
                (false, Some(h)) => {
                    if ctx::chance("illformed.gap", 1, 2) {
                        (h + 2 + ctx::choose("illformed.skip", 5) as SeqNum, w.tip(a, t).map(|x| x.1), "unflagged, skips sequence numbers")
                    } else {
                        (h + 1, Some(Hash::digest(b"wrong backlink")), "unflagged, wrong backlink")
                    }
                }
                (_, None) => (4, Some(Hash::digest(b"x")), "unflagged start in the middle of an empty log"),
            };
            let flagged = flagged && h.is_some();
            let backlink = if seq == 0 { None } else { backlink };
            let body = w.body();
            let op = make_op(&w.keys[a], w.vks[a], w.topics[t], seq, backlink, flagged, body);
            ctx::fault(if flagged { "byzantine_op(flagged_not_above_height)" } else { "byzantine_op(broken_chain)" });
            let label = format!("{} ILL-FORMED[{what}]", w.label(&op, t, a));
            Delivery { op, topic: t, claimed: a, label, validity: Validity::WellSigned }
        }
        // --- re-delivery of an honest operation ---------------------------------------------------
        _ => {
            let cands: Vec<(usize, usize)> = w.published.iter().filter(|(_, v)| !v.is_empty()).map(|(k, _)| *k).collect();
            if cands.is_empty() {
                return w.honest(0, 0, false, 0);
            }
            let (a, t) = *ctx::pick("dup.log", &cands);
            let ops = w.published.get(&(a, t)).unwrap();
            // Prefer flagged ones: index 0 = the latest flagged operation if there is one.
            let flagged: Vec<&Operation> = ops.iter().rev().filter(|o| o.header.extensions.prune_flag().is_set()).collect();
            let op = if !flagged.is_empty() && !ctx::chance("dup.any", 1, 3) { (*ctx::pick("dup.flagged", &flagged)).clone() } else { ctx::pick("dup.op", ops).clone() };
            ctx::fault("duplicate");
            let label = format!("{} REDELIVERED", w.label(&op, t, a));
            Delivery { op, topic: t, claimed: a, label, validity: Validity::WellSigned }
        }
    }
}

pub struct C04Prop;
pub static C04: C04Prop = C04Prop;

impl Property for C04Prop {
    fn id(&self) -> &'static str {
        "C04"
    }
    fn budget(&self, tier: Tier) -> Budget {
        match tier {
            Tier::Quick => Budget { runs: 6_000, wall_cap_s: 35 },
            Tier::Thorough => Budget { runs: 90_000, wall_cap_s: 330 },
        }
    }
    fn modes(&self) -> u32 {
        2
    }
    fn mode_name(&self, mode: u32) -> &'static str {
        match mode {
            0 => "honest appends and prunes only (fault-free)",
            _ => "with forged, tampered, ill-formed and re-delivered operations",
        }
    }
    fn rule(&self) -> &'static str {
        "one run = a fresh in-memory SQLite store and the real Pipeline (own thread); three authors (victim V, attacker A, bystander B) x 2-3 topics (= log ids) populated in one transaction (as the forge does) with 0-8 honest operations per log (1/6 of them prune-flagged and not yet passed through the pipeline), then 3-10 operations drawn from: honest append, honest prune (flagged, may skip 0-5 seqs), and in the faulty mode forged signature claiming V/B (flagged 3/4; seq height+1 / 1000 / = height / below), tampered copy of an honest operation (prune flag, seq_num, body, signature), well-signed but not extending its log (flagged at or below height; unflagged gap / wrong backlink), re-delivery (prefers flagged); all logs are dumped through get_log_entries after every operation and the deleted rows compared with the property; non-trivial = every run; distinct = distinct trace fingerprint (world, operations, verdicts, deletions)"
    }
    fn components_real(&self) -> Vec<&'static str> {
        vec!["p2panda::processor Pipeline::new (own OS thread, real Ingest and LogPrune layers) and Pipeline::process", "Event::new (ingest and prune arguments derived from the unverified header)", "TaskTracker / Task (real threads)", "p2panda_stream ingest_operation, validate_operation, validate_prunable_backlink", "p2panda_stream LogPrune processor", "SqliteStore (in-memory): insert_operation, prune_entries, get_log_entries", "p2panda::operation::Extensions / LogId::from_topic"]
    }
    fn components_stub(&self) -> Vec<&'static str> {
        vec!["the stream task in front of the pipeline (process_operation): the harness builds the Event the same way and calls Pipeline::process directly", "network / sync / import entry points: not run here (they all funnel into Pipeline::process)"]
    }
    fn assumptions(&self) -> Vec<&'static str> {
        vec!["every entry point (sync, import, publish, replay) hands operations to the same Pipeline::process with an Event built by Event::new from (operation, LogId::from_topic(topic), topic, header prune flag); the check drives that call directly", "an operation is delivered on the topic its header extensions were created for"]
    }
    fn expected_probes(&self) -> Vec<&'static str> {
        vec!["failing_and_flagged_event_processed", "flagged_valid_event_with_other_logs_present", "forged_flagged_claiming_populated_log", "honest_prune_deleted_rows", "flagged_redelivered", "own_flagged_not_above_height_rejected"]
    }

    fn run(&self) {
        let byzantine = ctx::mode() == 1;
        ctx::mark_nontrivial();
        stepexec::block_on(async move {
            let store = sqlite_memory().await;
            run_on(&store, byzantine).await;
            store.pool().close().await;
        });
    }
}

/// Result of one `pipeline.process(..)` as far as the public API of `Event` shows it.
struct Verdict {
    ingest_ok: bool,
    text: String,
    pruned: Option<u64>,
    already_exists: bool,
}

async fn submit(pipeline: &NodePipeline, d: &Delivery, w: &World) -> Option<Verdict> {
    let input = event_for(d.op.clone(), w.topics[d.topic]);
    // Real-time safety net only: the pipeline thread always answers; if it does not, that is the
    // lost wake-up of C14 hit for real (DESIGN §6), not something this property speaks about.
    let out = match tokio::time::timeout(Duration::from_secs(20), pipeline.process(input)).await {
        Ok(e) => e,
        Err(_) => return None,
    };
    if out.hash() != d.op.hash {
        violation("returned-result-of-another-operation", "Pipeline::process", format!("submitted {} got {}", short(&d.op.hash), short(&out.hash())));
    }
    let dbg = format!("{out:?}");
    let pruned = dbg.rsplit_once("log_prune: Completed(Pruned { num_entries: ").and_then(|(_, rest)| rest.split(|c: char| !c.is_ascii_digit()).next().and_then(|n| n.parse::<u64>().ok()));
    let already_exists = dbg.contains("ingest: Completed(AlreadyExists)");
    let (ingest_ok, text) = match out.failure_reason() {
        None => (true, if already_exists { "ingest: already exists".to_string() } else { "ingest: inserted".to_string() }),
        Some(ProcessorError::Ingest(e)) => (false, format!("ingest FAILED: {e}")),
        Some(ProcessorError::LogPrune(e)) => (true, format!("ingest ok, log_prune FAILED: {e}")),
    };
    Some(Verdict { ingest_ok, text, pruned, already_exists })
}

async fn run_on(store: &SqliteStore, byzantine: bool) {
    let n_topics = ctx::range("topics", 2, 3);
    let keys: Vec<SigningKey> = (0..3).map(signing_key).collect();
    let mut w = World {
        vks: keys.iter().map(|k| k.verifying_key()).collect(),
        keys,
        topics: (0..n_topics as u64).map(|i| Topic::from(key_bytes(ctx::seed() ^ 0x7470, i))).collect(),
        published: BTreeMap::new(),
        counter: 0,
    };
    let pipeline: NodePipeline = NodePipeline::new(store.clone(), NodeTasks::new());

    // ---- population: what each author's own node holds after publishing (the forge inserts its
    // operations directly and associates the log with the topic), in one transaction -------------
    let mut script: Vec<(usize, usize, usize)> = vec![];
    for a in 0..3 {
        for t in 0..n_topics {
            let n = if a == 0 && t == 0 { ctx::range("populate.victim", 2, 8) } else { ctx::choose("populate", 6) };
            script.push((a, t, n));
        }
    }
    ev!("world: authors V (victim) A (attacker) B (bystander), {n_topics} topics; initial log lengths {}", script.iter().map(|(a, t, n)| format!("{}:t{}={}", NAMES[*a], t, n)).collect::<Vec<_>>().join(" "));
    {
        let permit = match store.begin().await {
            Ok(p) => p,
            Err(e) => {
                violation("store-error", "begin", e.to_string());
                return;
            }
        };
        for (a, t, n) in script {
            for _ in 0..n {
                // Some of them carry the prune flag and have not been through the pipeline yet
                // (the state between the forge's insert and the publisher's own pipeline pass);
                // their re-delivery below is that pass.
                let flagged = w.tip(a, t).is_some() && ctx::chance("populate.flagged", 1, 6);
                let d = w.honest(a, t, flagged, 0);
                let log_id = LogId::from_topic(w.topics[t]);
                let r1 = store.insert_operation(&d.op.hash, &d.op, &log_id).await.map_err(|e| e.to_string());
                let r2 = <SqliteStore as TopicStore<Topic, VerifyingKey, LogId>>::associate(store, &w.topics[t], &w.vks[a], &log_id).await.map_err(|e| e.to_string());
                if let Err(e) = r1.map(|_| ()).and(r2.map(|_| ())) {
                    violation("store-error", "populate", e);
                    return;
                }
            }
        }
        if let Err(e) = store.commit(permit).await {
            violation("store-error", "commit", e.to_string());
            return;
        }
    }
    let mut before = match dump(store, &w).await {
        Ok(d) => d,
        Err(e) => {
            violation("store-error", "get_log_entries", e);
            return;
        }
    };
    ev!("populated: {} rows", before.len());
    let mut step = 0usize;
    let n_events = ctx::range("events", 3, 10);

    loop {
        if step >= n_events {
            break;
        }
        let d = draw_delivery(&mut w, byzantine, &before);
        let phase = "event";
        let flagged = d.op.header.extensions.prune_flag().is_set();
        let seq = d.op.header.seq_num;
        let height = heights(&before, d.claimed, d.topic);

        // ---- the code under test ----
        let Some(v) = submit(&pipeline, &d, &w).await else {
            ctx::probe("pipeline_wakeup_race_suspected");
            ev!("{phase}[{step}] {}: Pipeline::process did not return within 20 s of real time (lost wake-up of C14 suspected); run abandoned", d.label);
            break;
        };
        let after = match dump(store, &w).await {
            Ok(d) => d,
            Err(e) => {
                violation("store-error", "get_log_entries", e);
                break;
            }
        };
        let deleted: BTreeSet<Row> = before.difference(&after).cloned().collect();
        let scope: BTreeSet<Row> = before.iter().filter(|r| r.0 == d.claimed && r.1 == d.topic && r.2 < seq).cloned().collect();
        ev!(
            "{phase}[{step}] {} (claimed log height {}) -> {}{}; deleted {}",
            d.label,
            height.map(|h| h.to_string()).unwrap_or("-".into()),
            v.text,
            v.pruned.map(|n| format!(", log_prune: pruned {n}")).unwrap_or_default(),
            rows_str(&deleted)
        );

        // ---- probes ----
        let others_present = before.iter().any(|r| (r.0, r.1) != (d.claimed, d.topic));
        if !v.ingest_ok && flagged {
            ctx::probe("failing_and_flagged_event_processed");
            if d.validity == Validity::Invalid && !scope.is_empty() {
                ctx::probe("forged_flagged_claiming_populated_log");
            }
            if d.validity == Validity::WellSigned && height.map(|h| seq <= h).unwrap_or(false) {
                ctx::probe("own_flagged_not_above_height_rejected");
            }
        }
        if v.ingest_ok && flagged && others_present {
            ctx::probe("flagged_valid_event_with_other_logs_present");
        }
        if v.ingest_ok && flagged && !deleted.is_empty() {
            ctx::probe("honest_prune_deleted_rows");
        }
        if v.ingest_ok && flagged && v.already_exists {
            ctx::probe("flagged_redelivered");
        }

        // ---- the oracle ----
        if !v.ingest_ok {
            if !deleted.is_empty() {
                let by_prune_args = flagged && deleted.is_subset(&scope) && v.pruned.is_some();
                let site = if by_prune_args { "Pipeline: LogPrune runs although ingest failed" } else { "rows vanished after a rejected operation, not through its prune arguments" };
                violation(
                    "rows-deleted-by-rejected-operation",
                    site,
                    format!(
                        "{} was rejected ({}) and yet {} row(s) of log {}:t{} are gone: {} (log_prune reported {:?} pruned)",
                        d.label,
                        v.text,
                        deleted.len(),
                        NAMES[d.claimed],
                        d.topic,
                        rows_str(&deleted),
                        v.pruned
                    ),
                );
            }
        } else if d.validity == Validity::Invalid {
            // Ingest accepted something whose signature / payload does not verify (another
            // property's business), but then it must at least not delete anything here.
            if !deleted.is_empty() {
                violation("rows-deleted-by-invalid-operation", "ingest accepted an operation that does not verify", format!("{}: deleted {}", d.label, rows_str(&deleted)));
            }
        } else if !flagged {
            if !deleted.is_empty() {
                violation("rows-deleted-by-unflagged-operation", "accepted operation without prune flag", format!("{}: deleted {}", d.label, rows_str(&deleted)));
            }
        } else if !after.contains(&(d.claimed, d.topic, seq, d.op.hash)) {
            // Accepted and flagged, but the operation itself is not in its log afterwards: the
            // prune it triggered took an entry whose sequence number is not smaller than its own.
            violation("prune-outside-own-log-prefix", "the accepted prune operation itself is gone after its own processing", format!("{}: log {}:t{} holds {} afterwards", d.label, NAMES[d.claimed], d.topic, rows_str(&after.iter().filter(|r| r.0 == d.claimed && r.1 == d.topic).cloned().collect())));
        } else if deleted != scope {
            let extra: BTreeSet<Row> = deleted.difference(&scope).cloned().collect();
            let missing: BTreeSet<Row> = scope.difference(&deleted).cloned().collect();
            if !extra.is_empty() {
                let other_author = extra.iter().any(|r| r.0 != d.claimed);
                let other_log = extra.iter().any(|r| r.1 != d.topic);
                let site = if other_author {
                    "rows of another author deleted"
                } else if other_log {
                    "rows of another log of the same author deleted"
                } else {
                    "rows with seq >= the prune point deleted"
                };
                violation("prune-outside-own-log-prefix", site, format!("{}: deleted {} beyond its scope {}", d.label, rows_str(&extra), rows_str(&scope)));
            }
            if !missing.is_empty() {
                violation("prune-left-own-prefix", "accepted flagged operation did not delete all smaller seqs of its log", format!("{}: still present {}", d.label, rows_str(&missing)));
            }
        }
        if ctx::has_violation() {
            break;
        }
        before = after;
        step += 1;
    }
    ev!("final: {} rows in {} logs", before.len(), before.iter().map(|r| (r.0, r.1)).collect::<BTreeSet<_>>().len());
    drop(pipeline);
}
