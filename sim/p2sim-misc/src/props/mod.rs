pub mod c30;
pub mod c39;

pub fn all() -> Vec<&'static dyn simcore::Property> {
    vec![&c30::C30, &c39::C39]
}
