//! Deterministic-simulation core for the p2panda verification harness: choice stream, engines
//! (StepExec, DES), seams (SimDuplex, SimPipe, libc clock/randomness), batch runner, shrinker,
//! evidence writer. See /verif/DESIGN.md §3.

pub mod ctx;
pub mod des;
pub mod duplex;
pub mod libc_seams;
pub mod rng;
pub mod runner;
pub mod stepexec;

pub use ctx::{chance, choose, fault, pick, probe, range, shuffle, violation};
pub use runner::{Budget, Property, Tier};
