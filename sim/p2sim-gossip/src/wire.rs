//! The harness' own reading of the ephemeral message wire format (independent of the crate-private
//! `WrappedMessage`): a CBOR tuple
//! `(version u64, verifying_key 32 bytes, signature 64 bytes, timestamp u64, logical u64, body)`
//! whose signature covers the CBOR tuple `(version, verifying_key, timestamp, logical, body)`.

use p2panda_core::cbor::{decode_cbor, encode_cbor};
use p2panda_core::timestamp::{LamportTimestamp, Timestamp};
use p2panda_core::{Signature, SigningKey, VerifyingKey};
use serde_bytes::ByteBuf;

/// Body type of the streams under test (CBOR byte string).
pub type Body = ByteBuf;

/// What a frame says (decoded, not verified).
#[derive(Clone, Debug, PartialEq, Eq, PartialOrd, Ord)]
pub struct Content {
    pub author: VerifyingKey,
    pub ts: u64,
    pub logical: u64,
    pub body: Vec<u8>,
}

impl Content {
    /// What an `EphemeralMessage` exposes: author, physical timestamp, body.
    pub fn visible(&self) -> (VerifyingKey, u64, Vec<u8>) {
        (self.author, self.ts, self.body.clone())
    }
}

pub struct Decoded {
    pub version: u64,
    pub signature: Signature,
    pub content: Content,
}

pub fn decode(bytes: &[u8]) -> Option<Decoded> {
    // `Timestamp` and `LamportTimestamp` are transparent newtypes over u64.
    let (version, author, signature, ts, logical, body): (u64, VerifyingKey, Signature, u64, u64, Body) = decode_cbor(bytes).ok()?;
    Some(Decoded { version, signature, content: Content { author, ts, logical, body: body.into_vec() } })
}

fn signed_bytes(version: u64, c: &Content) -> Vec<u8> {
    let body = ByteBuf::from(c.body.clone());
    encode_cbor(&(version, c.author, Timestamp::new(c.ts), LamportTimestamp::new(c.logical), &body)).expect("encode signed tuple")
}

/// The harness' verdict on a frame: `Some(content)` iff it decodes, has version 1 and carries a
/// valid signature of the claimed author over (version, author, timestamp, logical, body).
pub fn judge(bytes: &[u8]) -> Option<Content> {
    let d = decode(bytes)?;
    if d.version != 1 {
        return None;
    }
    if !d.content.author.verify(&signed_bytes(d.version, &d.content), &d.signature) {
        return None;
    }
    Some(d.content)
}

/// Build a frame that claims `content` (with `version`), signed by `signer` (which may or may not
/// be the claimed author).
pub fn build(version: u64, content: &Content, signer: &SigningKey) -> Vec<u8> {
    let signature = signer.sign(&signed_bytes(version, content));
    assemble(version, content, &signature)
}

/// Build a frame from parts without touching the signature.
pub fn assemble(version: u64, content: &Content, signature: &Signature) -> Vec<u8> {
    let body = ByteBuf::from(content.body.clone());
    encode_cbor(&(version, content.author, *signature, Timestamp::new(content.ts), LamportTimestamp::new(content.logical), &body)).expect("encode frame")
}

pub fn short(k: &VerifyingKey) -> String {
    k.to_hex()[..6].to_string()
}

pub fn show(c: &Content) -> String {
    format!("{}@{}.{} {:?}", short(&c.author), c.ts, c.logical, String::from_utf8_lossy(&c.body))
}
