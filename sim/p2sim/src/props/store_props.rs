//! C08, C09 — differential test of the SQLite stores against the in-memory reference model.

use simcore::{Budget, Property, Tier, ctx};

use super::storeworld::{StoreCfg, Which, run_store};

fn mode_name(mode: u32) -> &'static str {
    match mode % 4 {
        3 => "file db (4 connections) + dirty restarts",
        _ => "in-memory db (1 connection), fault-free",
    }
}

macro_rules! store_prop {
    ($ty:ident, $st:ident, $id:literal, $which:expr, $rule:literal, $probes:expr) => {
        pub struct $ty;
        pub static $st: $ty = $ty;
        impl Property for $ty {
            fn id(&self) -> &'static str {
                $id
            }
            fn budget(&self, tier: Tier) -> Budget {
                match tier {
                    Tier::Quick => Budget { runs: 8_000, wall_cap_s: 45 },
                    Tier::Thorough => Budget { runs: 100_000, wall_cap_s: 400 },
                }
            }
            fn modes(&self) -> u32 {
                4
            }
            fn mode_name(&self, mode: u32) -> &'static str {
                mode_name(mode)
            }
            fn rule(&self) -> &'static str {
                $rule
            }
            fn components_real(&self) -> Vec<&'static str> {
                vec!["p2panda_store::SqliteStore: Transaction, OperationStore, LogStore, TopicStore, CursorStore impls on real SQLite (sqlx)", "TransactionPermit::drop rollback path"]
            }
            fn components_stub(&self) -> Vec<&'static str> {
                vec!["none (MemStore is the reference model, not a stub here)"]
            }
            fn assumptions(&self) -> Vec<&'static str> {
                vec!["one client, one call in flight (concurrent writers are C10)", "no two stored entries share (author, log, seq)", "pool-level writes are not issued while a transaction is open", "dirty restart = all handles dropped mid-transaction and the file reopened (process abort with torn pages is out of scope: SQLite durability is trusted)"]
            }
            fn expected_probes(&self) -> Vec<&'static str> {
                $probes
            }
            fn run(&self) {
                let file_db = ctx::mode() % 4 == 3;
                run_store(&StoreCfg { which: $which, file_db, restarts: file_db, max_cmds: 40 });
            }
        }
    };
}

store_prop!(
    C08Prop, C08, "C08", Which::C08,
    "one run = a random sequence of up to 40 store commands (transactions that commit / roll back / drop their permit, inserts, deletes, payload deletions, prunes, and the log queries get_latest_entry(_tx), get_log_heights over arbitrary log subsets incl. the empty slice, unknown and repeated ids, get_log_entries / get_log_size with after/until in {None,0,1,2,h-1,h,h+1,MAX}) issued to SqliteStore and MemStore alike and compared call by call; non-trivial = at least one successful insert; distinct = distinct trace fingerprint (commands and results)",
    vec!["get_log_heights_empty_slice", "permit_dropped", "rollback"]
);
store_prop!(
    C09Prop, C09, "C09", Which::C09,
    "same command sequences as C08; the clauses owned here are the operation store (insert reports true exactly once, read-back equality of id / header bytes / body, delete, payload deletion, _tx methods outside a transaction), the topic store (set of triples) and the cursor store (last write wins per name), incl. after dirty restarts of a file database; distinct = distinct trace fingerprint",
    vec!["tx_method_without_tx", "permit_dropped", "restart_with_open_transaction"]
);
