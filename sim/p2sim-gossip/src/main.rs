#[cfg(feature = "hooks")]
mod ephworld;
mod props;
#[cfg(feature = "hooks")]
mod wire;
#[cfg(feature = "hooks")]
mod world;

fn main() {
    let props = props::all();
    std::process::exit(simcore::runner::cli_main(&props));
}
