//! C38 — Expired or invalid key bundles are never accepted or used.
//!
//! World: one real `KeyRegistryState`, 1..3 members publishing long-term and one-time key bundles
//! whose lifetimes lie before / around / after the simulated wall clock, a clock that moves
//! between the operations (time passing, and in the fault mode jumps in both directions), and in
//! the fault mode bundles whose signature does not verify.
//!
//! Oracle (a list of what the registry accepted, with the lifetime and signature status the
//! harness gave each bundle): `add_*_bundle` of a bundle that is outside its lifetime at that
//! moment or carries a bad signature must return `Err`; a bundle returned by `key_bundle` must be
//! one the registry accepted for that member, correctly signed, and inside its lifetime at the
//! moment of the query. The end points of a lifetime are accepted either way (the property does
//! not say whether `not_before` / `not_after` are inclusive).

use p2panda_encryption::Rng;
use p2panda_encryption::crypto::x25519::{PublicKey, SecretKey};
use p2panda_encryption::crypto::xeddsa::{XSignature, xeddsa_sign};
use p2panda_encryption::key_bundle::{Lifetime, LongTermKeyBundle, OneTimeKeyBundle, OneTimePreKey, PreKey};
use p2panda_encryption::key_registry::{KeyRegistry, KeyRegistryState};
use p2panda_encryption::traits::PreKeyRegistry;
use simcore::libc_seams::{self, EPOCH_US};
use simcore::{Budget, Property, Tier, ctx, ev, violation};

use super::util::{hex4, now_s, seeded_bytes, seeded_rng};

pub struct C38Prop;
pub static C38: C38Prop = C38Prop;

const EPOCH_S: u64 = EPOCH_US / 1_000_000;

#[derive(Clone, Copy, Debug, PartialEq, Eq)]
enum Kind {
    LongTerm,
    OneTime,
}

impl Kind {
    fn name(&self) -> &'static str {
        match self {
            Kind::LongTerm => "longterm",
            Kind::OneTime => "onetime",
        }
    }
}

#[derive(Clone, Debug)]
struct Meta {
    label: String,
    not_before: u64,
    not_after: u64,
    sig_ok: bool,
    sig_note: &'static str,
}

#[derive(Clone, Copy, Debug, PartialEq, Eq)]
enum LifetimeStatus {
    /// not_before < now < not_after: valid under every reading.
    Inside,
    /// now equals an end point (and lies within [not_before, not_after]): unspecified.
    Edge,
    Expired,
    NotYetValid,
    /// not_before > not_after: no instant is inside.
    Inverted,
}

impl Meta {
    fn status(&self, now: u64) -> LifetimeStatus {
        if self.not_before > self.not_after {
            LifetimeStatus::Inverted
        } else if now > self.not_after {
            LifetimeStatus::Expired
        } else if now < self.not_before {
            LifetimeStatus::NotYetValid
        } else if now == self.not_before || now == self.not_after {
            LifetimeStatus::Edge
        } else {
            LifetimeStatus::Inside
        }
    }
    fn lifetime_invalid(&self, now: u64) -> bool {
        matches!(self.status(now), LifetimeStatus::Expired | LifetimeStatus::NotYetValid | LifetimeStatus::Inverted)
    }
}

fn rel(t: u64) -> String {
    if t >= EPOCH_S { format!("+{}", t - EPOCH_S) } else if EPOCH_S - t < 1_000_000 { format!("-{}", EPOCH_S - t) } else { format!("abs:{t}") }
}

fn clock_str() -> String {
    let us = libc_seams::wall_us();
    let d = us as i128 - EPOCH_US as i128;
    format!("t={}{}.{:03}s", if d < 0 { "-" } else { "+" }, d.abs() / 1_000_000, (d.abs() % 1_000_000) / 1000)
}

struct Member {
    identity: SecretKey,
    identity_pk: PublicKey,
    accepted_lt: Vec<(LongTermKeyBundle, Meta)>,
    accepted_ot: Vec<(OneTimeKeyBundle, Meta)>,
}

struct Made {
    prekey: PreKey,
    identity_pk: PublicKey,
    signature: XSignature,
    onetime: Option<OneTimePreKey>,
    meta: Meta,
}

/// Draw a lifetime relative to the current clock. Index 0 = plainly valid.
fn draw_lifetime(faulty: bool) -> (u64, u64, &'static str) {
    let now = now_s();
    let n = if faulty { 10 } else { 5 };
    match ctx::choose("lifetime", n) {
        0 => (now - 1 - ctx::choose("lt.a", 100) as u64, now + 2 + ctx::choose("lt.b", 300) as u64, "valid"),
        1 => (now - 1 - ctx::choose("lt.a", 100) as u64, now + 1 + ctx::choose("lt.b", 3) as u64, "valid-expires-soon"),
        2 => {
            let na = now - 1 - ctx::choose("lt.a", 100) as u64;
            (na - 1 - ctx::choose("lt.b", 100) as u64, na, "expired")
        }
        3 => {
            let nb = now + 1 + ctx::choose("lt.a", 100) as u64;
            (nb, nb + 1 + ctx::choose("lt.b", 300) as u64, "not-yet-valid")
        }
        4 => (now - 3600, now + 60 * 60 * 24 * 28 * 3, "valid-default-3-months"),
        5 => (now - 1 - ctx::choose("lt.a", 100) as u64, now, "ends-now"),
        6 => (now, now + 1 + ctx::choose("lt.b", 100) as u64, "starts-now"),
        7 => (now, now, "single-instant"),
        8 => (now + 1 + ctx::choose("lt.a", 50) as u64, now - 1 - ctx::choose("lt.b", 50) as u64, "inverted"),
        _ => (0, u64::MAX, "unbounded"),
    }
}

impl Property for C38Prop {
    fn id(&self) -> &'static str {
        "C38"
    }
    fn budget(&self, tier: Tier) -> Budget {
        match tier {
            Tier::Quick => Budget { runs: 120_000, wall_cap_s: 35 },
            Tier::Thorough => Budget { runs: 1_200_000, wall_cap_s: 330 },
        }
    }
    fn modes(&self) -> u32 {
        2
    }
    fn mode_name(&self, mode: u32) -> &'static str {
        match mode {
            0 => "honest-bundles-time-passes",
            _ => "bad-signatures-clock-jumps",
        }
    }
    fn rule(&self) -> &'static str {
        "one run = one registry, 1..3 members, 3..16 operations chosen by the stream: add a long-term / one-time bundle (lifetime drawn relative to the clock: valid, about to expire, expired, not yet valid, 3 months; fault mode also ends-now, starts-now, single instant, inverted, unbounded, and signatures corrupted in five ways), query long-term / one-time for a member, let 0.3 s .. 1000 s pass, remove_expired, and in the fault mode clock jumps back (1 .. 5000 s) and far forward; non-trivial = at least one accepted add followed by a query; distinct = distinct trace"
    }
    fn components_real(&self) -> Vec<&'static str> {
        vec![
            "p2panda_encryption::key_registry::KeyRegistry::{init, add_longterm_bundle, add_onetime_bundle, remove_expired}",
            "p2panda_encryption::key_registry::KeyRegistry as PreKeyRegistry<_, LongTermKeyBundle>::key_bundle / as PreKeyRegistry<_, OneTimeKeyBundle>::key_bundle",
            "p2panda_encryption::key_bundle::{LongTermKeyBundle, OneTimeKeyBundle}::verify, latest_key_bundle, Lifetime::verify (SystemTime::now through the CLOCK_REALTIME seam)",
            "p2panda_encryption::crypto::xeddsa::{xeddsa_sign, xeddsa_verify}",
        ]
    }
    fn components_stub(&self) -> Vec<&'static str> {
        vec!["the members publishing bundles and the network carrying them: harness (bundles handed to the registry directly)", "wall clock: CLOCK_REALTIME seam", "Rng for signing: the crate's ChaCha Rng seeded from the run seed"]
    }
    fn assumptions(&self) -> Vec<&'static str> {
        vec![
            "a lifetime is certainly invalid at time t (whole seconds) iff t < not_before or t > not_after or not_before > not_after; at t == not_before and t == not_after both answers are accepted",
            "'signature does not verify' means: not accepted by the scheme's verification of the pre-key bytes under the bundle's identity key; flipping bit 255 of s, which xeddsa_verify masks off, leaves a verifying signature and is treated as such",
            "every bundle of one member carries that member's identity key or fails verification (a verifying bundle with a different identity key for a known member hits an assert_eq! in add_*_bundle; that is outside this property and not generated)",
            "a rejected add consumes the state it was given; the caller keeps its previous state, so 'registry unchanged' holds by construction of the API",
        ]
    }
    fn expected_probes(&self) -> Vec<&'static str> {
        vec![
            "valid_bundle_accepted",
            "expired_bundle_rejected",
            "not_yet_valid_bundle_rejected",
            "corrupted_signature_rejected",
            "edge_of_lifetime_at_add",
            "bundle_expired_between_add_and_query",
            "bundle_not_yet_valid_after_clock_jump_back",
            "valid_bundle_returned",
            "all_bundles_expired_error",
            "query_unknown_member",
            "remove_expired_with_expired_bundles",
        ]
    }

    fn run(&self) {
        let faulty = ctx::mode() == 1;

        // Guard: the crate's clock reads must follow the seam, or the oracle below means nothing.
        {
            let lt = Lifetime::from_range(EPOCH_S - 1, EPOCH_S + 1);
            assert!(lt.verify().is_ok(), "Lifetime::verify does not see the simulated clock");
            libc_seams::advance_wall_us(5_000_000);
            assert!(lt.verify().is_err(), "Lifetime::verify does not follow the simulated clock");
            libc_seams::set_wall_us(EPOCH_US);
        }

        let rng: Rng = seeded_rng(0);
        let nmem = ctx::range("members", 1, 3);
        let mut members: Vec<Member> = Vec::new();
        for i in 0..nmem {
            let identity = SecretKey::from_bytes(seeded_bytes(100 + i as u64));
            let identity_pk = match identity.verifying_key() {
                Ok(pk) => pk,
                Err(e) => panic!("verifying_key: {e}"),
            };
            members.push(Member { identity, identity_pk, accepted_lt: vec![], accepted_ot: vec![] });
        }
        let stranger = SecretKey::from_bytes(seeded_bytes(199));
        let stranger_pk = stranger.verifying_key().expect("stranger key");
        ev!("members: {}", members.iter().enumerate().map(|(i, m)| format!("m{i}={}", hex4(m.identity_pk.as_bytes()))).collect::<Vec<_>>().join(" "));

        let mut y: KeyRegistryState<usize> = KeyRegistry::init();
        let steps = ctx::range("steps", 3, 16);
        let mut made = 0u64;
        let mut accepted_any = false;
        let mut queried_after_accept = false;

        for _ in 0..steps {
            // Weighted action table; index 0 = add a long-term bundle.
            const TABLE: [usize; 14] = [0, 1, 2, 3, 4, 0, 1, 2, 3, 4, 5, 6, 7, 6];
            let nact = if faulty { 14 } else { 11 };
            let act = TABLE[ctx::choose("action", nact)];
            match act {
                // ---- add a bundle -------------------------------------------------------------
                0 | 1 => {
                    let kind = if act == 0 { Kind::LongTerm } else { Kind::OneTime };
                    let m = ctx::choose("member", nmem);
                    let (nb, na, lt_note) = draw_lifetime(faulty);
                    made += 1;
                    let prekey_secret = SecretKey::from_bytes(seeded_bytes(1000 + made));
                    let Ok(prekey_pk) = prekey_secret.verifying_key() else { panic!("prekey verifying_key") };
                    let prekey = PreKey::new(prekey_pk, Lifetime::from_range(nb, na));
                    let sig_fault = if faulty && ctx::chance("sig.bad", 1, 3) { 1 + ctx::choose("sig.how", 5) } else { 0 };
                    let good = match prekey.sign(&members[m].identity, &rng) {
                        Ok(s) => s,
                        Err(e) => panic!("sign: {e}"),
                    };
                    let mut identity_pk = members[m].identity_pk;
                    let mut malleable = false;
                    let (signature, sig_note): (XSignature, &'static str) = match sig_fault {
                        0 => (good, "ok"),
                        1 => {
                            let mut b = good.to_bytes();
                            let at = ctx::choose("sig.byte", 64);
                            let bit = ctx::choose("sig.bit", 8);
                            b[at] ^= 1 << bit;
                            if at == 63 && bit == 7 {
                                // XEdDSA as implemented here (and in libsignal) ignores bit 255 of
                                // s: `xeddsa_verify` masks it off, so this signature still
                                // verifies — malleable, but not "a signature that does not verify".
                                malleable = true;
                                (XSignature::from_bytes(b), "bit-255-of-s-flipped (ignored by xeddsa_verify)")
                            } else {
                                (XSignature::from_bytes(b), "bit-flipped")
                            }
                        }
                        2 => (xeddsa_sign(b"some other payload", &members[m].identity, &rng).expect("sign"), "over-other-payload"),
                        3 => (prekey.sign(&stranger, &rng).expect("sign"), "by-foreign-key"),
                        4 => {
                            identity_pk = stranger_pk;
                            (good, "identity-key-replaced")
                        }
                        _ => (XSignature::from_bytes([0u8; 64]), "all-zero"),
                    };
                    if malleable {
                        ctx::fault("tamper.signature_ignored_bit");
                    } else if sig_fault != 0 {
                        ctx::fault("tamper.signature");
                    }
                    let onetime = if kind == Kind::OneTime && ctx::choose("otk", 4) != 3 {
                        let sk = SecretKey::from_bytes(seeded_bytes(5000 + made));
                        Some(OneTimePreKey::new(sk.verifying_key().expect("otk"), made))
                    } else {
                        None
                    };
                    let meta = Meta { label: format!("b{made}"), not_before: nb, not_after: na, sig_ok: sig_fault == 0 || malleable, sig_note };
                    let b = Made { prekey, identity_pk, signature, onetime, meta };
                    let now = now_s();
                    let status = b.meta.status(now);
                    let must_reject = b.meta.lifetime_invalid(now) || !b.meta.sig_ok;
                    if status == LifetimeStatus::Edge {
                        ctx::probe("edge_of_lifetime_at_add");
                    }
                    let before = y.clone();
                    let (res, lt_bundle, ot_bundle) = match kind {
                        Kind::LongTerm => {
                            let kb = LongTermKeyBundle::new(b.identity_pk, b.prekey, b.signature);
                            (KeyRegistry::add_longterm_bundle(y, m, kb.clone()), Some(kb), None)
                        }
                        Kind::OneTime => {
                            let kb = OneTimeKeyBundle::new(b.identity_pk, b.prekey, b.signature, b.onetime.clone());
                            (KeyRegistry::add_onetime_bundle(y, m, kb.clone()), None, Some(kb))
                        }
                    };
                    let outcome = match &res {
                        Ok(_) => "accepted".to_string(),
                        Err(e) => format!("rejected ({e})"),
                    };
                    ev!("{} add {} {} for m{m}: lifetime [{} .. {}] ({lt_note}, {:?} now) signature {} -> {outcome}", clock_str(), kind.name(), b.meta.label, rel(nb), rel(na), status, sig_note);
                    match res {
                        Ok(y2) => {
                            y = y2;
                            accepted_any = true;
                            if must_reject {
                                let site = match (b.meta.lifetime_invalid(now), b.meta.sig_ok) {
                                    (true, true) => format!("{}-lifetime-invalid-at-add", kind.name()),
                                    (false, false) => format!("{}-signature-does-not-verify", kind.name()),
                                    _ => format!("{}-lifetime-and-signature-invalid", kind.name()),
                                };
                                violation("accepted-invalid-bundle", &site, format!("add_{}_bundle returned Ok for {} (lifetime [{} .. {}] is {:?} at clock {}, signature {})", kind.name(), b.meta.label, rel(nb), rel(na), status, rel(now), sig_note));
                            } else if status == LifetimeStatus::Inside {
                                ctx::probe("valid_bundle_accepted");
                                if malleable {
                                    ctx::probe("signature_with_flipped_ignored_bit_accepted");
                                }
                            }
                            if let Some(kb) = lt_bundle {
                                members[m].accepted_lt.push((kb, b.meta.clone()));
                            }
                            if let Some(kb) = ot_bundle {
                                members[m].accepted_ot.push((kb, b.meta.clone()));
                            }
                        }
                        Err(_) => {
                            // The state was consumed; the registry the caller still has is the old one.
                            y = before;
                            if !b.meta.sig_ok {
                                ctx::probe("corrupted_signature_rejected");
                            }
                            match status {
                                LifetimeStatus::Expired => ctx::probe("expired_bundle_rejected"),
                                LifetimeStatus::NotYetValid => ctx::probe("not_yet_valid_bundle_rejected"),
                                LifetimeStatus::Inverted => ctx::probe("inverted_lifetime_rejected"),
                                LifetimeStatus::Inside if b.meta.sig_ok => ctx::probe("valid_bundle_rejected"),
                                _ => {}
                            }
                        }
                    }
                }
                // ---- query ----------------------------------------------------------------------
                2 | 3 => {
                    let kind = if act == 2 { Kind::LongTerm } else { Kind::OneTime };
                    // Now and then ask for somebody the registry has never heard of.
                    let m = ctx::choose("member", nmem);
                    let m = if ctx::chance("member.unknown", 1, 12) { 7 } else { m };
                    let now = now_s();
                    let known: Vec<Meta> = if m < nmem {
                        match kind {
                            Kind::LongTerm => members[m].accepted_lt.iter().map(|x| x.1.clone()).collect(),
                            Kind::OneTime => members[m].accepted_ot.iter().map(|x| x.1.clone()).collect(),
                        }
                    } else {
                        ctx::probe("query_unknown_member");
                        vec![]
                    };
                    if accepted_any {
                        queried_after_accept = true;
                    }
                    if known.iter().any(|k| k.status(now) == LifetimeStatus::Expired) {
                        ctx::probe("bundle_expired_between_add_and_query");
                    }
                    if known.iter().any(|k| k.status(now) == LifetimeStatus::NotYetValid) {
                        ctx::probe("bundle_not_yet_valid_after_clock_jump_back");
                    }
                    let before = y.clone();
                    // (found meta, returned-something, description)
                    let returned: Option<Option<Meta>>;
                    let text: String;
                    match kind {
                        Kind::LongTerm => match <KeyRegistry<usize> as PreKeyRegistry<usize, LongTermKeyBundle>>::key_bundle(y, &m) {
                            Ok((y2, Some(kb))) => {
                                y = y2;
                                let meta = if m < nmem { members[m].accepted_lt.iter().find(|x| x.0 == kb).map(|x| x.1.clone()) } else { None };
                                text = format!("Some({})", meta.as_ref().map(|x| x.label.clone()).unwrap_or_else(|| "a bundle never accepted for this member".into()));
                                returned = Some(meta);
                            }
                            Ok((y2, None)) => {
                                y = y2;
                                text = "None".into();
                                returned = None;
                            }
                            Err(e) => {
                                y = before;
                                ctx::probe("all_bundles_expired_error");
                                text = format!("Err({e})");
                                returned = None;
                            }
                        },
                        Kind::OneTime => match <KeyRegistry<usize> as PreKeyRegistry<usize, OneTimeKeyBundle>>::key_bundle(y, &m) {
                            Ok((y2, Some(kb))) => {
                                y = y2;
                                let meta = if m < nmem { members[m].accepted_ot.iter().find(|x| x.0 == kb).map(|x| x.1.clone()) } else { None };
                                text = format!("Some({})", meta.as_ref().map(|x| x.label.clone()).unwrap_or_else(|| "a bundle never accepted for this member".into()));
                                returned = Some(meta);
                            }
                            Ok((y2, None)) => {
                                y = y2;
                                text = "None".into();
                                returned = None;
                            }
                            Err(e) => match e {},
                        },
                    }
                    ev!("{} key_bundle({}) for m{m} -> {text}", clock_str(), kind.name());
                    match returned {
                        None => {
                            if kind == Kind::LongTerm && known.iter().any(|k| k.sig_ok && k.status(now) == LifetimeStatus::Inside) {
                                ctx::probe("valid_bundle_withheld");
                            }
                        }
                        Some(None) => {
                            violation("returned-invalid-bundle", &format!("{}-never-accepted-for-this-member", kind.name()), format!("key_bundle({}) for m{m} returned a bundle the registry never accepted for that member", kind.name()));
                        }
                        Some(Some(meta)) => {
                            let status = meta.status(now);
                            if !meta.sig_ok {
                                violation("returned-invalid-bundle", &format!("{}-signature-does-not-verify", kind.name()), format!("key_bundle({}) for m{m} returned {} whose signature is {}", kind.name(), meta.label, meta.sig_note));
                            }
                            if meta.lifetime_invalid(now) {
                                violation(
                                    "returned-invalid-bundle",
                                    &format!("{}-lifetime-invalid-at-query", kind.name()),
                                    format!("key_bundle({}) for m{m} at clock {} returned {} with lifetime [{} .. {}]: {:?}", kind.name(), rel(now), meta.label, rel(meta.not_before), rel(meta.not_after), status),
                                );
                            } else if meta.sig_ok && status == LifetimeStatus::Inside {
                                ctx::probe("valid_bundle_returned");
                            }
                        }
                    }
                }
                // ---- time passes ------------------------------------------------------------------
                4 => {
                    let d = *ctx::pick("advance", &[300_000u64, 1_000_000, 2_000_000, 10_000_000, 100_000_000, 1_000_000_000]);
                    libc_seams::advance_wall_us(d);
                    ev!("{} (clock advanced by {} ms)", clock_str(), d / 1000);
                }
                // ---- housekeeping -----------------------------------------------------------------
                5 => {
                    let now = now_s();
                    let expired = members.iter().flat_map(|m| m.accepted_lt.iter().map(|x| &x.1).chain(m.accepted_ot.iter().map(|x| &x.1))).filter(|k| k.lifetime_invalid(now)).count();
                    if expired > 0 {
                        ctx::probe("remove_expired_with_expired_bundles");
                    }
                    y = KeyRegistry::remove_expired(y);
                    ev!("{} remove_expired ({expired} of the accepted bundles are outside their lifetime now)", clock_str());
                }
                // ---- fault: the clock jumps back ------------------------------------------------
                6 => {
                    let d = *ctx::pick("jump_back", &[1u64, 10, 100, 1000, 5000]);
                    let us = libc_seams::wall_us();
                    libc_seams::set_wall_us(us - d * 1_000_000);
                    ctx::fault("clock.jump_back");
                    ev!("{} (clock jumped BACK by {d} s)", clock_str());
                }
                // ---- fault: the clock jumps far forward -----------------------------------------
                _ => {
                    let d = *ctx::pick("jump_fwd", &[3_600u64, 86_400, 60 * 60 * 24 * 28 * 3 + 10, 100_000_000]);
                    libc_seams::advance_wall_us(d * 1_000_000);
                    ctx::fault("clock.jump_forward");
                    ev!("{} (clock jumped FORWARD by {d} s)", clock_str());
                }
            }
            if ctx::has_violation() {
                return;
            }
        }
        if queried_after_accept {
            ctx::mark_nontrivial();
        }
        let total: usize = members.iter().map(|m| m.accepted_lt.len() + m.accepted_ot.len()).sum();
        ev!("end: {made} bundles offered, {total} accepted");
    }
}
