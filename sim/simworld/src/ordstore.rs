//! `OrdStore<S, G>`: a gated wrapper that lets the real `Orderer` processor run over a real store
//! with a harness-local item type. (`Orderer<T, ID, S>` needs `S: OperationStore<T, ID>` and
//! `T: Ordering<ID>`; for foreign `T = Operation<E>` that impl cannot be written outside
//! p2panda-stream, so items are a local newtype around a real signed operation.)

use std::collections::HashSet;

use p2panda_core::traits::Digest;
use p2panda_core::{Hash, Header, LogId, Operation, SigningKey};
use p2panda_store::Transaction;
use p2panda_store::operations::OperationStore;
use p2panda_store::orderer::OrdererStore;
use p2panda_stream::orderer::Ordering;
use serde::{Deserialize, Serialize};
use simcore::stepexec::ForeignGuard;

use crate::gated::{Gate, GatedError};

#[derive(Clone, Debug, Default, PartialEq, Eq, Serialize, Deserialize)]
pub struct DagExt {
    pub deps: Vec<Hash>,
    pub tag: u64,
}

#[derive(Clone, Debug)]
pub struct DagItem(pub Operation<DagExt>);

impl DagItem {
    pub fn new(key: &SigningKey, tag: u64, deps: Vec<Hash>) -> Self {
        let mut header = Header::<DagExt> { verifying_key: key.verifying_key(), extensions: DagExt { deps, tag }, ..Default::default() };
        header.sign(key);
        DagItem(Operation { hash: header.hash(), header, body: None })
    }
    pub fn id(&self) -> Hash {
        self.0.hash
    }
    pub fn tag(&self) -> u64 {
        self.0.header.extensions.tag
    }
}

impl Digest<Hash> for DagItem {
    fn hash(&self) -> Hash {
        self.0.hash
    }
}

impl Ordering<Hash> for DagItem {
    fn dependencies(&self) -> &[Hash] {
        &self.0.header.extensions.deps
    }
}

#[derive(Clone)]
pub struct OrdStore<S, G> {
    pub inner: S,
    pub gate: G,
}

unsafe impl<S, G> Send for OrdStore<S, G> {}
unsafe impl<S, G> Sync for OrdStore<S, G> {}

macro_rules! gated {
    ($self:ident, $name:literal, $call:expr) => {{
        $self.gate.before($name).await.map_err(GatedError::Injected)?;
        let r = {
            let _g = ForeignGuard::enter();
            $call.await.map_err(GatedError::Inner)
        };
        $self.gate.after($name);
        r
    }};
}

impl<S: Transaction, G: Gate> Transaction for OrdStore<S, G> {
    type Error = GatedError<S::Error>;
    type Permit = S::Permit;

    async fn begin(&self) -> Result<Self::Permit, Self::Error> {
        gated!(self, "begin", self.inner.begin())
    }
    async fn rollback(&self, permit: Self::Permit) -> Result<(), Self::Error> {
        gated!(self, "rollback", self.inner.rollback(permit))
    }
    async fn commit(&self, permit: Self::Permit) -> Result<(), Self::Error> {
        gated!(self, "commit", self.inner.commit(permit))
    }
}

impl<S: OperationStore<Operation<DagExt>, Hash>, G: Gate> OperationStore<DagItem, Hash> for OrdStore<S, G> {
    type Error = GatedError<S::Error>;

    async fn insert_operation<L: LogId>(&self, id: &Hash, operation: &DagItem, collection_id: &L) -> Result<bool, Self::Error> {
        gated!(self, "insert_operation", self.inner.insert_operation(id, &operation.0, collection_id))
    }
    async fn get_operation(&self, id: &Hash) -> Result<Option<DagItem>, Self::Error> {
        gated!(self, "get_operation", self.inner.get_operation(id)).map(|o| o.map(DagItem))
    }
    async fn get_operation_tx(&self, id: &Hash) -> Result<Option<DagItem>, Self::Error> {
        gated!(self, "get_operation_tx", self.inner.get_operation_tx(id)).map(|o| o.map(DagItem))
    }
    async fn has_operation(&self, id: &Hash) -> Result<bool, Self::Error> {
        gated!(self, "has_operation", self.inner.has_operation(id))
    }
    async fn has_operation_tx(&self, id: &Hash) -> Result<bool, Self::Error> {
        gated!(self, "has_operation_tx", self.inner.has_operation_tx(id))
    }
    async fn delete_operation(&self, id: &Hash) -> Result<bool, Self::Error> {
        gated!(self, "delete_operation", self.inner.delete_operation(id))
    }
    async fn delete_operation_payload(&self, id: &Hash) -> Result<bool, Self::Error> {
        gated!(self, "delete_operation_payload", self.inner.delete_operation_payload(id))
    }
}

impl<S: OrdererStore<Hash>, G: Gate> OrdererStore<Hash> for OrdStore<S, G> {
    type Error = GatedError<S::Error>;

    async fn mark_ready(&self, id: Hash) -> Result<bool, Self::Error> {
        gated!(self, "mark_ready", self.inner.mark_ready(id))
    }
    async fn mark_pending(&self, id: Hash, dependencies: Vec<Hash>) -> Result<bool, Self::Error> {
        gated!(self, "mark_pending", self.inner.mark_pending(id, dependencies))
    }
    async fn get_next_pending(&self, id: Hash) -> Result<Option<HashSet<(Hash, Vec<Hash>)>>, Self::Error> {
        gated!(self, "get_next_pending", self.inner.get_next_pending(id))
    }
    async fn take_next_ready(&self) -> Result<Option<Hash>, Self::Error> {
        gated!(self, "take_next_ready", self.inner.take_next_ready())
    }
    async fn remove_pending(&self, id: Hash) -> Result<bool, Self::Error> {
        gated!(self, "remove_pending", self.inner.remove_pending(id))
    }
    async fn ready(&self, keys: &[Hash]) -> Result<bool, Self::Error> {
        gated!(self, "ready", self.inner.ready(keys))
    }
}
