pub mod c15;

pub fn all() -> Vec<&'static dyn simcore::Property> {
    vec![&c15::C15]
}
