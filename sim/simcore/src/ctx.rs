//! Per-run simulation context: the choice stream (one integer decides everything), the trace and
//! its fingerprint, fault / probe counters and the violations the oracles report.
//!
//! The context lives in a thread-local of the simulator thread. Logging (`ev!`) never draws from
//! the PRNG and never reads a clock.

use std::cell::RefCell;
use std::collections::BTreeMap;

use crate::rng::Rng;

#[derive(Clone, Debug, PartialEq, Eq)]
pub struct RunSpec {
    pub mode: u32,
    pub seed: u64,
}

#[derive(Clone, Debug)]
pub struct Violation {
    /// Stable signature: `<property>|<oracle clause>|<attribution site>`.
    pub signature: String,
    pub detail: String,
}

pub const TRACE_CAP: usize = 600;

pub struct RunCtx {
    pub property: String,
    pub spec: RunSpec,
    rng: Rng,
    replay: Option<Vec<u32>>,
    pos: usize,
    pub recorded: Vec<u32>,
    pub trace: Vec<String>,
    pub trace_dropped: u64,
    pub fp: u64,
    pub faults: BTreeMap<&'static str, u64>,
    pub probes: BTreeMap<&'static str, u64>,
    pub violations: Vec<Violation>,
    pub nontrivial: bool,
    pub sim_time_us: u64,
    pub steps: u64,
    pub fallback_classifications: u64,
    pub choice_limit: usize,
    pub choice_overflow: bool,
}

thread_local! {
    static CTX: RefCell<Option<RunCtx>> = const { RefCell::new(None) };
}

impl RunCtx {
    pub fn new(property: &str, spec: RunSpec, replay: Option<Vec<u32>>) -> Self {
        RunCtx {
            property: property.to_string(),
            rng: Rng::new(spec.seed),
            spec,
            replay,
            pos: 0,
            recorded: Vec::new(),
            trace: Vec::new(),
            trace_dropped: 0,
            fp: 0xcbf2_9ce4_8422_2325,
            faults: BTreeMap::new(),
            probes: BTreeMap::new(),
            violations: Vec::new(),
            nontrivial: false,
            sim_time_us: 0,
            steps: 0,
            fallback_classifications: 0,
            choice_limit: 2_000_000,
            choice_overflow: false,
        }
    }
}

pub fn install(ctx: RunCtx) {
    CTX.with(|c| *c.borrow_mut() = Some(ctx));
}

pub fn take() -> Option<RunCtx> {
    CTX.with(|c| c.borrow_mut().take())
}

pub fn with<R>(f: impl FnOnce(&mut RunCtx) -> R) -> R {
    CTX.with(|c| {
        let mut b = c.borrow_mut();
        let ctx = b.as_mut().expect("simulation context not installed on this thread");
        f(ctx)
    })
}

pub fn installed() -> bool {
    CTX.with(|c| c.borrow().is_some())
}

/// The only source of randomness: a value in `0..n`. `0` always means "plain / none / first", so
/// that zeroing and truncating the recorded stream shrinks towards few operations and no faults.
pub fn choose(_label: &'static str, n: usize) -> usize {
    if n <= 1 {
        return 0;
    }
    with(|c| {
        if c.recorded.len() >= c.choice_limit {
            c.choice_overflow = true;
            return 0;
        }
        let v = match &c.replay {
            Some(r) => {
                let v = r.get(c.pos).copied().unwrap_or(0) as usize;
                c.pos += 1;
                v.min(n - 1)
            }
            None => c.rng.below(n as u64) as usize,
        };
        c.recorded.push(v as u32);
        v
    })
}

/// True with probability `num/den`; the recorded value 0 is always "false".
pub fn chance(label: &'static str, num: usize, den: usize) -> bool {
    if num == 0 {
        return false;
    }
    let v = choose(label, den);
    v >= den - num.min(den)
}

/// Inclusive range.
pub fn range(label: &'static str, lo: usize, hi: usize) -> usize {
    debug_assert!(hi >= lo);
    lo + choose(label, hi - lo + 1)
}

pub fn pick<'a, T>(label: &'static str, items: &'a [T]) -> &'a T {
    &items[choose(label, items.len())]
}

/// A raw 64-bit value built from two draws (for key material etc.). Zero under shrinking.
pub fn bits(label: &'static str) -> u64 {
    let a = choose(label, 1 << 31) as u64;
    let b = choose(label, 1 << 31) as u64;
    (a << 31) ^ b
}

/// Shuffle in place (Fisher–Yates driven by the choice stream; all-zero = identity).
pub fn shuffle<T>(label: &'static str, v: &mut [T]) {
    let n = v.len();
    for i in 0..n.saturating_sub(1) {
        let j = i + choose(label, n - i);
        v.swap(i, j);
    }
}

pub fn fault(kind: &'static str) {
    if !installed() {
        return;
    }
    with(|c| {
        *c.faults.entry(kind).or_insert(0) += 1;
        c.nontrivial = true;
        fp_update(c, kind.as_bytes());
        fp_update(c, b"!");
    });
}

pub fn probe(name: &'static str) {
    if !installed() {
        return;
    }
    with(|c| {
        *c.probes.entry(name).or_insert(0) += 1;
    });
}

pub fn mark_nontrivial() {
    if !installed() {
        return;
    }
    with(|c| c.nontrivial = true);
}

pub fn add_sim_time_us(us: u64) {
    if !installed() {
        return;
    }
    with(|c| c.sim_time_us += us);
}

pub fn add_steps(n: u64) {
    if !installed() {
        return;
    }
    with(|c| c.steps += n);
}

pub fn count_fallback() {
    if !installed() {
        return;
    }
    with(|c| c.fallback_classifications += 1);
}

fn fp_update(c: &mut RunCtx, bytes: &[u8]) {
    let mut h = c.fp;
    for b in bytes {
        h ^= *b as u64;
        h = h.wrapping_mul(0x0000_0100_0000_01B3);
    }
    c.fp = h;
}

pub fn event(s: String) {
    if !installed() {
        return;
    }
    with(|c| {
        fp_update(c, s.as_bytes());
        fp_update(c, b"\n");
        if c.trace.len() < TRACE_CAP {
            c.trace.push(s);
        } else {
            c.trace_dropped += 1;
        }
    });
}

/// Record a trace event (also feeds the schedule fingerprint).
#[macro_export]
macro_rules! ev {
    ($($arg:tt)*) => { $crate::ctx::event(format!($($arg)*)) };
}

/// Report a violation of the property under test. `clause` names the oracle clause, `site` the
/// attribution (code site / minimal fault pattern) — together they form the stable signature.
pub fn violation(clause: &str, site: &str, detail: String) {
    with(|c| {
        let signature = format!("{}|{}|{}", c.property, clause, site);
        if c.violations.iter().any(|v| v.signature == signature) {
            return;
        }
        if c.violations.len() < 8 {
            let line = format!("VIOLATION-EVENT {signature}: {detail}");
            if c.trace.len() < TRACE_CAP + 8 {
                c.trace.push(line);
            }
            c.violations.push(Violation { signature, detail });
        }
    });
}

pub fn has_violation() -> bool {
    with(|c| !c.violations.is_empty())
}

pub fn mode() -> u32 {
    with(|c| c.spec.mode)
}

pub fn seed() -> u64 {
    with(|c| c.spec.seed)
}
