mod props;

fn main() {
    let args: Vec<String> = std::env::args().collect();
    if args.get(1).map(|s| s.as_str()) == Some("c15-child") {
        simcore::libc_seams::link_me();
        std::process::exit(props::c15::child_main(&args[2]));
    }
    let props = props::all();
    std::process::exit(simcore::runner::cli_main(&props));
}
