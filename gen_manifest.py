#!/usr/bin/env python3
"""Regenerates MANIFEST.json from the table below (kept in one place so it stays valid)."""
import json, subprocess

NOT_APPLICABLE = {
    "C06": "logs::compare is a total pure function of two maps: no schedule, clock, fault or peer to simulate; its system-level consequence is exercised inside C19 (DESIGN.md §5)",
    "C24": "sequential data structure driven by one caller; nothing to schedule or fault; its use under concurrent sessions is exercised inside C23 (DESIGN.md §5)",
    "C32": "commutativity/associativity/idempotence of a pure function over value domains; the replicated consequence (convergence under delivery orders) is C31 (DESIGN.md §5)",
}

# id -> (engine, level category, level text, level note, technique, design_ref)
CHECKS = {
    "C39": ("StepExec", "exploration",
            "Sequential StepExec simulation of 2-4 real p2panda-spaces TestPeers over their SQLite stores: seeded histories of space creation, member add / remove, group operations, key-bundle publication (with clock jumps), application messages and repairs; every message is delivered to every other peer in causal / per-author order, then re-delivered a second time at a seeded later point (also to its author); a Byzantine peer forges properly signed messages of all five SpacesArgs variants with arbitrary contents (promote / demote, unknown groups, wrong-kind or missing dependencies, replayed direct messages, garbled ciphertexts, invalid / expired / foreign key bundles, SpaceUpdate). Second processing must emit no event and leave the canonicalised stored auth and space state unchanged; every process() call returns Ok or Err — a panic is a violation.",
            "Delivery order respects SpacesArgs::dependencies() and per-author log order, as the crate's tests do and backlink validation upstream guarantees. Panics in local API calls or queries are outside the property (counted as probes).",
            "deterministic simulation with fault injection: duplicate delivery and Byzantine messages against stored-state snapshots", "§4 C39"),
    "C16": ("StepExec+DES", "exploration",
            "Two-phase simulation: under StepExec the real AddressBook (SQLite), a harness probe manager actor and the real Gossip hand out one GossipHandle through the slow path; under DES the real EphemeralStreamPublisher / EphemeralStreamSubscription run over it while the harness plays the overlay: reorder, duplicate, burst beyond the broadcast capacity (Lagged), bit flips, re-signing by another key under the original author, replaced author / body / timestamp, wrong version, undecodable frames, outsider republish; the wall-clock seam freezes and jumps back / forward between publishes. Every published frame must verify for its publisher with strictly increasing (timestamp, logical) and be byte-distinct; every yielded message must be exactly the authentic frame that poll consumed; invalid frames are never yielded.",
            "Needs hooks H4 and H3b. The overlay (iroh-gossip) is the harness; the publisher's OperationForge is built over a lazily connecting pool (only its signing key is used on this path).",
            "deterministic simulation with fault injection: Byzantine overlay and clock faults on the ephemeral stream", "§4 C16"),
    "C17": ("StepExec+DES", "exploration",
            "Same world as C16: a fault phase delivers invalid frames and bursts that lag the broadcast channel, then faults stop; the consumer awaits next() and is polled only when its own waker fires; every valid frame still queued must be yielded within 60 simulated seconds.",
            "Needs hooks H4 and H3b. tokio::time::timeout is deliberately not used around next() (its deadline re-poll would mask a missing waker).",
            "deterministic simulation with fault injection: liveness after faults stop, waker-driven polling", "§4 C17"),
    "C29": ("StepExec", "exploration",
            "StepExec over the real Gossip API object, the real AddressBook (SQLite, slow path of Gossip::stream) and a harness probe manager actor that logs Subscribe / Unsubscribe in mailbox order and owns the channels: 2-4 activities do stream / subscribe / clone / drop on 1-2 topics in seeded order; the H4 yield point parks a caller between has_subscriptions() and guard.clone() so that another activity can drop the last handle inside the window; Subscribe replies can be held back. After every step: live handles imply the topic's last logged event is Subscribe and a marker published through each new handle arrives in that session; never two Subscribes in a row; no live handle at quiescence implies Unsubscribe last; every stream() call returns.",
            "Needs hook H4. Parks on Gossip's RwLocks are classified exactly by a wrapper around each call; the overlay itself (iroh-gossip) is not run.",
            "deterministic simulation: seeded interleavings of handle lifecycle operations with a preemption point inside the check/clone window", "§4 C29"),
    "C02": ("StepExec", "exploration",
            "Relay simulation A -> B -> C with the hasher-seed seam as the controlled nondeterminism: A signs headers with every extension kind (unit, derived struct, Node basic, Node causal with 0-8 `previous` hashes via a CBOR-identical mirror type) and boundary-width values; the header travels as LogSyncMessage::Operation bytes to B, is decoded into fresh values (fresh hasher keys), inserted into and read back from a real in-memory SqliteStore (which re-encodes it), and forwarded to C; in the faulty mode every decode is repeated and the whole relay is re-executed on a second thread with different hasher keys. At every hop decode(bytes) == header, header.to_bytes() == bytes, hash() equals the id A assigned, verify() holds, stored bytes equal signed bytes, and both executions' wire transcripts are byte-identical.",
            "Weakest fit of the family (close to a pure function); claimed because its failure mode is an uncontrolled nondeterminism source (HashSet iteration order) which the getrandom seam makes replayable and which shows up as a replication failure two hops away. The LogSync session loop itself is not run here (C19 does).",
            "deterministic simulation: relay over store and wire under controlled hasher seeds", "§4 C02"),
    "C25": ("DES", "fault_enumeration",
            "Both real handshake roles over SimDuplex under seeded latencies, capacities and schedules; then per run a reference execution records both transcripts and sink-operation counts and each role is re-run against a scripted remote once per fault point: stream closed after k messages, message k replaced by every other variant (incl. another topic), an extra message inserted before k, a stream error item at k, a sink error from sink operation k, for every k; plus a mode with both real sides and one seeded link fault. A three-line model of the handshake predicts Ok(topic) / Err; the real side must return before the 600 s simulated watchdog with exactly that outcome — never a wrong topic, never a hang.",
            "Transport and (in the enumeration mode) the remote are harness scripts replaying a real remote's transcript.",
            "deterministic simulation with fault enumeration: every transcript position and sink operation of the handshake as fault point", "§4 C25"),
    "C15": ("StepExec", "fault_enumeration",
            "Node-level simulation through the public API of the real p2panda::Node on a file database (network stack spawned but idle): a seeded script of publish / prune / import / ack steps is re-executed once per crash position — after every step (node, streams and runtime dropped without shutdown) and, in a child process, abort() at every occurrence of each armed crash point inside the code (after the forge's commit, after the pipeline result, after the cursor update; hook H6). After each crash the durable state is read back, a new node on the same key and database replays from the frontier, and the replayed ids must equal {stored operations with a body above the durable cursor}; nothing the application acknowledged successfully is replayed; with explicit acks a second restart replays what is then durable.",
            "Crash model: process death with intact OS page cache (SQLite durability trusted). Uses bounded real-time waits (5 s for an expected replay, 150 ms to confirm an empty one), so it is the one check whose cost depends on machine load; sequential, one API call in flight.",
            "deterministic workload with fault enumeration: every step boundary and every armed crash point as process-crash position, replay compared with a durable-state model", "§4 C15"),
    "C30": ("StepExec", "exploration",
            "Two StepExec activities run the real PsiHashDiscoveryProtocol alice / bob roles over SimDuplex carrying the production postcard bytes, each with its own in-memory SQLite address book: seeded topic sets (0-100 % overlap, shared 31-byte prefixes, empty sides), address books with per-node topic sets, restricted sharing on / off; both results must equal the exact intersection, no raw 32-byte topic (of either side or of address-book nodes) may occur in the postcard or CBOR bytes or hex of any message, restricted sharing sends only nodes with a common topic plus self; with a stream close / sink error / stream error at message k the hit side returns Err, nobody hangs and any Ok result is still correct.",
            "Local topics and node infos come from the crate's test_utils stubs. Salts are drawn from rand::rng() inside the protocol (a function of the run seed through the interposed getrandom); no oracle or trace depends on them.",
            "deterministic simulation with fault injection: two protocol roles over a simulated duplex with close / error faults, wire-leak oracle", "§4 C30"),
    "C22": ("DES", "fault_enumeration",
            "Two layers. (a) Every session of a seeded 2-5 peer sync network (real TopicSyncManager sessions talking to each other, optionally with latencies and a cut link) is checked against the lifecycle automaton SessionStarted SyncStarted Op* SyncFinished (LiveModeStarted Op*)? (SessionFinished | Failed), Failed from any state, exactly one terminal event once run() returned, nothing after it. (b) Per generated two-replica scenario a reference execution records the remote's transcript and the local sink operations; the real session is then re-run against a scripted remote once per fault point: stream closed after k messages, message k replaced by each unexpected variant, stream error item at k, sink error from sink operation k (poll_ready / start_send / poll_flush / poll_close counted separately), for every k, with and without live mode.",
            "Store is MemStore; in (b) the remote is a script replaying a real remote's recorded messages. A run() that does not return within 600 simulated seconds is a hang.",
            "deterministic simulation with fault enumeration: every transcript position and every sink operation as fault point, lifecycle automaton oracle", "§4 C22"),
    "C23": ("DES", "exploration",
            "Discrete-event simulation of 2-5 peers (line / star / ring / mesh), each with a real TopicSyncManager, ManagerEventStream consumer (ingesting through real ingest_operation) and live-mode TopicLogSync sessions over SimDuplex; operations are published at seeded peers and instants while copies travel over several paths, optionally one link is cut. Oracles on the transcripts (with global send / delivery sequence numbers): per session every operation at most once; never sent back over the session it arrived on; the manager's stream yields every operation at most once; while the graph stays connected every peer ends up holding every operation within 120 simulated seconds.",
            "The topic manager's fan-out of locally published operations is done by the harness (ToSync::Payload to every session handle of the publisher). De-duplication window is the default 1024 (> operations per run).",
            "deterministic simulation with fault injection: multi-path live forwarding under seeded latencies and connection loss", "§4 C23"),
    "C31": ("World", "exploration",
            "Network-world simulation of 3-5 replicas with real GroupCrdtState (StrongRemove resolver), unit and totally ordered conditions: members act concurrently while partitioned (create, add, remove, promote, demote, nested groups, weighted conflict scenarios such as the same level with and without a condition), messages travel through per-replica causal buffers with reorder, duplicate, partition / heal, and states occasionally take a CBOR round trip; replicas with equal processed sets, a CBOR-reloaded twin, a canonical replica built on a second thread (different hasher keys) and repeated queries on one replica must all report identical members / root_members with identical access.",
            "Causal delivery (dependencies first) is provided by the harness, as the stack above the crate guarantees. members() is not called when the harness computes more than 5000 walks through nesting cycles (reported as its own finding instead).",
            "deterministic simulation with fault injection: concurrent authorship, reordering, duplication, partitions over real group CRDT replicas", "§4 C31"),
    "C33": ("World", "exploration",
            "Same world as C31 plus Byzantine authors: any identity emits any action on any target with current or stale dependencies (non-members, removed members, non-managers, forged operations in a manager's name); for every accepted non-create operation an independent verdict is computed (sequential replay of the documented rules when the causal past is a chain, otherwise a canonical replica fed exactly the causal past): the author must be an active manager (or self-removing) and the action valid at the declared dependencies; every reported member must trace back to an accepted create / add.",
            "Verdicts on states that are themselves order-dependent (C31 finding) are inconclusive and skipped. 'Rejected leaves the replica unchanged' is structural (state passed by value) and additionally compared on CBOR dumps.",
            "deterministic simulation with fault injection: Byzantine group operations against an independent authorization model", "§4 C31/C33"),
    "C10": ("StepExec", "exploration",
            "Seeded seam-to-seam schedules of 2-5 concurrent writers over the real SqliteStore transaction machinery (Semaphore(1) in begin, commit, rollback, TransactionPermit::drop with its spawned rollback) on a 1-connection in-memory pool and a 4-connection file database; transactions of read-modify-write steps end in commit / rollback / dropped permit or are cancelled at a store-call boundary or while parked in begin(); the committed state read through the pool must equal the fold of the committed transactions in commit order (shared log gap-free, one entry per committed append), aborted transactions leave no trace, and every surviving writer's begin() completes.",
            "TxModel mirrors tokio's FIFO semaphore to classify a Pending begin() exactly (parked vs. waiting for SQLite). Dropping a writer while a pool-level command is in flight (sqlx discards the connection) is outside this check.",
            "deterministic simulation with fault injection: concurrent writers, aborts and cancellations against a serial-fold model", "§4 C10"),
    "C13": ("DES", "exploration",
            "Discrete-event simulation of the real ProcessorStream / Buffer / ComposedProcessors / Pipeline layers over cancel-safe FIFO stub stages with seeded latencies and drop guards: 1-20 inputs with seeded arrival gaps, 1-3 stages stacked or composed, seeded consumer polling and task schedule; every input must yield exactly one output (Ok through all stages, or its error), Ok outputs in input order, all within 60 simulated seconds after the stream goes quiet.",
            "Processors are stubs so that every loss is attributable to the layers (the real Ingest / LogPrune / Orderer processors are exercised by C01-C05, C11, C12). Errors may overtake earlier Ok items (not constrained by the property).",
            "deterministic simulation: seeded latencies and schedules make Buffer's select! cancel next() at every await point", "§4 C13"),
    "C18": ("World", "exploration",
            "World simulation with the wall-clock seam: chains of HybridTimestamp::increment and of self-published transport records (increment_timestamp + sign, as discovery does) under clock readings that tick, freeze, jump forward, jump back or return exactly to an earlier reading; every increment must be strictly greater than its input and every successive record must be accepted as newer by an in-order remote NodeInfo.",
            "Wall clock through the interposed CLOCK_REALTIME (asserted at the start of each run). Not explored: logical counter at u64::MAX, clock before 1970.",
            "deterministic simulation with fault injection: clock skew and jumps", "§4 C18"),
    "C26": ("DES", "exploration",
            "Discrete-event simulation of the real Codec behind FramedWrite / FramedRead over a simulated byte pipe with seeded chunk sizes, Pending insertions, short writes, bounded buffer and EOF at byte k; messages of boundary sizes, real operations and every TopicLogSyncMessage variant, max_frame_len at len-1 / len / len+1 and hand-built oversized frames; decoded sequence must equal the encoded one, oversized frames are rejected on both sides and no smaller frame is, a truncated stream never yields a wrong message, no hang.",
            "Frame boundaries of the oracle come from an independent postcard encoding of each message.",
            "deterministic simulation with fault injection: arbitrary chunking, short writes, truncation of a simulated byte stream", "§4 C26"),
    "C27": ("StepExec", "exploration",
            "Sequential simulation of the real AddressBook actor over in-memory SQLite: per node, authentic, forged, tampered, mismatched and trusted records with distinct and equal timestamps delivered in seeded order with duplicates; a last-write-wins register model predicts the stored record and the returned flag after every delivery; inauthentic records must fail and leave the book unchanged.",
            "One request in flight at a time (the actor is awaited). Trusted: SQLite, ractor.",
            "deterministic simulation with fault injection: reordered / duplicated / forged transport records against an LWW model", "§4 C27"),
    "C28": ("World", "exploration",
            "World simulation with a mock monotonic clock (hook H5): seeds x default and generated configurations x sequences of increment / reset / clock advance (steady and jumps around the drawn reset interval); after every call initial <= value <= max, and an increment that finds the reset interval elapsed leaves value == initial.",
            "Needs hook H5 (Backoff reads mock_instant under the guard; hidden re-export). Config values with empty ranges are out of scope (no public constructor).",
            "deterministic simulation: mock clock jumps against interval bounds", "§4 C28"),
    "C35": ("World", "exploration",
            "Network-world simulation of 3-6 participants with real key managers, registries, EncryptionGroup / DCGKA / 2SM / SecretBundle and the crate's MessageOrderer: histories of create / add / remove / update / data with concurrency, delivered by a harness causal broadcast with reordering inside the causal constraints, duplicates and partitions that heal; at quiescence every current member must hold and report the same latest secret and decrypt every other member's data, and no removed member may hold a secret generated after its removal was applied.",
            "Causal delivery is provided by the harness (as the stack above the crate must); the group-membership CRDT is a two-phase set stub (SimDgm) because the crate's TestDgm never welcomes an added member. HPKE inside hpke-rs draws OS randomness; no outcome depends on ciphertext bytes.",
            "deterministic simulation with fault injection: causal broadcast with reorder / duplicate / partition over real group-encryption state", "§4 C35"),
    "C37": ("World", "exploration",
            "World simulation of Alice and Bob with real KeyManagers and TwoParty states: messages in both directions (incl. concurrent initiation), arbitrary interleaving across directions with FIFO per direction, and replays of already processed messages at seeded later points; every first delivery must decrypt to exactly its plaintext, every replay must be rejected, later messages must still decrypt.",
            "One-time and long-term pre-key bundle modes. On Err the receiver keeps the state it passed in (state-passing API).",
            "deterministic simulation with fault injection: interleaving and replay of two-party messages", "§4 C37"),
    "C11": ("StepExec", "exploration",
            "Seeded search over random dependency DAGs (chains, diamonds, repeated dependency entries, dependencies that never arrive) and delivery orders with duplicates — plus every delivery permutation of small DAGs — through the real Orderer processor over the real SQLite OrdererStore; safety on the output sequence (every dependency, as a set, released earlier), completeness against the least fixpoint of 'all dependencies released'.",
            "One process()/next() call in flight at a time, next() cancelled when it parks with nothing ready (as Buffer does). An item may be released more than once after a duplicate delivery (the property does not forbid it).",
            "deterministic simulation: seeded and exhaustive delivery orders against a fixpoint model", "§4 C11"),
    "C12": ("StepExec", "fault_enumeration",
            "Per generated scenario a reference execution records the store calls of one next(); the scenario is then re-executed once per cancellation point — before store call k and while store call k is in flight on the SQLite worker, for every k — each on a fresh store and thread; afterwards the remaining input is processed and the orderer drained; the multiset of outputs must cover the model's released set and the orderer must stay usable.",
            "Cancellation points are store-call boundaries and the first Pending inside a store call (an attempt in which the worker answered before the first poll completed is repeated). Trusted: sqlx semantics of dropped futures.",
            "deterministic simulation with fault enumeration: every await point of Orderer::next as cancellation point on real SQLite", "§4 C12"),
    "C34": ("World", "exploration",
            "Network-world simulation: a real RatchetSecret sender chain and a real DecryptionRatchet receiver connected by a datagram pool that reorders, loses, duplicates and forges generations within and beyond the windows (ooo_tolerance, max_forward in 0..8 and larger); a RatchetModel (head, windows, skipped-unused set) predicts every call: in-window fresh => exactly the sender's key and nonce, at most once per generation; otherwise the documented error.",
            "Synchronous code, no executor involved; the simulated network and choice stream are the whole machinery. Trusted: the crypto primitives.",
            "deterministic simulation with fault injection: reorder / loss / duplication / forged generations against a window model", "§4 C34"),
    "C36": ("World", "exploration",
            "Network-world simulation: 2-4 replicas with real SecretBundleState receive the same secrets (colliding timestamps, extreme timestamps) through insert / extend / merge in different orders, with duplicates, removals, CBOR reloads and the wall-clock seam behind / equal / ahead of the latest at generate; after every operation latest() must be the max by (timestamp, id) of a per-replica model, equal-content replicas agree, and a generated secret is strictly later than the current latest (or generate refuses).",
            "Wall clock through the interposed CLOCK_REALTIME (asserted to be the clock the crate reads at the start of every run).",
            "deterministic simulation with fault injection: delivery-order and clock faults against a max-by-(timestamp,id) model", "§4 C36"),
    "C38": ("World", "exploration",
            "World simulation of one KeyRegistryState under a controlled wall clock: bundles with lifetimes around now (valid, expiring, expired, not yet valid, degenerate) and corrupted signatures are added, the clock jumps forward and back between add and query; adding a certainly-invalid bundle must fail, and key_bundle() (long-term and one-time) must never return a bundle that is outside its lifetime at query time or was not correctly signed.",
            "Lifetime end points (now == not_before / not_after) are accepted either way because the property does not fix them. Signature bit 255 malleability of XEdDSA is not counted as corruption.",
            "deterministic simulation with fault injection: clock jumps and corrupted bundles against recorded lifetimes", "§4 C38"),
    "C08": ("StepExec", "exploration",
            "Differential simulation: random command sequences (transactions ending in commit / rollback / dropped permit, inserts, deletes, payload deletions, prunes, dirty restarts of a file database) against real SqliteStore and the in-memory reference model, every log query (latest entry, heights over arbitrary id sets incl. empty / unknown / repeated, ranged entries and sizes with boundary after/until values) compared call by call; panics are violations.",
            "One client, one call in flight. Empty range in get_log_size may be None or (0,0). Trusted: SQLite/sqlx.",
            "deterministic simulation: differential command sequences against a reference model, with restart faults", "§4 C08"),
    "C09": ("StepExec", "exploration",
            "Same differential simulation as C08; clauses owned here: operation store (insert true exactly once, read-back equality of id / header bytes / body, delete, payload deletion, _tx methods without transaction fail), topic store as a set of triples, cursor store last-write-wins, all also after dirty restarts.",
            "One client, one call in flight; pool-level writes are not issued while a transaction is open.",
            "deterministic simulation: differential command sequences against a reference model, with restart faults", "§4 C08/C09"),
    "C01": ("StepExec", "exploration",
            "Seeded search over delivery schedules in which a network adversary adds forged copies of honest operations, each with exactly one of 17 mutation kinds (bit flips through the real CBOR decoder, body changes, every header field incl. extensions, signature strip / replace / re-sign, author-signed malformed headers), before or after the honest copy; every forged copy must be rejected with the store dump unchanged, and everything ever stored must be byte-identical to what an honest author signed.",
            "Sequential ingest calls on real SQLite (and on MemStore for volume). The node-level import / sync entry points are covered by C04's node scenario. Trusted: ed25519/blake3, SQLite.",
            "deterministic simulation with fault injection: network adversary tampering operations, store-dump oracle", "§4 C01"),
    "C03": ("StepExec", "exploration",
            "Seeded search over delivery orders (drop, duplicate, neighbour swap, long delay, shuffle, forged copies) checked delivery by delivery against LogModel (predicts inserted / exists / rejected) and by reading the affected log back: unique seqs, backlinks of unflagged entries, monotone height.",
            "Sequential ingest calls (transaction interleavings are C10); authors never equivocate.",
            "deterministic simulation: seeded delivery schedules against a reference log model", "§4 C03"),
    "C05": ("StepExec", "exploration",
            "As C03 with many prune points, the real LogPrune step always on and long-delay reordering so that older flagged / unflagged operations arrive after a newer prune point; invariant after every delivery: no entry below the highest accepted prune point.",
            "Sequential ingest + prune as the node pipeline runs them (ingest then prune for accepted operations).",
            "deterministic simulation: delayed delivery of old prune points, floor invariant", "§4 C05"),
    "C19": ("StepExec+DES", "exploration",
            "Seeded search over generated two-replica histories (prefix/pruned/unknown/out-of-scope logs) and schedules; both real sessions run to completion and the emitted OperationReceived events are compared with the exact set difference computed from the replicas' contents; heights compared after real ingest. Sampling: a clean batch is evidence, not proof.",
            "Trusted: SQLite/sqlx, tokio, the harness; DES modes use MemStore (differentially tested against SqliteStore by C08/C09). Authors never equivocate; transport reliable and ordered.",
            "deterministic simulation: two real sync sessions over a simulated duplex, seeded schedules, set-difference oracle", "§4 C19"),
    "C20": ("StepExec+DES", "exploration",
            "Seeded search over schedules in which a concurrent prune lands between any two store calls of either session (GatedStore gates on SQLite, latency points on MemStore); each side's wire transcript is checked against the grammar Have (Done | PreSync Operation* Done).",
            "Same trusted base as C19; interference is one prune_entries call per run (prefix or whole log).",
            "deterministic simulation with fault injection: concurrent prune at seeded store-call boundaries, transcript grammar oracle", "§4 C20"),
    "C21": ("StepExec+DES", "exploration",
            "Seeded search over data volumes and transport capacities {1,2,4,16,64,512,unbounded}; bounded liveness oracle: both sessions return before quiescence / the simulated 1 h watchdog, with hang attribution from the seams (who is parked where).",
            "Message-count capacity of SimDuplex stands for the byte capacity of the QUIC stream and codec buffers.",
            "deterministic simulation: bounded-capacity simulated transport, quiescence = deadlock detection", "§4 C21"),
}

ALL = [json.loads(l)["id"] for l in open("/verif/properties.jsonl")]

def main():
    checks = []
    for pid in ALL:
        if pid not in CHECKS:
            continue
        engine, cat, text, note, tech, ref = CHECKS[pid]
        checks.append({
            "property_id": pid,
            "quick_cmd": f"./check {pid} --tier quick",
            "thorough_cmd": f"./check {pid} --tier thorough",
            "evidence_file": f"evidence/{pid}.json",
            "replay_cmd_template": f"./check {pid} --replay {{path}}",
            "engine": engine,
            "level_claimed": {"category": cat, "text": text, "design_ref": ref},
            "level_note": note,
            "technique": tech,
        })
    na = []
    for pid in ALL:
        if pid in CHECKS:
            continue
        reason = NOT_APPLICABLE.get(pid, "no check registered yet: the simulation for this property (DESIGN.md §4) has not been built; nothing is claimed")
        na.append({"property_id": pid, "reason": reason})
    hooks_commits = []
    try:
        out = subprocess.run(["git", "-C", "/repo", "log", "--format=%H %s"], capture_output=True, text=True).stdout
        hooks_commits = [l.split()[0] for l in out.splitlines() if l.split(" ", 1)[1].startswith("verif hook")]
    except Exception:
        pass
    m = {
        "version": 1,
        "setup_cmd": "./check --setup",
        "notes": "Deterministic simulation with fault injection (DESIGN.md). One binary per dependency weight: p2sim (core/store/stream/sync/auth/encryption/discovery/spaces) and p2sim-net (p2panda, p2panda-net). Every check rebuilds from /repo's working tree (path dependencies) with the hook guard on.",
        "hooks": {
            "guard": "p2panda_p2panda_verif",
            "enable": "RUSTFLAGS=\"--cfg p2panda_p2panda_verif --cfg tokio_unstable\" (set in /verif/sim/.cargo/config.toml)",
            "baseline_off_cmd": "cd /repo && cargo nextest run --workspace --no-fail-fast --test-threads 8 --offline || cargo test --workspace --no-fail-fast --offline",
            "source_commits": hooks_commits,
            "add_only": False,
        },
        "engines": [
            {"name": "StepExec", "path": "sim/simcore/src/stepexec.rs", "kind_free_text": "single-poller seam-to-seam executor over real SQLite on a real-time tokio current-thread runtime", "serves_properties": [p for p in CHECKS if "StepExec" in CHECKS[p][0]]},
            {"name": "DES", "path": "sim/simcore/src/des.rs", "kind_free_text": "discrete-event simulation on tokio's paused clock with PRNG deferral and seeded select!", "serves_properties": [p for p in CHECKS if "DES" in CHECKS[p][0]]},
            {"name": "World", "path": "sim/simworld", "kind_free_text": "synchronous state-passing replicas over a simulated network / clock", "serves_properties": [p for p in CHECKS if "World" in CHECKS[p][0]]},
        ],
        "checks": checks,
        "not_applicable": na,
    }
    json.dump(m, open("/verif/MANIFEST.json", "w"), indent=1)
    print(f"{len(checks)} checks, {len(na)} not claimed")

main()
