pub mod c37;
pub mod util;

pub fn all() -> Vec<&'static dyn simcore::Property> {
    vec![&c37::C37]
}
