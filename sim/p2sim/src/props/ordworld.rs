//! Orderer world: random dependency DAGs delivered in arbitrary orders (with duplicates, repeated
//! dependency entries and dependencies that never arrive) to the real `CausalOrderer` / `Orderer`
//! processor over the real SQLite `OrdererStore`. Shared by C11 and C12.

use std::cell::RefCell;
use std::collections::{BTreeMap, BTreeSet};
use std::rc::Rc;

use p2panda_core::Hash;
use p2panda_store::orderer::OrdererStore;
use p2panda_store::{SqliteStore, Transaction};
use p2panda_stream::Processor;
use p2panda_stream::orderer::Orderer;
use simcore::stepexec::{self, Policy, Step, StepExec};
use simcore::{ctx, ev};
use simworld::gated::Gate;
use simworld::logworld::{short, signing_key};
use simworld::ordstore::{DagItem, OrdStore};
use simworld::populate::sqlite_memory;

pub struct Dag {
    pub items: Vec<DagItem>,
    /// Dependency list per item as given to the orderer (may repeat entries, may name phantoms).
    pub deps: Vec<Vec<Hash>>,
    pub phantoms: BTreeSet<Hash>,
}

impl Dag {
    pub fn generate(max_nodes: usize) -> Dag {
        let key = signing_key(0);
        let n = ctx::range("dag.nodes", 1, max_nodes);
        let mut items: Vec<DagItem> = vec![];
        let mut deps: Vec<Vec<Hash>> = vec![];
        let mut phantoms = BTreeSet::new();
        for i in 0..n {
            let mut d: Vec<Hash> = vec![];
            if i > 0 {
                let k = ctx::choose("dag.ndeps", 4.min(i + 1));
                for _ in 0..k {
                    // Bias towards recent nodes so that chains and diamonds appear.
                    let j = if ctx::chance("dag.recent", 1, 2) { i - 1 - ctx::choose("dag.back", 2.min(i)) } else { ctx::choose("dag.dep", i) };
                    d.push(items[j].id());
                }
            }
            if ctx::chance("dag.phantom", 1, 12) {
                let p = Hash::digest(format!("phantom-{i}"));
                phantoms.insert(p);
                d.push(p);
                ctx::probe("dependency_never_delivered");
            }
            if !d.is_empty() && ctx::chance("dag.repeat", 1, 5) {
                let r = *ctx::pick("dag.repeat_which", &d);
                d.push(r);
                ctx::probe("repeated_dependency_entry");
            }
            let item = DagItem::new(&key, i as u64, d.clone());
            items.push(item);
            deps.push(d);
        }
        Dag { items, deps, phantoms }
    }

    pub fn index_of(&self, h: &Hash) -> Option<usize> {
        self.items.iter().position(|i| i.id() == *h)
    }

    pub fn dep_set(&self, i: usize) -> BTreeSet<Hash> {
        self.deps[i].iter().copied().collect()
    }

    pub fn describe(&self) -> String {
        self.items
            .iter()
            .enumerate()
            .map(|(i, _)| {
                let d: Vec<String> = self.deps[i].iter().map(|h| self.index_of(h).map(|j| j.to_string()).unwrap_or_else(|| format!("phantom:{}", short(h)))).collect();
                format!("{i}<-[{}]", d.join(","))
            })
            .collect::<Vec<_>>()
            .join(" ")
    }

    /// Least fixpoint: items (among `delivered`) whose dependency *set* is entirely released.
    pub fn released_fixpoint(&self, delivered: &BTreeSet<usize>) -> BTreeSet<usize> {
        let mut r: BTreeSet<usize> = BTreeSet::new();
        loop {
            let mut changed = false;
            for i in delivered {
                if r.contains(i) {
                    continue;
                }
                let ok = self.dep_set(*i).iter().all(|h| self.index_of(h).map(|j| r.contains(&j)).unwrap_or(false));
                if ok {
                    r.insert(*i);
                    changed = true;
                }
            }
            if !changed {
                return r;
            }
        }
    }
}

pub fn delivery_order(dag: &Dag, faults: bool) -> Vec<usize> {
    let mut order: Vec<usize> = (0..dag.items.len()).collect();
    if faults {
        ctx::shuffle("deliver.order", &mut order);
        if order.iter().enumerate().any(|(p, i)| p != *i) {
            ctx::fault("reorder");
        }
        let n = order.len();
        for _ in 0..ctx::choose("deliver.dups", 3) {
            let which = order[ctx::choose("deliver.dup_which", n)];
            let at = ctx::choose("deliver.dup_at", order.len() + 1);
            order.insert(at, which);
            ctx::fault("duplicate");
        }
    }
    order
}

/// Safety clause shared by both levels: every dependency (as a set) was output before.
pub fn check_safety(dag: &Dag, outputs: &[usize], site: &str) {
    let mut seen: BTreeSet<usize> = BTreeSet::new();
    for o in outputs {
        for h in dag.dep_set(*o) {
            match dag.index_of(&h) {
                Some(j) if seen.contains(&j) => {}
                Some(j) => simcore::violation("released-before-dependency", site, format!("item {o} was released before its dependency {j}; outputs {outputs:?}; dag {}", dag.describe())),
                None => simcore::violation("released-with-missing-dependency", site, format!("item {o} was released although dependency {} never arrived; dag {}", short(&h), dag.describe())),
            }
        }
        seen.insert(*o);
    }
}

pub fn check_liveness(dag: &Dag, delivered: &BTreeSet<usize>, outputs: &[usize], site: &str) {
    let expect = dag.released_fixpoint(delivered);
    let got: BTreeSet<usize> = outputs.iter().copied().collect();
    for e in &expect {
        if !got.contains(e) {
            // Attribute: does the lost item have a repeated dependency entry, or share a pending
            // parent with another dependency?
            let reps = dag.deps[*e].len() != dag.dep_set(*e).len();
            let multi = dag.dep_set(*e).len() >= 2;
            let s = if reps { "item with a repeated dependency entry" } else if multi { "item with several dependencies" } else { "item with a single dependency" };
            simcore::violation("ready-item-never-released", &format!("{site}: {s}"), format!("item {e} has all dependencies released but was not released after draining; outputs {outputs:?}; delivery-complete fixpoint {expect:?}; dag {}", dag.describe()));
            return;
        }
    }
    for g in &got {
        if !expect.contains(g) {
            simcore::violation("released-but-not-ready", site, format!("item {g} released; model fixpoint {expect:?}; dag {}", dag.describe()));
        }
    }
}

// ------------------------------------------------------------------------------------------------
// Level B: the `Orderer` processor over OrdStore<SqliteStore>, `next()` driven as a StepExec
// activity so that it can be cancelled at chosen points (C12) or when it parks on `notify`.
// ------------------------------------------------------------------------------------------------

#[derive(Default)]
pub struct GateState {
    pub calls: u64,
    pub log: Vec<&'static str>,
    /// Cancel the current activity right before store call #k (counted from `base`).
    pub cancel_before: Option<u64>,
    /// Cancel the current activity while store call #k is in flight.
    pub cancel_in_flight: Option<u64>,
    pub base: u64,
    pub armed_in_flight: bool,
    pub cancelled_at: Option<(u64, &'static str, &'static str)>,
    pub missed_window: bool,
}

#[derive(Clone)]
pub struct OrdGate {
    pub st: Rc<RefCell<GateState>>,
}

impl Gate for OrdGate {
    async fn before(&self, method: &'static str) -> Result<(), String> {
        let (before, in_flight) = {
            let mut s = self.st.borrow_mut();
            let idx = s.calls - s.base;
            s.calls += 1;
            s.log.push(method);
            let b = s.cancel_before == Some(idx);
            let f = s.cancel_in_flight == Some(idx);
            if b {
                s.cancel_before = None;
                s.cancelled_at = Some((idx, method, "before"));
            }
            if f {
                s.cancel_in_flight = None;
                s.armed_in_flight = true;
                s.cancelled_at = Some((idx, method, "in-flight"));
            }
            (b, f)
        };
        if before {
            stepexec::request_cancel_now();
            stepexec::gate().await;
        }
        if in_flight {
            stepexec::request_cancel_in_flight();
        }
        Ok(())
    }
    fn after(&self, _method: &'static str) {
        let mut s = self.st.borrow_mut();
        if s.armed_in_flight {
            // The call completed without ever being Pending: the in-flight window was missed.
            s.armed_in_flight = false;
            s.missed_window = true;
            s.cancelled_at = None;
            stepexec::clear_cancel_requests();
        }
    }
}

pub type OStore = OrdStore<SqliteStore, OrdGate>;
pub type Ord = Orderer<DagItem, Hash, OStore>;

pub struct LevelB {
    pub sqlite: SqliteStore,
    pub store: OStore,
    pub orderer: Rc<Ord>,
    pub gate: Rc<RefCell<GateState>>,
}

pub async fn setup_level_b(dag: &Dag) -> LevelB {
    let sqlite = sqlite_memory().await;
    // All items exist in the operation store (the orderer only orders ids, `next` looks them up).
    {
        use p2panda_store::operations::OperationStore;
        let permit = sqlite.begin().await.expect("begin");
        for it in &dag.items {
            sqlite.insert_operation(&it.id(), &it.0, &0u64).await.expect("insert");
        }
        sqlite.commit(permit).await.expect("commit");
    }
    let gate = Rc::new(RefCell::new(GateState::default()));
    let store = OrdStore { inner: sqlite.clone(), gate: OrdGate { st: gate.clone() } };
    let orderer = Rc::new(Orderer::new(store.clone()));
    LevelB { sqlite, store, orderer, gate }
}

#[derive(Debug, PartialEq, Eq)]
pub enum NextOutcome {
    Item(usize),
    Error(String),
    /// Parked on `notify` with nothing ready; the harness cancelled it (as `Buffer` would on input).
    ParkedAndCancelled,
    /// Dropped at the requested cancellation point.
    Cancelled,
    Stall,
}

/// Run one `orderer.next()` call as a StepExec activity.
pub async fn drive_next(b: &LevelB, dag: &Dag) -> NextOutcome {
    let out: Rc<RefCell<Option<Result<DagItem, String>>>> = Rc::new(RefCell::new(None));
    let o2 = out.clone();
    let ord = b.orderer.clone();
    let mut ex = StepExec::new();
    ex.detect_deferred_yields = true;
    let act = ex.add("next", Policy::Gated, async move {
        let r = ord.next().await.map_err(|(_, e)| e.to_string());
        *o2.borrow_mut() = Some(r);
    });
    loop {
        match ex.run_activity(act).await {
            Ok(Step::Ran { finished: true, .. }) => break,
            Ok(Step::Cancelled { .. }) => return NextOutcome::Cancelled,
            Ok(Step::Ran { finished: false, .. }) => {
                if ex.runnable().contains(&act) {
                    continue;
                }
                // Parked on a primitive that only another activity can signal.
                ex.cancel(act);
                settle(&b.sqlite).await;
                return NextOutcome::ParkedAndCancelled;
            }
            Ok(Step::Quiescent) => unreachable!(),
            Err(_) => return NextOutcome::Stall,
        }
    }
    match out.borrow_mut().take() {
        Some(Ok(item)) => NextOutcome::Item(dag.index_of(&item.id()).unwrap_or(usize::MAX)),
        Some(Err(e)) => NextOutcome::Error(e),
        None => NextOutcome::Error("next finished without a result".into()),
    }
}

/// Run one `orderer.process(item)` call as a StepExec activity (never cancelled).
pub async fn drive_process(b: &LevelB, item: DagItem) -> Result<(), String> {
    let out: Rc<RefCell<Option<Result<(), String>>>> = Rc::new(RefCell::new(None));
    let o2 = out.clone();
    let ord = b.orderer.clone();
    let mut ex = StepExec::new();
    let act = ex.add("process", Policy::Gated, async move {
        let r = ord.process(item).await.map_err(|(_, e)| e.to_string());
        *o2.borrow_mut() = Some(r);
    });
    loop {
        match ex.run_activity(act).await {
            Ok(Step::Ran { finished: true, .. }) => break,
            Ok(Step::Ran { finished: false, .. }) => {
                if ex.runnable().contains(&act) {
                    continue;
                }
                return Err("process() parked on a primitive nobody signals (deadlock)".into());
            }
            Ok(Step::Cancelled { .. }) => return Err("process() cancelled unexpectedly".into()),
            Ok(Step::Quiescent) => unreachable!(),
            Err(_) => return Err("process() stalled in a store call (watchdog)".into()),
        }
    }
    out.borrow_mut().take().unwrap_or(Err("no result".into()))
}

/// Barrier: returns once every dropped permit's rollback has finished and the transaction
/// semaphore is free again (begin() queues FIFO behind it), so the next harness-level operation
/// starts from a timing-independent state.
pub async fn settle(sqlite: &SqliteStore) {
    if let Ok(p) = sqlite.begin().await {
        let _ = sqlite.rollback(p).await;
    }
}

pub async fn drain(b: &LevelB, dag: &Dag, outputs: &mut Vec<usize>) -> Result<(), String> {
    loop {
        match drive_next(b, dag).await {
            NextOutcome::Item(i) => {
                ev!("   released item {i}");
                outputs.push(i);
            }
            NextOutcome::ParkedAndCancelled => return Ok(()),
            NextOutcome::Cancelled => return Err("unexpected cancel".into()),
            NextOutcome::Error(e) => return Err(e),
            NextOutcome::Stall => return Err("next() stalled in a store call (watchdog)".into()),
        }
    }
}

/// Deliver `order` through `Orderer::process`, draining `next()` after every delivery or only at
/// the end. Fresh store per call.
pub async fn run_seq(dag: &Dag, order: &[usize], drain_each: bool) -> Vec<usize> {
    let b = setup_level_b(dag).await;
    let mut outputs = vec![];
    for (step, i) in order.iter().enumerate() {
        ev!("deliver[{step}] item {i}");
        if let Err(e) = drive_process(&b, dag.items[*i].clone()).await {
            simcore::violation("process-failed", "Orderer::process", e);
            break;
        }
        if drain_each || step + 1 == order.len() {
            if let Err(e) = drain(&b, dag, &mut outputs).await {
                simcore::violation("next-failed", "Orderer::next", e);
                break;
            }
        }
    }
    b.sqlite.pool().close().await;
    outputs
}

pub fn dedupe_keep_first(v: &[usize]) -> Vec<usize> {
    let mut seen = BTreeSet::new();
    v.iter().copied().filter(|x| seen.insert(*x)).collect()
}

pub fn count_map(v: &[usize]) -> BTreeMap<usize, usize> {
    let mut m = BTreeMap::new();
    for x in v {
        *m.entry(*x).or_insert(0) += 1;
    }
    m
}

#[allow(dead_code)]
pub async fn ready_len(store: &SqliteStore) -> usize {
    // Helper for debugging: size of the ready table through the test extension is not public API;
    // the harness derives everything from outputs instead.
    let _ = store;
    0
}

#[allow(dead_code)]
fn _assert_traits() {
    fn is_orderer_store<T: OrdererStore<Hash>>() {}
    is_orderer_store::<SqliteStore>();
}
