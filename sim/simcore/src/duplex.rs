//! `SimDuplex<M>`: the simulated network between two protocol peers, as a `Sink<M>` +
//! `Stream<Item = Result<M, SimIoError>>` pair — exactly the `Protocol::run` signature.
//!
//! Every operation is a scheduling point (voluntary preempt), capacity is a knob, latency is
//! simulated (DES only), and the fault plan can fail the sink from its k-th operation, close the
//! stream after k messages, or rewrite traffic through a tamper hook. Everything that crosses is
//! recorded in a transcript — the ground truth the oracles compare against.

use std::cell::RefCell;
use std::collections::VecDeque;
use std::pin::Pin;
use std::rc::Rc;
use std::task::{Context, Poll, Waker};
use std::time::Duration;

use futures_util::{Sink, Stream};

use crate::{ctx, stepexec};

#[derive(Clone, Debug, PartialEq, Eq)]
pub struct SimIoError(pub String);

impl std::fmt::Display for SimIoError {
    fn fmt(&self, f: &mut std::fmt::Formatter<'_>) -> std::fmt::Result {
        write!(f, "sim io error: {}", self.0)
    }
}
impl std::error::Error for SimIoError {}

#[derive(Clone, Copy, Debug, PartialEq, Eq)]
pub enum Engine {
    Step,
    Des,
}

#[derive(Clone, Debug)]
pub struct LinkConfig {
    pub engine: Engine,
    /// Maximum queued messages; `usize::MAX` = unbounded.
    pub capacity: usize,
    /// Preempt denominator: each sink/stream operation parks once with probability 1/den (0 = never).
    pub preempt_den: usize,
    /// DES: per-message latency choices in microseconds.
    pub latency_us: Vec<u64>,
    /// Fail every sink operation from the k-th on (counting poll_ready, start_send, poll_flush,
    /// poll_close separately, first = 0).
    pub sink_err_from: Option<u64>,
    /// Stream yields an error item instead of the k-th message (first = 0).
    pub stream_err_at: Option<u64>,
    /// Stream ends (None) after k messages were delivered, whatever is queued.
    pub close_after: Option<u64>,
}

impl LinkConfig {
    pub fn new(engine: Engine) -> Self {
        LinkConfig {
            engine,
            capacity: usize::MAX,
            preempt_den: 3,
            latency_us: vec![0],
            sink_err_from: None,
            stream_err_at: None,
            close_after: None,
        }
    }
}

pub struct LinkState<M> {
    pub cfg: LinkConfig,
    q: VecDeque<(M, Option<tokio::time::Instant>)>,
    tx_closed: bool,
    rx_dropped: bool,
    tx_waker: Option<Waker>,
    rx_waker: Option<Waker>,
    /// True while the sender is parked because the queue is full.
    pub tx_blocked_full: bool,
    /// True while the receiver is parked because the queue is empty.
    pub rx_blocked_empty: bool,
    pub sink_ops: u64,
    pub sent: u64,
    pub delivered: u64,
    pub max_queue: usize,
    /// Everything accepted by `start_send`, in order.
    pub transcript: Vec<M>,
    /// Global event sequence number (across all links of the run) of each `start_send`.
    pub sent_seq: Vec<u64>,
    /// Global event sequence number of each delivery to the receiver, in delivery order.
    pub delivered_seq: Vec<u64>,
    /// Optional traffic rewriting (drop / duplicate / mutate): message -> delivered messages.
    pub tamper: Option<Box<dyn FnMut(M) -> Vec<M>>>,
    pub name: &'static str,
}

pub type Link<M> = Rc<RefCell<LinkState<M>>>;

pub struct SimSink<M> {
    pub link: Link<M>,
}

pub struct SimStream<M> {
    pub link: Link<M>,
    sleep: Option<Pin<Box<tokio::time::Sleep>>>,
    polls_after_end: u32,
    pending_polls: u32,
    pending_polls_at_seq: u64,
}

/// Polling an open, empty stream this many times in a row while nothing at all happens on any link
/// of the run is a busy loop in the code under test (a poll loop that never returns `Pending` to
/// its executor).
pub const PENDING_SPIN_LIMIT: u32 = 2_000_000;

/// Polling a finished stream this many times in a row without anything else happening is a busy
/// loop in the code under test (it would spin on the simulator thread forever).
pub const BUSY_LOOP_LIMIT: u32 = 20_000;

thread_local! {
    static SEQ: std::cell::Cell<u64> = const { std::cell::Cell::new(0) };
}

/// Global (per simulator thread) event sequence number: orders sends and deliveries across links.
pub fn next_seq() -> u64 {
    SEQ.with(|s| {
        let v = s.get();
        s.set(v + 1);
        v
    })
}

/// One direction of a connection.
pub fn link<M: Clone>(name: &'static str, cfg: LinkConfig) -> (SimSink<M>, SimStream<M>) {
    let st = Rc::new(RefCell::new(LinkState {
        cfg,
        q: VecDeque::new(),
        tx_closed: false,
        rx_dropped: false,
        tx_waker: None,
        rx_waker: None,
        tx_blocked_full: false,
        rx_blocked_empty: false,
        sink_ops: 0,
        sent: 0,
        delivered: 0,
        max_queue: 0,
        transcript: Vec::new(),
        sent_seq: Vec::new(),
        delivered_seq: Vec::new(),
        tamper: None,
        name,
    }));
    (SimSink { link: st.clone() }, SimStream { link: st, sleep: None, polls_after_end: 0, pending_polls: 0, pending_polls_at_seq: 0 })
}

impl<M> LinkState<M> {
    fn preempt_now(&self) -> bool {
        self.cfg.preempt_den > 0 && ctx::chance("link.preempt", 1, self.cfg.preempt_den)
    }
    pub fn queued(&self) -> usize {
        self.q.len()
    }
    pub fn is_tx_closed(&self) -> bool {
        self.tx_closed
    }
    /// Close from outside (harness-injected connection loss).
    pub fn force_close(&mut self) {
        self.tx_closed = true;
        if let Some(w) = self.rx_waker.take() {
            w.wake();
        }
    }
}

impl<M> SimSink<M> {
    fn op(&self) -> Result<(), SimIoError> {
        let mut c = self.link.borrow_mut();
        let k = c.sink_ops;
        c.sink_ops += 1;
        if let Some(from) = c.cfg.sink_err_from {
            if k >= from {
                if k == from {
                    ctx::fault("sink_err_at");
                }
                return Err(SimIoError(format!("injected sink error at op {k}")));
            }
        }
        Ok(())
    }
}

impl<M: Clone + Unpin> Sink<M> for SimSink<M> {
    type Error = SimIoError;

    fn poll_ready(self: Pin<&mut Self>, cx: &mut Context<'_>) -> Poll<Result<(), SimIoError>> {
        // A full queue or a preempt parks *before* the operation counts.
        {
            let mut c = self.link.borrow_mut();
            if c.rx_dropped {
                return Poll::Ready(Err(SimIoError("receiver dropped".into())));
            }
            let full = c.q.len() >= c.cfg.capacity.max(1);
            if full {
                c.tx_blocked_full = true;
                c.tx_waker = Some(cx.waker().clone());
                stepexec::mark_parked();
                return Poll::Pending;
            }
            c.tx_blocked_full = false;
            if c.preempt_now() {
                stepexec::mark_parked();
                cx.waker().wake_by_ref();
                return Poll::Pending;
            }
        }
        Poll::Ready(self.op())
    }

    fn start_send(self: Pin<&mut Self>, item: M) -> Result<(), SimIoError> {
        self.op()?;
        let mut c = self.link.borrow_mut();
        c.transcript.push(item.clone());
        c.sent_seq.push(next_seq());
        c.sent += 1;
        let items = match c.tamper.as_mut() {
            Some(t) => t(item),
            None => vec![item],
        };
        for it in items {
            let at = if c.cfg.engine == Engine::Des {
                let us = *ctx::pick("link.latency", &c.cfg.latency_us);
                Some(tokio::time::Instant::now() + Duration::from_micros(us))
            } else {
                None
            };
            c.q.push_back((it, at));
        }
        let l = c.q.len();
        if l > c.max_queue {
            c.max_queue = l;
        }
        if let Some(w) = c.rx_waker.take() {
            w.wake();
        }
        Ok(())
    }

    fn poll_flush(self: Pin<&mut Self>, cx: &mut Context<'_>) -> Poll<Result<(), SimIoError>> {
        {
            let c = self.link.borrow();
            if c.preempt_now() {
                stepexec::mark_parked();
                cx.waker().wake_by_ref();
                return Poll::Pending;
            }
        }
        Poll::Ready(self.op())
    }

    fn poll_close(self: Pin<&mut Self>, _cx: &mut Context<'_>) -> Poll<Result<(), SimIoError>> {
        let r = self.op();
        let mut c = self.link.borrow_mut();
        c.tx_closed = true;
        if let Some(w) = c.rx_waker.take() {
            w.wake();
        }
        Poll::Ready(r)
    }
}

impl<M> Drop for SimSink<M> {
    fn drop(&mut self) {
        let mut c = self.link.borrow_mut();
        c.tx_closed = true;
        if let Some(w) = c.rx_waker.take() {
            w.wake();
        }
    }
}

impl<M> Drop for SimStream<M> {
    fn drop(&mut self) {
        let mut c = self.link.borrow_mut();
        c.rx_dropped = true;
        if let Some(w) = c.tx_waker.take() {
            w.wake();
        }
    }
}

impl<M: Unpin> Stream for SimStream<M> {
    type Item = Result<M, SimIoError>;

    fn poll_next(mut self: Pin<&mut Self>, cx: &mut Context<'_>) -> Poll<Option<Self::Item>> {
        let this = &mut *self;
        let mut c = this.link.borrow_mut();
        if let Some(k) = c.cfg.close_after {
            if c.delivered >= k {
                if c.delivered == k {
                    ctx::fault("close_at");
                    c.delivered += 1; // count the fault once
                }
                this.polls_after_end += 1;
                if this.polls_after_end > BUSY_LOOP_LIMIT {
                    let name = c.name;
                    drop(c);
                    crate::ctx::violation("busy-loop", "closed message stream polled again and again without yielding", format!("stream {name} returned None {BUSY_LOOP_LIMIT} times in a row"));
                    panic!("SIM-ABORT busy loop on closed stream {name}");
                }
                return Poll::Ready(None);
            }
        }
        if let Some((_, at)) = c.q.front() {
            if let Some(at) = at {
                let now = tokio::time::Instant::now();
                if *at > now {
                    let mut s = Box::pin(tokio::time::sleep_until(*at));
                    let _ = s.as_mut().poll(cx);
                    this.sleep = Some(s);
                    c.rx_waker = Some(cx.waker().clone());
                    return Poll::Pending;
                }
            }
            if c.preempt_now() {
                stepexec::mark_parked();
                cx.waker().wake_by_ref();
                return Poll::Pending;
            }
            c.rx_blocked_empty = false;
            if let Some(k) = c.cfg.stream_err_at {
                if c.delivered == k {
                    c.delivered += 1;
                    c.q.pop_front();
                    ctx::fault("stream_err_at");
                    return Poll::Ready(Some(Err(SimIoError(format!("injected stream error at {k}")))));
                }
            }
            let (m, _) = c.q.pop_front().unwrap();
            c.delivered += 1;
            c.delivered_seq.push(next_seq());
            if let Some(w) = c.tx_waker.take() {
                w.wake();
            }
            return Poll::Ready(Some(Ok(m)));
        }
        if c.tx_closed {
            this.polls_after_end += 1;
            if this.polls_after_end > BUSY_LOOP_LIMIT {
                let name = c.name;
                drop(c);
                crate::ctx::violation("busy-loop", "closed message stream polled again and again without yielding", format!("stream {name} returned None {BUSY_LOOP_LIMIT} times in a row"));
                panic!("SIM-ABORT busy loop on closed stream {name}");
            }
            return Poll::Ready(None);
        }
        c.rx_blocked_empty = true;
        c.rx_waker = Some(cx.waker().clone());
        stepexec::mark_parked();
        // Spin detection: count polls of the empty stream during which no send / delivery happened
        // anywhere (the global sequence number did not move).
        let seq_now = SEQ.with(|s| s.get());
        if seq_now == this.pending_polls_at_seq {
            this.pending_polls += 1;
            if this.pending_polls > PENDING_SPIN_LIMIT {
                let name = c.name;
                drop(c);
                crate::ctx::violation("busy-loop", "empty message stream polled again and again without yielding to the executor", format!("stream {name} was polled {PENDING_SPIN_LIMIT} times in a row while nothing else happened"));
                panic!("SIM-ABORT busy loop on empty stream {name}");
            }
        } else {
            this.pending_polls_at_seq = seq_now;
            this.pending_polls = 0;
        }
        Poll::Pending
    }
}
