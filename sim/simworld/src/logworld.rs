//! LogWorld: generator of honest append-only log histories (the set **H**) and per-replica views.
//!
//! 2–4 authors (key bytes derived from the run seed, never from OS randomness), 1–3 logs each,
//! 0–N operations per log, bodies absent / small / large, prune points. Authors never equivocate.

use std::collections::BTreeMap;

use p2panda_core::{Body, Hash, Header, Operation, SigningKey, Topic, VerifyingKey};
use serde::{Deserialize, Serialize};
use simcore::ctx;
use simcore::rng::{mix, splitmix64};

pub type LogIdT = u64;
pub type Op = Operation<SimExt>;

/// Header extensions used by the harness: the log id travels in the header (as in the Node's
/// extensions), and the prune flag is what the caller of ingest derives its `prune_flag` from.
#[derive(Clone, Debug, Default, PartialEq, Eq, Serialize, Deserialize)]
pub struct SimExt {
    pub log_id: LogIdT,
    pub prune: bool,
}

pub fn key_bytes(seed: u64, index: u64) -> [u8; 32] {
    let mut st = mix(&[seed, 0x6b65_79, index]);
    let mut out = [0u8; 32];
    for chunk in out.chunks_mut(8) {
        chunk.copy_from_slice(&splitmix64(&mut st).to_le_bytes());
    }
    out
}

pub fn signing_key(index: u64) -> SigningKey {
    SigningKey::from_bytes(&key_bytes(ctx::seed(), index))
}

pub fn topic(index: u64) -> Topic {
    Topic::from(key_bytes(ctx::seed() ^ 0x7470, index))
}

pub fn make_body(seed: u64, kind: usize) -> Option<Body> {
    let len = match kind {
        0 => return None,
        1 => 1 + (seed % 24) as usize,
        2 => 100 + (seed % 200) as usize,
        _ => 2048,
    };
    let mut st = seed;
    let mut v = Vec::with_capacity(len);
    while v.len() < len {
        v.extend_from_slice(&splitmix64(&mut st).to_le_bytes());
    }
    v.truncate(len);
    Some(Body::from(v))
}

pub fn make_op(key: &SigningKey, log_id: LogIdT, seq: u32, backlink: Option<Hash>, prune: bool, body: Option<Body>) -> Op {
    let mut header = Header::<SimExt> {
        version: 1,
        verifying_key: key.verifying_key(),
        signature: None,
        payload_size: body.as_ref().map(|b| b.size()).unwrap_or(0),
        payload_hash: body.as_ref().map(|b| b.hash()),
        seq_num: seq,
        backlink,
        extensions: SimExt { log_id, prune },
    };
    header.sign(key);
    Operation { hash: header.hash(), header, body }
}

#[derive(Clone)]
pub struct LogHistory {
    pub author_idx: usize,
    pub author: VerifyingKey,
    pub log_id: LogIdT,
    pub ops: Vec<Op>,
}

impl LogHistory {
    pub fn prune_points(&self) -> Vec<u32> {
        self.ops.iter().filter(|o| o.header.extensions.prune).map(|o| o.header.seq_num).collect()
    }
}

#[derive(Clone)]
pub struct LogWorld {
    pub keys: Vec<SigningKey>,
    pub logs: Vec<LogHistory>,
}

#[derive(Clone, Debug)]
pub struct WorldParams {
    pub max_authors: usize,
    pub max_logs_per_author: usize,
    pub max_ops_per_log: usize,
    /// Probability numerator (out of 8) that an operation with seq > 0 carries the prune flag.
    pub prune_num: usize,
    pub body_kinds: usize,
    /// Lower bound of a log's length (0 = logs may be empty); for bulk-volume scenarios.
    pub min_ops_per_log: usize,
}

impl Default for WorldParams {
    fn default() -> Self {
        WorldParams { max_authors: 3, max_logs_per_author: 2, max_ops_per_log: 8, prune_num: 1, body_kinds: 4, min_ops_per_log: 0 }
    }
}

impl LogWorld {
    pub fn generate(p: &WorldParams) -> LogWorld {
        let n_authors = ctx::range("world.authors", 1, p.max_authors.max(1));
        let keys: Vec<SigningKey> = (0..n_authors as u64).map(signing_key).collect();
        let mut logs = vec![];
        for (ai, key) in keys.iter().enumerate() {
            let n_logs = ctx::range("world.logs", 1, p.max_logs_per_author.max(1));
            for li in 0..n_logs {
                let log_id = (ai as u64) * 16 + li as u64; // distinct authors may still share ids below
                let log_id = if ctx::chance("world.shared_log_id", 1, 4) { li as u64 } else { log_id };
                let n_ops = if p.min_ops_per_log > 0 { ctx::range("world.ops", p.min_ops_per_log, p.max_ops_per_log.max(p.min_ops_per_log)) } else { ctx::choose("world.ops", p.max_ops_per_log + 1) };
                let mut ops: Vec<Op> = vec![];
                let mut backlink = None;
                for seq in 0..n_ops as u32 {
                    let prune = seq > 0 && p.prune_num > 0 && ctx::chance("world.prune", p.prune_num, 8);
                    let kind = ctx::choose("world.body", p.body_kinds.max(1));
                    let body = make_body(mix(&[ctx::seed(), ai as u64, log_id, seq as u64]), kind);
                    let op = make_op(key, log_id, seq, backlink, prune, body);
                    backlink = Some(op.hash);
                    ops.push(op);
                }
                logs.push(LogHistory { author_idx: ai, author: key.verifying_key(), log_id, ops });
            }
        }
        LogWorld { keys, logs }
    }

    pub fn all_ops(&self) -> Vec<Op> {
        self.logs.iter().flat_map(|l| l.ops.iter().cloned()).collect()
    }

    pub fn by_hash(&self) -> BTreeMap<Hash, Op> {
        self.all_ops().into_iter().map(|o| (o.hash, o)).collect()
    }

    pub fn total_ops(&self) -> usize {
        self.logs.iter().map(|l| l.ops.len()).sum()
    }
}

/// A replica's view of one log of H: the entries `from..=upto` (a pruned prefix removed), or none.
#[derive(Clone, Debug, PartialEq, Eq)]
pub struct LogView {
    pub log_index: usize,
    /// First retained seq (0, or a prune point of this log).
    pub from: u32,
    /// Number of retained ops counted from `from` (0 = replica does not know the log).
    pub upto_exclusive: u32,
}

impl LogView {
    pub fn is_empty(&self) -> bool {
        self.upto_exclusive <= self.from
    }
}

/// Draw a replica view: for each log either unknown, or a prefix, optionally pruned at one of the
/// log's prune points that lies inside the prefix.
pub fn draw_view(world: &LogWorld, label_bias_full: bool) -> Vec<LogView> {
    let mut out = vec![];
    for (i, l) in world.logs.iter().enumerate() {
        let n = l.ops.len() as u32;
        if n == 0 || ctx::chance("view.unknown", 1, 4) {
            out.push(LogView { log_index: i, from: 0, upto_exclusive: 0 });
            continue;
        }
        let upto = if label_bias_full && ctx::chance("view.full", 1, 2) { n } else { 1 + ctx::choose("view.prefix", n as usize) as u32 };
        let pps: Vec<u32> = l.prune_points().into_iter().filter(|p| *p < upto).collect();
        let from = if !pps.is_empty() && ctx::chance("view.pruned", 1, 2) { *ctx::pick("view.prune_point", &pps) } else { 0 };
        out.push(LogView { log_index: i, from, upto_exclusive: upto });
    }
    out
}

pub fn view_ops(world: &LogWorld, view: &[LogView]) -> Vec<Op> {
    let mut out = vec![];
    for v in view {
        let l = &world.logs[v.log_index];
        for o in &l.ops {
            if o.header.seq_num >= v.from && o.header.seq_num < v.upto_exclusive {
                out.push(o.clone());
            }
        }
    }
    out
}

pub fn short(h: &Hash) -> String {
    h.to_hex()[..6].to_string()
}

pub fn short_key(k: &VerifyingKey) -> String {
    k.to_hex()[..6].to_string()
}

pub fn op_label(o: &Op) -> String {
    format!(
        "{}:{}#{}{}{}",
        short_key(&o.header.verifying_key),
        o.header.extensions.log_id,
        o.header.seq_num,
        if o.header.extensions.prune { "P" } else { "" },
        if o.body.is_some() { "+b" } else { "" }
    )
}
