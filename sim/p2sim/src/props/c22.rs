//! C22 — Sync session events follow the documented lifecycle.
//!
//! Modes 0/1: every session of the SyncNet world (real managers, real sessions talking to each
//! other; mode 1 with latencies and a cut link). Mode 2 (enumeration): one real `TopicLogSync`
//! session against a scripted remote replaying what a real remote sent in a reference execution,
//! re-run once per fault point: stream closed after every transcript position k, every message k
//! replaced by an unexpected variant, a stream error item at k, and a sink error from every sink
//! operation k — in the sync phase and in the live phase.

use std::cell::RefCell;
use std::rc::Rc;

use futures_channel::mpsc;
use futures_util::SinkExt;
use p2panda_core::Topic;
use p2panda_store::Transaction;
use p2panda_sync::ToSync;
use p2panda_sync::protocols::{LogSyncMessage, TopicLogSync, TopicLogSyncEvent};
use p2panda_sync::traits::Protocol;
use simcore::duplex::{Engine, LinkConfig, link};
use simcore::{Budget, Property, Tier, ctx, des, ev, violation};
use simworld::logworld::{LogIdT, LogWorld, Op, SimExt, WorldParams, draw_view, make_body, make_op, signing_key, topic, view_ops};
use simworld::memstore::MemStore;
use simworld::populate::populate;
use simworld::syncnet::{Msg, NetHooks, run_net};
use simworld::syncwire::{Evt, ToWire, from_topic_event};
use tokio::sync::broadcast;

use super::c23::{draw_cfg, log_outcome};

/// The documented lifecycle as an automaton. Returns violations as (clause, site, detail).
pub fn check_lifecycle(events: &[Evt], returned: bool, phase_hint: &str) -> Vec<(String, String, String)> {
    #[derive(PartialEq, Clone, Copy, Debug)]
    enum St {
        Start,
        Started,
        Sync,
        Synced,
        Live,
        Done,
    }
    let mut out = vec![];
    let labels = || events.iter().map(|e| e.label()).collect::<Vec<_>>().join(" ");
    let mut st = St::Start;
    let mut missing_session_started = false;
    for e in events {
        if st == St::Done {
            out.push(("event-after-terminal".to_string(), format!("{} after the terminal event", kind(e)), labels()));
            break;
        }
        // `Failed` is allowed from any state.
        if matches!(e, Evt::Failed(_)) {
            st = St::Done;
            continue;
        }
        st = match (st, e) {
            (St::Start, Evt::SessionStarted) => St::Started,
            (St::Start, Evt::SyncStarted) => {
                missing_session_started = true;
                St::Sync
            }
            (St::Started, Evt::SyncStarted) => St::Sync,
            (St::Sync, Evt::Op { .. }) => St::Sync,
            (St::Sync, Evt::SyncFinished) => St::Synced,
            (St::Synced, Evt::LiveModeStarted) => St::Live,
            (St::Live, Evt::Op { .. }) => St::Live,
            (St::Synced, Evt::SessionFinished) | (St::Live, Evt::SessionFinished) => St::Done,
            (s, e) => {
                out.push(("event-out-of-order".to_string(), format!("{} in state {s:?}", kind(e)), labels()));
                return out;
            }
        };
    }
    if missing_session_started {
        out.push(("session-started-missing".to_string(), "TopicLogSync::run never emits SessionStarted".to_string(), labels()));
    }
    if returned && st != St::Done {
        let last = events.last().map(kind).unwrap_or("nothing");
        out.push(("no-terminal-event".to_string(), format!("run() returned after {last} without SessionFinished or Failed ({phase_hint})"), labels()));
    }
    out
}

fn kind(e: &Evt) -> &'static str {
    match e {
        Evt::SessionStarted => "SessionStarted",
        Evt::SyncStarted => "SyncStarted",
        Evt::Op { .. } => "OperationReceived",
        Evt::SyncFinished => "SyncFinished",
        Evt::LiveModeStarted => "LiveModeStarted",
        Evt::SessionFinished => "SessionFinished",
        Evt::Failed(_) => "Failed",
    }
}

pub struct C22Prop;
pub static C22: C22Prop = C22Prop;

impl Property for C22Prop {
    fn id(&self) -> &'static str {
        "C22"
    }
    fn level(&self) -> &'static str {
        "fault_enumeration"
    }
    fn budget(&self, tier: Tier) -> Budget {
        match tier {
            Tier::Quick => Budget { runs: 9_000, wall_cap_s: 40 },
            Tier::Thorough => Budget { runs: 150_000, wall_cap_s: 420 },
        }
    }
    fn modes(&self) -> u32 {
        3
    }
    fn mode_name(&self, mode: u32) -> &'static str {
        match mode {
            0 => "sync network, no connection loss (fault-free)",
            1 => "sync network, latencies + one link cut",
            _ => "one session vs scripted remote: every transcript position / sink operation as fault point",
        }
    }
    fn rule(&self) -> &'static str {
        "modes 0/1: every session of a seeded 2-5 peer sync network is checked against the lifecycle automaton; mode 2: per generated two-replica scenario a reference execution records the remote's transcript and the local sink operations, then the session is re-run once per fault point (stream closed after k messages, message k replaced by an unexpected variant, stream error item at k, sink error from sink operation k; for every k; with and without live mode) and each event sequence is checked; evaluations counts runs (each mode-2 run enumerates all its fault points); distinct = distinct trace fingerprint"
    }
    fn components_real(&self) -> Vec<&'static str> {
        vec!["p2panda_sync::protocols::TopicLogSync::run (event emission, sync + live phase)", "p2panda_sync::protocols::LogSync", "p2panda_sync::manager::TopicSyncManager::session (modes 0/1)"]
    }
    fn components_stub(&self) -> Vec<&'static str> {
        vec!["store: MemStore", "transport: SimDuplex with fault plan", "mode 2: the remote peer is a script replaying a real remote's recorded transcript"]
    }
    fn expected_probes(&self) -> Vec<&'static str> {
        vec!["failed_in_sync_phase", "fault_in_live_phase", "sink_error_at_final_close"]
    }
    fn run(&self) {
        match ctx::mode() {
            2 => run_enumeration(),
            m => {
                let cfg = draw_cfg(m == 1);
                let out = run_net(&cfg);
                log_outcome(&out);
                ctx::mark_nontrivial();
                if out.hang {
                    violation("session-hangs", "sync network", "simulated 1 h watchdog fired".into());
                    return;
                }
                for s in &out.sessions {
                    let returned = s.result.is_some();
                    if !returned && !s.cut {
                        violation("session-hangs", "session did not return after Close", format!("session {} (peer {} -> {}) events {:?}", s.session_id, s.peer, s.remote, s.evts().iter().map(|e| e.label()).collect::<Vec<_>>()));
                    }
                    for (clause, site, detail) in check_lifecycle(&s.evts(), returned, if s.cut { "link cut" } else { "no fault" }) {
                        violation(&clause, &site, format!("session {} (peer {} -> {}): {detail}", s.session_id, s.peer, s.remote));
                    }
                }
            }
        }
    }
}

#[derive(Clone, Debug)]
enum Fault {
    None,
    CloseAfter(usize),
    Substitute(usize, u8),
    StreamErrAt(usize),
    SinkErrFrom(u64),
}

struct OneRun {
    events: Vec<Evt>,
    returned: Option<Result<(), String>>,
    remote_transcript: Vec<Msg>,
    sink_ops: u64,
    sent: Vec<String>,
}

fn unexpected(variant: u8) -> Msg {
    match variant {
        0 => Msg::Sync(LogSyncMessage::Done),
        1 => Msg::Sync(LogSyncMessage::PreSync { total_operations: 1, total_bytes: 1 }),
        2 => Msg::Sync(LogSyncMessage::Have(Default::default())),
        3 => Msg::Sync(LogSyncMessage::Operation(vec![1, 2, 3], None)),
        4 => Msg::Close,
        _ => {
            let k = signing_key(77);
            let op = make_op(&k, 99, 0, None, false, make_body(5, 1));
            Msg::Live(op.header, op.body)
        }
    }
}

/// Run the local session A. `script`: None = against a real remote B (reference); Some = against the
/// recorded messages with the fault applied.
fn run_session(ops_a: &[Op], ops_b: &[Op], live: bool, live_op: &Op, script: Option<&[Msg]>, fault: &Fault) -> OneRun {
    let t: Topic = topic(0);
    let out: Rc<RefCell<OneRun>> = Rc::new(RefCell::new(OneRun { events: vec![], returned: None, remote_transcript: vec![], sink_ops: 0, sent: vec![] }));
    let out2 = out.clone();
    let ops_a = ops_a.to_vec();
    let ops_b = ops_b.to_vec();
    let live_op = live_op.clone();
    let script: Option<Vec<Msg>> = script.map(|s| s.to_vec());
    let fault = fault.clone();
    let rx_slot: Rc<RefCell<Option<broadcast::Receiver<TopicLogSyncEvent<SimExt>>>>> = Rc::new(RefCell::new(None));
    let rx_slot2 = rx_slot.clone();
    let links: Rc<RefCell<Option<(simcore::duplex::Link<Msg>, simcore::duplex::Link<Msg>)>>> = Rc::new(RefCell::new(None));
    let links2 = links.clone();
    let r = des::run_with_watchdog(std::time::Duration::from_secs(600), move || async move {
        let sa: MemStore<NetHooks> = MemStore::with_hooks(NetHooks { latency: false });
        populate(&sa, &ops_a, &t, |_| true).await;
        let mut lc_ab = LinkConfig::new(Engine::Des);
        lc_ab.preempt_den = 0;
        let mut lc_ba = lc_ab.clone();
        match &fault {
            Fault::SinkErrFrom(k) => lc_ab.sink_err_from = Some(*k),
            Fault::StreamErrAt(k) => lc_ba.stream_err_at = Some(*k as u64),
            _ => {}
        }
        let (mut a_tx, b_rx) = link::<Msg>("a->b", lc_ab);
        let (mut b_tx, mut a_rx) = link::<Msg>("b->a", lc_ba);
        *links2.borrow_mut() = Some((a_tx.link.clone(), b_tx.link.clone()));
        let (etx, erx) = broadcast::channel(4096);
        *rx_slot2.borrow_mut() = Some(erx);
        let (mut live_tx, live_rx) = mpsc::channel::<ToSync<p2panda_core::Operation<SimExt>>>(16);
        if live {
            let _ = live_tx.send(ToSync::Payload(live_op.clone())).await;
            let _ = live_tx.send(ToSync::Close).await;
        }
        let pa: TopicLogSync<Topic, MemStore<NetHooks>, LogIdT, SimExt> = TopicLogSync::new(t, sa.clone(), if live { Some(live_rx) } else { None }, etx);
        let o3 = out2.clone();
        let ha = des::spawn(async move {
            let r = pa.run(&mut a_tx, &mut a_rx).await.map_err(|e| e.to_string());
            o3.borrow_mut().returned = Some(r);
        });
        match script {
            None => {
                let sb: MemStore<NetHooks> = MemStore::with_hooks(NetHooks { latency: false });
                populate(&sb, &ops_b, &t, |_| true).await;
                let (etx_b, _erx_b) = broadcast::channel(4096);
                let (_live_tx_b, live_rx_b) = mpsc::channel::<ToSync<p2panda_core::Operation<SimExt>>>(16);
                let pb: TopicLogSync<Topic, MemStore<NetHooks>, LogIdT, SimExt> = TopicLogSync::new(t, sb, if live { Some(live_rx_b) } else { None }, etx_b);
                let mut b_rx = b_rx;
                let hb = des::spawn(async move {
                    let _keep = (_live_tx_b, _erx_b);
                    let _ = pb.run(&mut b_tx, &mut b_rx).await;
                });
                let _ = ha.await;
                let _ = hb.await;
            }
            Some(script) => {
                // The scripted remote: feed the (faulted) transcript, then hang up.
                let mut msgs = script.clone();
                match &fault {
                    Fault::CloseAfter(k) => msgs.truncate(*k),
                    Fault::Substitute(k, v) => {
                        if *k < msgs.len() {
                            msgs[*k] = unexpected(*v);
                        }
                    }
                    _ => {}
                }
                for m in msgs {
                    let _ = b_tx.send(m).await;
                }
                drop(b_tx);
                let _keep_rx = b_rx; // the remote never reads, but its receiving end stays open
                let _ = ha.await;
            }
        }
        let _ = live_tx;
    });
    let mut o = Rc::try_unwrap(out).ok().map(|c| c.into_inner()).unwrap_or(OneRun { events: vec![], returned: None, remote_transcript: vec![], sink_ops: 0, sent: vec![] });
    if let Some(rx) = rx_slot.borrow_mut().as_mut() {
        while let Ok(e) = rx.try_recv() {
            o.events.push(from_topic_event(e));
        }
    }
    if let Some((ab, ba)) = links.borrow_mut().take() {
        o.remote_transcript = ba.borrow().transcript.clone();
        o.sink_ops = ab.borrow().sink_ops;
        o.sent = ab.borrow().transcript.iter().map(|m| m.to_wire().label()).collect();
    }
    if r.is_err() {
        o.returned = None;
    }
    o
}

fn run_enumeration() {
    let world = LogWorld::generate(&WorldParams { max_authors: 2, max_logs_per_author: 1, max_ops_per_log: 3, prune_num: 0, body_kinds: 2, min_ops_per_log: 0 });
    let va = draw_view(&world, true);
    let vb = draw_view(&world, true);
    let ops_a = view_ops(&world, &va);
    let ops_b = view_ops(&world, &vb);
    let live = ctx::chance("live", 1, 2);
    let live_op = make_op(&signing_key(50), 50, 0, None, false, make_body(1, 1));
    ev!("A holds {} ops, B holds {} ops, live mode: {live}", ops_a.len(), ops_b.len());
    ctx::mark_nontrivial();
    let reference = run_session(&ops_a, &ops_b, live, &live_op, None, &Fault::None);
    ev!(
        "reference: remote sent [{}]; A sent [{}] in {} sink operations; A events [{}]; A returned {:?}",
        reference.remote_transcript.iter().map(|m| m.to_wire().label()).collect::<Vec<_>>().join(" "),
        reference.sent.join(" "),
        reference.sink_ops,
        reference.events.iter().map(|e| e.label()).collect::<Vec<_>>().join(" "),
        reference.returned
    );
    for (clause, site, detail) in check_lifecycle(&reference.events, reference.returned.is_some(), "no fault") {
        violation(&clause, &site, detail);
    }
    if reference.returned.is_none() {
        violation("session-hangs", "reference execution (no fault)", "A did not return".into());
        return;
    }
    let script = reference.remote_transcript.clone();
    let sync_len = script.iter().take_while(|m| matches!(m, Msg::Sync(_))).count();
    let mut faults: Vec<Fault> = vec![];
    for k in 0..=script.len() {
        faults.push(Fault::CloseAfter(k));
    }
    for k in 0..script.len() {
        faults.push(Fault::StreamErrAt(k));
        for v in 0..6u8 {
            if unexpected(v).to_wire().label() != script[k].to_wire().label() {
                faults.push(Fault::Substitute(k, v));
            }
        }
    }
    for k in 0..reference.sink_ops {
        faults.push(Fault::SinkErrFrom(k));
    }
    let mut n = 0;
    for f in &faults {
        let r = run_session(&ops_a, &ops_b, live, &live_op, Some(&script), f);
        n += 1;
        let (fname, phase): (&'static str, &'static str) = match f {
            Fault::CloseAfter(k) => ("close_at", if *k < sync_len { "sync" } else { "live-or-end" }),
            Fault::Substitute(k, _) => ("unexpected_message", if *k < sync_len { "sync" } else { "live-or-end" }),
            Fault::StreamErrAt(k) => ("stream_err_at", if *k < sync_len { "sync" } else { "live-or-end" }),
            Fault::SinkErrFrom(k) => ("sink_err_at", if *k + 1 == reference.sink_ops { "final close" } else if r.events.iter().any(|e| matches!(e, Evt::SyncFinished)) { "live-or-end" } else { "sync" }),
            Fault::None => ("none", ""),
        };
        if !matches!(f, Fault::SinkErrFrom(_) | Fault::StreamErrAt(_)) {
            ctx::fault(fname);
        }
        if phase == "final close" {
            ctx::probe("sink_error_at_final_close");
        }
        if phase == "live-or-end" {
            ctx::probe("fault_in_live_phase");
        }
        if r.events.iter().any(|e| matches!(e, Evt::Failed(_))) && !r.events.iter().any(|e| matches!(e, Evt::SyncFinished)) {
            ctx::probe("failed_in_sync_phase");
        }
        ev!("fault {f:?} [{phase}]: events [{}] returned {:?}", r.events.iter().map(|e| e.label()).collect::<Vec<_>>().join(" "), r.returned);
        if r.returned.is_none() {
            violation("session-hangs", &format!("{fname} during {phase} phase"), format!("{f:?}: run() did not return within 600 simulated seconds; events {:?}", r.events.iter().map(|e| e.label()).collect::<Vec<_>>()));
            continue;
        }
        for (clause, site, detail) in check_lifecycle(&r.events, true, &format!("{fname} during {phase} phase")) {
            violation(&clause, &site, format!("{f:?}: {detail}"));
        }
    }
    ev!("enumerated {n} fault points");
}
