//! C15 — Unacknowledged operations are replayed after any crash.
//!
//! Node-level: the real `p2panda::Node` over a file database (network stack idle, mDNS off) is
//! driven through its public API — publish, prune, import, ack — by a seeded script; it is crashed
//! after every step (all handles and the whole runtime dropped without shutdown) or, in the
//! child-process modes, aborted (`abort()`) at the n-th occurrence of an armed crash point inside
//! the code (hook H6: after the forge's commit, after the pipeline result, after the cursor update).
//! Then a new node is started on the same key and database and the replay from the frontier is
//! compared with the model.

use std::collections::{BTreeMap, BTreeSet};
use std::time::Duration;

use futures_util::StreamExt;
use p2panda::node::AckPolicy;
use p2panda::operation::{Extensions, Header, LogId, Operation};
use p2panda::streams::{StreamEvent, StreamFrom};
use p2panda::{Hash, Node, Topic};
use p2panda_core::Body;
use p2panda_store::logs::LogStore;
use p2panda_store::operations::OperationStore;
use p2panda_store::topics::TopicStore;
use serde::{Deserialize, Serialize};
use simcore::{Budget, Property, Tier, ctx, ev, stepexec, violation};
use simworld::logworld::{key_bytes, signing_key};

/// The stream's topic, derived from the run seed (usable on helper threads without a context).
fn topic_of(seed: u64) -> Topic {
    Topic::from(key_bytes(seed ^ 0x7470, 0))
}

#[derive(Clone, Debug, Serialize, Deserialize, PartialEq, Eq)]
pub enum Step {
    Publish(String),
    Prune(Option<String>),
    /// Acknowledge the i-th operation delivered so far (explicit policy only).
    Ack(usize),
    /// Import a foreign author's log prefix of the given length through `StreamPublisher::import`.
    Import(usize),
    /// Import one forged operation: it claims this node's own author at a far higher sequence
    /// number, carries no body and is signed with somebody else's key. It must be rejected without
    /// any effect on what is replayed.
    ImportForged,
}

#[derive(Clone, Debug, Serialize, Deserialize)]
pub struct Script {
    pub seed: u64,
    pub explicit: bool,
    pub steps: Vec<Step>,
    pub db: String,
    /// Child mode: armed crash point and occurrence.
    pub crash_point: Option<(String, u64)>,
    /// In-process mode: crash after this many steps.
    pub crash_after: usize,
}

#[derive(Clone, Debug, Default, Serialize, Deserialize)]
pub struct Progress {
    /// Steps that completed (returned to the script) before the crash.
    pub completed: usize,
    /// Ids delivered to the application as Processed, in order.
    pub delivered: Vec<String>,
    /// Ids the application acknowledged successfully (ack() returned Ok).
    pub acked: Vec<String>,
    /// Ids for which the application called ack() at all (recorded before the call: a crash inside
    /// the call may or may not leave the acknowledgement durable).
    #[serde(default)]
    pub ack_attempted: Vec<String>,
}

fn node_key(seed: u64) -> p2panda::SigningKey {
    p2panda::SigningKey::from_bytes(&key_bytes(seed, 1))
}

fn foreign_ops(seed: u64, t: Topic, n: usize) -> Vec<Operation> {
    let key = p2panda::SigningKey::from_bytes(&key_bytes(seed, 2));
    let mut out = vec![];
    let mut backlink = None;
    for seq in 0..n as u32 {
        let body = Body::from(p2panda_core::cbor::encode_cbor(&format!("foreign-{seq}")).unwrap());
        let mut header = Header {
            version: 1,
            verifying_key: key.verifying_key(),
            signature: None,
            payload_size: body.size(),
            payload_hash: Some(body.hash()),
            seq_num: seq,
            backlink,
            extensions: Extensions::from_topic(t),
        };
        header.sign(&key);
        let hash = header.hash();
        backlink = Some(hash);
        out.push(Operation { hash, header, body: Some(body) });
    }
    out
}

fn forged_own_author_op(seed: u64, t: Topic) -> Operation {
    let forger = p2panda::SigningKey::from_bytes(&key_bytes(seed, 3));
    let mut header = Header {
        version: 1,
        verifying_key: node_key(seed).verifying_key(),
        signature: None,
        payload_size: 0,
        payload_hash: None,
        seq_num: 1000,
        backlink: Some(Hash::digest(b"forged backlink")),
        extensions: Extensions::from_topic(t),
    };
    header.sign(&forger);
    header.verifying_key = node_key(seed).verifying_key();
    let hash = header.hash();
    Operation { hash, header, body: None }
}

async fn spawn_node(script: &Script) -> Result<Node, String> {
    let t0 = std::time::Instant::now();
    let r = spawn_node_inner(script).await;
    if std::env::var("C15_TIMING").is_ok() {
        eprintln!("spawn_node took {:?}", t0.elapsed());
    }
    r
}

async fn spawn_node_inner(script: &Script) -> Result<Node, String> {
    Node::builder()
        .signing_key(node_key(script.seed))
        .database_url(&format!("sqlite://{}", script.db))
        .ack_policy(if script.explicit { AckPolicy::Explicit } else { AckPolicy::Automatic })
        .mdns_mode(p2panda::network::MdnsDiscoveryMode::Disabled)
        .spawn()
        .await
        .map_err(|e| e.to_string())
}

/// Drain events that are available right now (bounded real-time wait for the first one).
async fn drain_events(sub: &mut p2panda::streams::StreamSubscription<String>, progress: &mut Progress, wait_ms: u64, log: &mut Vec<String>) {
    loop {
        match tokio::time::timeout(Duration::from_millis(wait_ms), sub.next()).await {
            Ok(Some(StreamEvent::Processed { operation, .. })) => {
                progress.delivered.push(operation.id().to_hex());
                log.push(format!("delivered {}", &operation.id().to_hex()[..6]));
            }
            Ok(Some(_other)) => {}
            Ok(None) | Err(_) => break,
        }
    }
}

/// Run the script against a node until `crash_after` steps are done (or the armed crash point
/// aborts the process). Progress is written to `progress_path` after every step so that it
/// survives an abort.
pub async fn run_script(script: &Script, progress_path: Option<&str>) -> Result<(Progress, Vec<String>), String> {
    let t = topic_of(script.seed);
    let mut log = vec![];
    let mut progress = Progress::default();
    let mut started = None;
    let mut last = String::new();
    for attempt in 0..START_ATTEMPTS {
        let node = match spawn_node(script).await {
            Ok(n) => n,
            Err(e) => {
                last = format!("START: {e}");
                tokio::time::sleep(Duration::from_millis(300 * (attempt + 1))).await;
                continue;
            }
        };
        match node.stream_from::<String>(t, StreamFrom::Frontier).await {
            Ok((p, s)) => {
                started = Some((node, p, s));
                break;
            }
            Err(e) => {
                last = format!("START: {e}");
                drop(node);
                tokio::time::sleep(Duration::from_millis(300 * (attempt + 1))).await;
            }
        }
    }
    let Some((_node, publisher, mut sub)) = started else { return Err(last) };
    if let Some((name, nth)) = &script.crash_point {
        p2panda_core::verif::arm_crash_point(name, *nth);
    }
    let save = |p: &Progress| {
        if let Some(path) = progress_path {
            let _ = std::fs::write(path, serde_json::to_vec(p).unwrap());
        }
    };
    save(&progress);
    for (i, step) in script.steps.iter().enumerate() {
        if i >= script.crash_after {
            break;
        }
        match step {
            Step::Publish(m) => {
                let fut = publisher.publish(m.clone()).await.map_err(|e| e.to_string())?;
                let id = fut.hash();
                let _ = fut.await;
                log.push(format!("step {i}: publish -> {}", &id.to_hex()[..6]));
            }
            Step::Prune(m) => {
                let fut = publisher.prune(m.clone()).await.map_err(|e| e.to_string())?;
                let id = fut.hash();
                let _ = fut.await;
                log.push(format!("step {i}: prune({}) -> {}", if m.is_some() { "with body" } else { "no body" }, &id.to_hex()[..6]));
            }
            Step::Import(n) => {
                let ops = foreign_ops(script.seed, t, *n);
                let fut = publisher.import(futures_util::stream::iter(ops)).await.map_err(|e| e.to_string())?;
                let _ = tokio::time::timeout(Duration::from_secs(10), fut).await;
                log.push(format!("step {i}: import of {n} foreign operations"));
            }
            Step::ImportForged => {
                let op = forged_own_author_op(script.seed, t);
                match publisher.import(futures_util::stream::iter(vec![op])).await {
                    Ok(fut) => {
                        let _ = tokio::time::timeout(Duration::from_secs(10), fut).await;
                    }
                    Err(e) => log.push(format!("step {i}: import of the forged operation refused: {e}")),
                }
                log.push(format!("step {i}: import of a forged body-less operation claiming our own author at seq 1000"));
            }
            Step::Ack(k) => {
                drain_events(&mut sub, &mut progress, 60, &mut log).await;
                if let Some(id) = progress.delivered.get(*k).cloned() {
                    let h: Hash = id.parse().map_err(|_| "hash parse".to_string())?;
                    progress.ack_attempted.push(id.clone());
                    save(&progress);
                    match sub.ack(h).await {
                        Ok(()) => {
                            progress.acked.push(id.clone());
                            log.push(format!("step {i}: ack {} ok", &id[..6]));
                        }
                        Err(e) => log.push(format!("step {i}: ack {} failed: {e}", &id[..6])),
                    }
                } else {
                    log.push(format!("step {i}: ack skipped (nothing delivered at index {k})"));
                }
            }
        }
        drain_events(&mut sub, &mut progress, 40, &mut log).await;
        progress.completed = i + 1;
        save(&progress);
    }
    Ok((progress, log))
}

/// What is stored and what the cursor says, read from the database after the crash.
struct Durable {
    /// (author, seq) -> (id, has body), for the topic's log of every author.
    entries: BTreeMap<(String, u32), (String, bool)>,
    cursor: BTreeMap<String, u32>,
}

async fn read_durable(db: &str, seed: u64) -> Result<Durable, String> {
    let store = p2panda_store::SqliteStoreBuilder::new().database_url(&format!("sqlite://{db}")).min_connections(1).max_connections(2).create_database(false).run_default_migrations(false).build().await.map_err(|e| e.to_string())?;
    let t = topic_of(seed);
    let log_id = LogId::from_topic(t);
    // Ground truth is what is stored, whether or not the topic association exists: the two authors
    // of this world are known to the harness.
    let _: BTreeMap<p2panda::VerifyingKey, Vec<LogId>> = store.resolve(&t).await.map_err(|e| e.to_string())?;
    let authors = [node_key(seed).verifying_key(), p2panda::SigningKey::from_bytes(&key_bytes(seed, 2)).verifying_key()];
    let mut entries = BTreeMap::new();
    for author in &authors {
        let es: Option<Vec<(Operation, Vec<u8>)>> = store.get_log_entries(author, &log_id, None, None).await.map_err(|e| e.to_string())?;
        for (op, _) in es.unwrap_or_default() {
            entries.insert((author.to_hex(), op.header.seq_num), (op.hash.to_hex(), op.body.is_some()));
        }
    }
    use p2panda_store::cursors::CursorStore;
    let c: Option<p2panda::Cursor<p2panda::VerifyingKey, LogId>> = store.get_cursor(t.to_string()).await.map_err(|e| e.to_string())?;
    let mut cursor = BTreeMap::new();
    if let Some(c) = c {
        for (a, ls) in c.state() {
            if let Some(h) = ls.get(&log_id) {
                cursor.insert(a.to_hex(), *h);
            }
        }
    }
    let _: Option<Operation> = store.get_operation(&Hash::digest(b"x")).await.map_err(|e| e.to_string())?;
    store.pool().close().await;
    Ok(Durable { entries, cursor })
}

/// Restart on the same key and database and collect what is replayed from the frontier.
async fn restart_and_replay(script: &Script, expect_some: bool) -> Result<(Vec<String>, bool), String> {
    // The real network stack (actors, endpoint) occasionally fails to start under machine load
    // ("Messaging failed because channel is closed"); that is infrastructure, not the property:
    // a start failure is retried on a fresh node, only a persistent one is reported.
    let mut last = String::new();
    let mut silent: Option<(Vec<String>, bool)> = None;
    for attempt in 0..START_ATTEMPTS {
        match restart_and_replay_once(script, expect_some).await {
            // A replay was expected, but the stream stayed completely silent (no operation, no
            // ReplayEnded) for the whole wait or ended at once: on an overloaded machine that is
            // what a node looks like whose replay task has not come up. Nothing was delivered or
            // acknowledged, so the database is unchanged and the restart can simply be repeated
            // (twice); a replay that is really lost stays lost and is reported.
            Ok((replayed, ended)) if expect_some && replayed.is_empty() && !ended && attempt < 2 => {
                silent = Some((replayed, ended));
                continue;
            }
            Ok(r) => return Ok(r),
            Err(e) if e.starts_with("START:") => {
                last = e;
                tokio::time::sleep(Duration::from_millis(300 * (attempt + 1))).await;
            }
            Err(e) => return Err(e),
        }
    }
    match silent {
        Some(r) if last.is_empty() => Ok(r),
        _ => Err(last),
    }
}

/// How often a node start (spawn + `stream_from`) is attempted before the failure is reported.
const START_ATTEMPTS: u64 = 8;

/// `Node::stream_from` documents `CreateStreamError` ("error occurred in internal actor: ...") as
/// transient: an actor of the network stack crashed or has not come up and the caller may try
/// again. On an overloaded machine that state can outlast all our attempts; it says nothing about
/// what would be replayed, so such a restart is inconclusive, not a violation.
fn is_actor_start_failure(e: &str) -> bool {
    e.starts_with("START:") && (e.contains("error occurred in internal actor") || e.contains("Actor panicked during startup") || e.contains("actor is likely terminated"))
}

async fn restart_and_replay_once(script: &Script, expect_some: bool) -> Result<(Vec<String>, bool), String> {
    let node = spawn_node(script).await.map_err(|e| format!("START: {e}"))?;
    let (_publisher, mut sub) = node.stream_from::<String>(topic_of(script.seed), StreamFrom::Frontier).await.map_err(|e| format!("START: {e}"))?;
    let mut replayed = vec![];
    let mut ended = false;
    let first_wait = if expect_some { 30_000 } else { 150 };
    let mut wait = first_wait;
    loop {
        match tokio::time::timeout(Duration::from_millis(wait), sub.next()).await {
            Ok(Some(StreamEvent::Processed { operation, .. })) => replayed.push(operation.id().to_hex()),
            Ok(Some(StreamEvent::ReplayEnded)) => {
                ended = true;
                break;
            }
            Ok(Some(StreamEvent::ReplayFailed { error })) => return Err(format!("replay failed: {error}")),
            Ok(Some(_)) => {}
            Ok(None) | Err(_) => break,
        }
        wait = 30_000;
    }
    Ok((replayed, ended))
}

pub struct C15Prop;
pub static C15: C15Prop = C15Prop;

/// Armed crash points. `store.after_commit` (hook H7) sits inside `SqliteStore::commit` and so
/// covers the instant after *every* committed transaction, wherever the code under test commits.
const POINTS: [&str; 4] = ["store.after_commit", "forge.after_commit", "stream.after_pipeline", "acked.after_set_cursor"];

impl Property for C15Prop {
    fn id(&self) -> &'static str {
        "C15"
    }
    fn level(&self) -> &'static str {
        "fault_enumeration"
    }
    fn budget(&self, tier: Tier) -> Budget {
        match tier {
            Tier::Quick => Budget { runs: 32, wall_cap_s: 30 },
            Tier::Thorough => Budget { runs: 640, wall_cap_s: 380 },
        }
    }
    fn run_limit_s(&self) -> u64 {
        // Up to six crash points per run, each with three real node starts and bounded real-time
        // waits; on an overloaded machine one start alone takes seconds.
        900
    }
    fn modes(&self) -> u32 {
        4
    }
    fn mode_name(&self, mode: u32) -> &'static str {
        match mode {
            0 => "explicit acks, crash (drop everything) after every step in turn",
            1 => "automatic acks, crash (drop everything) after every step in turn",
            2 => "explicit acks, child process abort() at every occurrence of every crash point",
            _ => "automatic acks, child process abort() at every occurrence of every crash point",
        }
    }
    fn rule(&self) -> &'static str {
        "one run = a seeded script of 3-5 steps (publish, prune with/without body, import of a foreign log, ack of a delivered operation) against the real Node on a file database; modes 0/1 re-execute the script once per step boundary k and crash there by dropping node, streams and runtime; modes 2/3 run the script in a child process with crash point p armed at occurrence n, for every p and n until the point is no longer reached (abort()); after each crash a new node on the same key and database replays from the frontier and the replayed ids are compared with {stored operations with a body above the durable cursor}; evaluations counts runs (each enumerating all its crash positions); distinct = distinct trace fingerprint"
    }
    fn components_real(&self) -> Vec<&'static str> {
        vec!["p2panda::Node (builder, spawn, stream_from)", "StreamPublisher::{publish, prune, import}", "StreamSubscription::ack / automatic acks", "OperationForge, Pipeline (own thread), Acked, replay_log_ranges", "SqliteStore on a file database", "network stack spawned but idle (no peers, mDNS off)"]
    }
    fn components_stub(&self) -> Vec<&'static str> {
        vec!["none; crash = process abort at hook H6 points (child process) or drop of every handle and the runtime"]
    }
    fn assumptions(&self) -> Vec<&'static str> {
        vec!["crash model: process death with the OS page cache intact (SQLite durability trusted; no torn pages)", "real-time bounded waits: 30 s for an expected replay, 150 ms to confirm that nothing is replayed"]
    }
    fn shrink_budget_s(&self, _tier: Tier) -> u64 {
        0
    }
    fn run(&self) {
        let mode = ctx::mode();
        let explicit = mode % 2 == 0;
        let child = mode >= 2;
        let n_steps = ctx::range("steps", 3, 5);
        let mut steps = vec![];
        let mut publishes = 0;
        for i in 0..n_steps {
            let s = match ctx::choose("step.kind", 8) {
                0..=3 => {
                    publishes += 1;
                    Step::Publish(format!("m{i}"))
                }
                4 => Step::Prune(if ctx::chance("prune.body", 1, 2) { Some(format!("p{i}")) } else { None }),
                5 => {
                    if ctx::chance("import.forged", 1, 3) {
                        ctx::fault("forged_import(own author, no body, seq 1000)");
                        Step::ImportForged
                    } else {
                        Step::Import(ctx::range("import.n", 1, 3))
                    }
                }
                _ => {
                    if explicit && publishes > 0 {
                        Step::Ack(ctx::choose("ack.index", publishes))
                    } else {
                        publishes += 1;
                        Step::Publish(format!("m{i}"))
                    }
                }
            };
            steps.push(s);
        }
        ev!("script (acks: {}): {:?}", if explicit { "explicit" } else { "automatic" }, steps);
        ctx::mark_nontrivial();
        let base = format!("/dev/shm/p2sim-c15-{}-{:x}", std::process::id(), ctx::seed());
        let seed = ctx::seed();
        let mut positions: Vec<(usize, Option<(String, u64)>)> = vec![];
        if !child {
            for k in 1..=n_steps {
                positions.push((k, None));
            }
        } else {
            for p in POINTS {
                let occurrences = if p == "store.after_commit" { 2 * n_steps as u64 + 2 } else { n_steps as u64 + 2 };
                for n in 1..=occurrences {
                    positions.push((n_steps, Some((p.to_string(), n))));
                }
            }
        }
        // The real Node under an overloaded machine sometimes behaves differently for reasons that
        // have nothing to do with the scenario (an actor of the network stack that does not come
        // up, a replay task that starts late). Every verdict of this check is a deterministic
        // function of the script and the crash position, so a violation is reported only when the
        // identical scenario, executed once more from scratch, shows it again.
        let mut first_pass: Vec<simcore::ctx::Violation> = vec![];
        for pass in 0..2 {
            'pass: {
                let mut reached: BTreeSet<String> = BTreeSet::new();
                let mut exhausted: BTreeSet<String> = BTreeSet::new();
                for (pi, (crash_after, point)) in positions.clone().into_iter().enumerate() {
                    if let Some((p, _)) = &point {
                        if exhausted.contains(p) {
                            continue;
                        }
                    }
                    let db = format!("{base}-{pi}.sqlite");
                    let script = Script { seed, explicit, steps: steps.clone(), db: db.clone(), crash_point: point.clone(), crash_after };
                    let cleanup = || {
                        for s in ["", "-wal", "-shm", "-journal", ".progress", ".script"] {
                            let _ = std::fs::remove_file(format!("{db}{s}"));
                        }
                    };
                    cleanup();
                    // Phase 1: run until the crash.
                    let progress: Progress = if let Some((p, n)) = &point {
                        let sp = format!("{db}.script");
                        std::fs::write(&sp, serde_json::to_vec(&script).unwrap()).unwrap();
                        let out = std::process::Command::new(std::env::current_exe().unwrap()).arg("c15-child").arg(&sp).output();
                        let aborted = match &out {
                            Ok(o) => !o.status.success() && o.status.code().is_none(),
                            Err(_) => false,
                        };
                        let progress: Progress = std::fs::read(format!("{db}.progress")).ok().and_then(|b| serde_json::from_slice(&b).ok()).unwrap_or_default();
                        if !aborted {
                            // The point's n-th occurrence was never reached: the script ran to its end.
                            exhausted.insert(p.clone());
                            cleanup();
                            continue;
                        }
                        ctx::fault("crash_at(point)");
                        reached.insert(p.clone());
                        ev!("crash point {p} #{n}: aborted after {} completed steps", progress.completed);
                        progress
                    } else {
                        let s2 = script.clone();
                        let r = std::thread::Builder::new()
                            .name("sim-node".into())
                            .spawn(move || stepexec::block_on_seeded(seed, async move { run_script(&s2, None).await }))
                            .unwrap()
                            .join();
                        ctx::fault("crash_at(step)");
                        match r {
                            Ok(Ok((p, log))) => {
                                ev!("crash after step {crash_after}: {}", log.join("; "));
                                p
                            }
                            Ok(Err(e)) if is_actor_start_failure(&e) => {
                                ctx::probe("inconclusive_node_start_failed");
                                ev!("inconclusive: the node did not start in {START_ATTEMPTS} attempts ({e})");
                                cleanup();
                                break 'pass;
                            }
                            Ok(Err(e)) => {
                                violation("node-api-failed", "fault-free script", e);
                                cleanup();
                                break 'pass;
                            }
                            Err(_) => {
                                let info = simcore::runner::take_panic_info();
                                violation("panic", "node script", format!("panic while running the script: {info:?}"));
                                cleanup();
                                break 'pass;
                            }
                        }
                    };
                    // Phase 2 + 3: read durable state, restart, compare; restart once more.
                    let db2 = db.clone();
                    let script2 = script.clone();
                    let app_acks: BTreeSet<String> = progress.ack_attempted.iter().chain(progress.acked.iter()).cloned().collect();
                    let verdict = std::thread::Builder::new()
                        .name("sim-node".into())
                        .spawn(move || {
                            stepexec::block_on_seeded(seed, async move {
                                let durable = read_durable(&db2, seed).await?;
                                let app_acks = app_acks;
                                let expected: Vec<String> = durable
                                    .entries
                                    .iter()
                                    .filter(|((a, seq), (_, has_body))| *has_body && durable.cursor.get(a).map(|c| seq > c).unwrap_or(true))
                                    .map(|(_, (id, _))| id.clone())
                                    .collect();
                                let (replayed, ended) = restart_and_replay(&script2, !expected.is_empty()).await?;
                                // With the automatic policy the first replay acknowledges what it delivers;
                                // with the explicit policy a second restart must replay the same set.
                                // (A replayed prune operation is applied by the pipeline, so the expectation is
                                // recomputed from what is durable before the second restart.)
                                let second = if script2.explicit {
                                    let durable2 = read_durable(&db2, seed).await?;
                                    let expected2: Vec<String> = durable2
                                        .entries
                                        .iter()
                                        .filter(|((a, seq), (_, has_body))| *has_body && durable2.cursor.get(a).map(|c| seq > c).unwrap_or(true))
                                        .map(|(_, (id, _))| id.clone())
                                        .collect();
                                    Some((restart_and_replay(&script2, !expected2.is_empty()).await?.0, expected2))
                                } else {
                                    None
                                };
                                // The application's own view (explicit policy): a stored operation with a
                                // body is unacknowledged unless the application called ack() for it or for a
                                // later operation of the same log, or a later stored operation of that log
                                // has no body (those are acknowledged by the stream itself). This view does
                                // not read the persisted cursor.
                                let app_unacked: Vec<String> = durable
                                    .entries
                                    .iter()
                                    .filter(|((a, seq), (_, has_body))| {
                                        *has_body
                                            && !durable.entries.iter().any(|((a2, s2), (id2, b2))| a2 == a && s2 >= seq && (!*b2 || app_acks.contains(id2)))
                                    })
                                    .map(|(_, (id, _))| id.clone())
                                    .collect();
                                Ok::<_, String>((durable.entries.len(), durable.cursor, expected, replayed, ended, second, app_unacked))
                            })
                        })
                        .unwrap()
                        .join();
                    cleanup();
                    let site = match &point {
                        Some((p, _)) => format!("abort at crash point {p}"),
                        None => "crash at a step boundary".to_string(),
                    };
                    match verdict {
                        Ok(Ok((stored, cursor, expected, replayed, ended, second, app_unacked))) => {
                            let short = |v: &Vec<String>| v.iter().map(|s| s[..6].to_string()).collect::<Vec<_>>().join(",");
                            ev!("  after crash: {stored} stored, cursor {:?}; expected replay [{}]; replayed [{}] (ReplayEnded: {ended})", cursor.values().collect::<Vec<_>>(), short(&expected), short(&replayed));
                            let exp: BTreeSet<&String> = expected.iter().collect();
                            let got: BTreeSet<&String> = replayed.iter().collect();
                            if let Some(m) = exp.difference(&got).next() {
                                violation("unacknowledged-operation-not-replayed", &site, format!("stored operation {} (with body, above the durable cursor) was not delivered again after restart; replayed [{}], expected [{}]; completed steps {}", &m[..6], short(&replayed), short(&expected), progress.completed));
                            }
                            if explicit {
                                for m in &app_unacked {
                                    if !got.contains(m) {
                                        violation("unacknowledged-operation-not-replayed", &format!("{site} (application view)"), format!("stored operation {} has a body and neither it nor a later operation of its log was ever acknowledged by the application, yet it was not delivered again after restart; replayed [{}]; completed steps {}", &m[..6], short(&replayed), progress.completed));
                                        break;
                                    }
                                }
                            }
                            if let Some(m) = got.difference(&exp).next() {
                                let acked = progress.acked.contains(m);
                                violation(if acked { "acknowledged-operation-replayed" } else { "unexpected-operation-replayed" }, &site, format!("{} was delivered again after restart although it is at or below the durable cursor; acked by the application before the crash: {acked}", &m[..6]));
                            }
                            if replayed.len() != got.len() {
                                violation("operation-replayed-twice", &site, format!("replayed [{}]", short(&replayed)));
                            }
                            // Everything the application acknowledged successfully must stay acknowledged.
                            for a in &progress.acked {
                                if got.contains(a) {
                                    violation("acknowledged-operation-replayed", &site, format!("{} was acknowledged (ack() returned Ok) before the crash and is replayed", &a[..6]));
                                }
                            }
                            if let Some((s, e2)) = second {
                                if s.iter().collect::<BTreeSet<_>>() != e2.iter().collect::<BTreeSet<_>>() {
                                    violation("second-restart-replays-different-set", &site, format!("nothing was acknowledged after the first restart, yet the second restart replayed [{}] instead of [{}] (first restart: [{}])", short(&s), short(&e2), short(&replayed)));
                                }
                            }
                        }
                        Ok(Err(e)) if is_actor_start_failure(&e) => {
                            ctx::probe("inconclusive_node_start_failed");
                            ev!("inconclusive: the node did not restart in {START_ATTEMPTS} attempts ({e})");
                        }
                        Ok(Err(e)) => {
                            violation("restart-failed", &site, e);
                        }
                        Err(_) => {
                            let info = simcore::runner::take_panic_info();
                            violation("panic", "restart", format!("panic during restart / replay: {info:?}"));
                        }
                    }
                    if ctx::has_violation() {
                        break;
                    }
                }
                for p in reached {
                    match p.as_str() {
                        "store.after_commit" => ctx::probe("crash_after_store_commit"),
                        "forge.after_commit" => ctx::probe("crash_after_forge_commit"),
                        "stream.after_pipeline" => ctx::probe("crash_after_pipeline"),
                        _ => ctx::probe("crash_after_set_cursor"),
                    }
                }
            }
            let found = ctx::with(|c| std::mem::take(&mut c.violations));
            if pass == 0 {
                if found.is_empty() {
                    break;
                }
                ev!("re-executing the run to confirm: {}", found.iter().map(|v| v.signature.clone()).collect::<Vec<_>>().join(", "));
                first_pass = found;
                continue;
            }
            for v in std::mem::take(&mut first_pass) {
                if found.iter().any(|w| w.signature == v.signature) {
                    ctx::with(|c| c.violations.push(v));
                } else {
                    ctx::probe("violation_not_reproduced_on_reexecution");
                    ev!("not reproduced when the identical scenario was executed again (attributed to the environment): {}", v.signature);
                }
            }
        }
        let _ = signing_key(0);
    }
    fn expected_probes(&self) -> Vec<&'static str> {
        vec!["crash_after_store_commit", "crash_after_forge_commit", "crash_after_pipeline", "crash_after_set_cursor"]
    }
}

/// Entry point of the child process: `p2sim-node c15-child <script.json>`.
pub fn child_main(script_path: &str) -> i32 {
    let script: Script = match std::fs::read(script_path).ok().and_then(|b| serde_json::from_slice(&b).ok()) {
        Some(s) => s,
        None => return 3,
    };
    simcore::libc_seams::enable_random(script.seed);
    simcore::libc_seams::enable_clock(simcore::libc_seams::EPOCH_US);
    let progress_path = format!("{}.progress", script.db);
    let r = std::thread::Builder::new()
        .name("sim-node".into())
        .spawn(move || stepexec::block_on_seeded(script.seed, async move { run_script(&script, Some(&progress_path)).await.map(|_| ()) }))
        .unwrap()
        .join();
    match r {
        Ok(Ok(())) => 0,
        _ => 4,
    }
}
