//! C26 — The length-prefixed wire codec decodes exactly the encoded message sequence under any
//! chunking of the byte stream; frames above the configured maximum are rejected on encode and on
//! decode and no smaller frame is; a truncated stream gives an error or end-of-stream, never a
//! wrong message; nothing hangs.
//!
//! Engine: DES. A writer task pushes messages through the real `Codec` (`FramedWrite` /
//! `into_codec_sink`) into a `SimPipe`; a reader task pulls them out through `FramedRead` /
//! `into_codec_stream`. The pipe decides chunk sizes, `Pending` insertions, short writes, back
//! pressure and the EOF cut. Ground truth (frame boundaries, what was really written) is taken at
//! the seam and from an independent `postcard::to_allocvec` of every message.

use std::cell::RefCell;
use std::pin::Pin;
use std::rc::Rc;

use futures_util::{Sink, SinkExt, Stream, StreamExt};
use p2panda_core::{Body, Header};
use p2panda_net::codec::{Codec, CodecError, into_codec_sink, into_codec_stream};
use p2panda_sync::protocols::{LogSyncMessage, TopicLogSyncMessage};
use serde::{Deserialize, Serialize};
use simcore::{Budget, Property, Tier, ctx, des, ev, violation};
use simworld::logworld::{LogIdT, SimExt, make_body, make_op, signing_key};
use tokio_util::codec::{FramedRead, FramedWrite};

use crate::simpipe::{Chunking, PipeCfg, PipeProbe, ReadEvent, pipe};

pub struct C26Prop;
pub static C26: C26Prop = C26Prop;

/// The wire message of this check: harness payloads of exact sizes plus the repository's real
/// payload types (operations as `(Header, Option<Body>)` and `TopicLogSyncMessage`).
#[derive(Clone, Debug, PartialEq, Serialize, Deserialize)]
enum Msg {
    Blob(#[serde(with = "serde_bytes")] Vec<u8>),
    Text(String),
    Op(Header<SimExt>, Option<Body>),
    Sync(TopicLogSyncMessage<LogIdT, SimExt>),
    Tick,
}

impl Msg {
    fn label(&self) -> String {
        match self {
            Msg::Blob(v) => format!("Blob({}B)", v.len()),
            Msg::Text(s) => format!("Text({}B)", s.len()),
            Msg::Op(h, b) => format!("Op(seq {}, body {}B)", h.seq_num, b.as_ref().map(|b| b.size()).unwrap_or(0)),
            Msg::Sync(TopicLogSyncMessage::Sync(LogSyncMessage::Have(h))) => format!("Sync(Have {} authors)", h.len()),
            Msg::Sync(TopicLogSyncMessage::Sync(LogSyncMessage::PreSync { .. })) => "Sync(PreSync)".into(),
            Msg::Sync(TopicLogSyncMessage::Sync(LogSyncMessage::Operation(h, b))) => format!("Sync(Operation {}B+{}B)", h.len(), b.as_ref().map(|b| b.len()).unwrap_or(0)),
            Msg::Sync(TopicLogSyncMessage::Sync(LogSyncMessage::Done)) => "Sync(Done)".into(),
            Msg::Sync(TopicLogSyncMessage::Live(h, _)) => format!("Sync(Live seq {})", h.seq_num),
            Msg::Sync(TopicLogSyncMessage::Close) => "Sync(Close)".into(),
            Msg::Tick => "Tick".into(),
        }
    }
}

fn blob(i: usize, n: usize) -> Msg {
    Msg::Blob((0..n).map(|j| (i.wrapping_mul(31).wrapping_add(j.wrapping_mul(7)) % 251) as u8).collect())
}

/// Payload sizes around the interesting boundaries: empty, the 1→2 byte postcard varint at 128,
/// 2→3 bytes at 16384, and frames that end exactly at / one byte around tokio-util's initial
/// 8 KiB read buffer (4 + 1 + 2 + 8185 = 8192).
const SIZES: [usize; 22] = [5, 0, 1, 126, 127, 128, 129, 122, 250, 300, 1000, 4000, 8184, 8185, 8186, 8187, 9000, 16380, 16381, 16382, 16383, 20000];

fn gen_msg(i: usize, max_payload: usize) -> Msg {
    match ctx::choose("msg.kind", 7) {
        0 | 5 | 6 => {
            let allowed: Vec<usize> = SIZES.iter().copied().filter(|s| *s <= max_payload).collect();
            blob(i, *ctx::pick("msg.size", &allowed))
        }
        1 => Msg::Text(ctx::pick("msg.text", &["", "hello", "aquariums", "h\u{e9}llo \u{2713} \u{1f43c}", "boom boom boom boom boom boom boom boom boom boom boom boom boom boom boom boom boom boom boom boom boom boom boom boom boom boom !"]).to_string()),
        2 => {
            let op = gen_op(i);
            Msg::Op(op.0, op.1)
        }
        3 => {
            let m = match ctx::choose("msg.sync", 6) {
                0 => TopicLogSyncMessage::Sync(LogSyncMessage::Done),
                1 => {
                    let mut heights = std::collections::BTreeMap::new();
                    for a in 0..1 + ctx::choose("have.authors", 3) {
                        let mut logs = std::collections::BTreeMap::new();
                        for l in 0..ctx::choose("have.logs", 3) {
                            logs.insert(l as u64, (a * 10 + l) as u32);
                        }
                        heights.insert(signing_key(a as u64).verifying_key(), logs);
                    }
                    TopicLogSyncMessage::Sync(LogSyncMessage::Have(heights))
                }
                2 => TopicLogSyncMessage::Sync(LogSyncMessage::PreSync { total_operations: i as u32 * 1000, total_bytes: u32::MAX - i as u32 }),
                3 => {
                    let (h, b) = gen_op(i);
                    TopicLogSyncMessage::Sync(LogSyncMessage::Operation(h.to_bytes(), b.map(|b| b.to_bytes())))
                }
                4 => {
                    let (h, b) = gen_op(i);
                    TopicLogSyncMessage::Live(h, b)
                }
                _ => TopicLogSyncMessage::Close,
            };
            Msg::Sync(m)
        }
        _ => Msg::Tick,
    }
}

fn gen_op(i: usize) -> (Header<SimExt>, Option<Body>) {
    let key = signing_key(ctx::choose("op.author", 3) as u64);
    let seq = ctx::choose("op.seq", 3) as u64;
    let body = make_body(ctx::seed() ^ i as u64, ctx::choose("op.body", 3));
    let backlink = if seq == 0 { None } else { Some(p2panda_core::Hash::digest([i as u8, 1, 2])) };
    let op = make_op(&key, 7, seq as _, backlink, false, body);
    (op.header, op.body)
}

fn varint_len(mut n: usize) -> usize {
    let mut l = 1;
    while n >= 128 {
        n >>= 7;
        l += 1;
    }
    l
}

fn varint(mut n: usize) -> Vec<u8> {
    let mut out = vec![];
    loop {
        let b = (n & 0x7f) as u8;
        n >>= 7;
        if n == 0 {
            out.push(b);
            return out;
        }
        out.push(b | 0x80);
    }
}

/// A frame built by hand (no `Codec::encode`): 4-byte big-endian length + postcard encoding of
/// `Msg::Blob` (variant 0, varint length, bytes). Returns (bytes, frame_len) with frame_len >= want.
fn handbuilt_blob_frame(want_frame_len: usize) -> (Vec<u8>, usize) {
    let mut frame_len = want_frame_len.max(2);
    loop {
        for vl in 1..=5usize {
            if frame_len < 1 + vl {
                continue;
            }
            let n = frame_len - 1 - vl;
            if varint_len(n) == vl {
                let mut out = (frame_len as u32).to_be_bytes().to_vec();
                out.push(0);
                out.extend(varint(n));
                out.extend((0..n).map(|j| (j % 13) as u8));
                return (out, frame_len);
            }
        }
        frame_len += 1;
    }
}

#[derive(Clone, Debug, PartialEq)]
enum End {
    Eos,
    Err(String),
}

fn err_kind(e: &CodecError) -> String {
    match e {
        CodecError::TooLargeMessage(a, b) => format!("TooLargeMessage({a}>{b})"),
        CodecError::Postcard(p) => format!("Postcard({p})"),
        CodecError::Io(i) => format!("Io({:?})", i.kind()),
    }
}

#[derive(Default)]
struct Progress {
    sent: Vec<(usize, Result<(), String>)>,
    writer_done: bool,
    close_result: Option<Result<(), String>>,
    got: Vec<Msg>,
    end: Option<End>,
}

#[derive(Clone, Copy, PartialEq, Eq, Debug)]
enum Scenario {
    Plain,
    Chunked,
    EncMax,
    DecMax,
    Truncated,
}

struct Frame {
    idx: Option<usize>,
    start: u64,
    end: u64,
    len: usize,
}

fn chunk_policy(label: &'static str, label_kind: &'static str) -> Chunking {
    let m = *ctx::pick(label, &[usize::MAX, 1, 2, 3, 5, 16, 64, 1024, 8192]);
    if m == usize::MAX {
        Chunking::Whole
    } else if ctx::chance(label_kind, 1, 2) {
        Chunking::Random(m)
    } else {
        Chunking::Fixed(m)
    }
}

fn chunk_bound(c: Chunking) -> usize {
    match c {
        Chunking::Whole => usize::MAX,
        Chunking::Fixed(m) | Chunking::Random(m) => m,
    }
}

async fn writer_task<S>(sink: S, msgs: Vec<Msg>, latency: bool, inject: Option<(crate::simpipe::RawInjector, Vec<u8>)>, prog: Rc<RefCell<Progress>>)
where
    S: Sink<Msg, Error = CodecError>,
{
    let mut sink: Pin<Box<S>> = Box::pin(sink);
    for (i, m) in msgs.into_iter().enumerate() {
        if latency {
            des::latency("w.lat").await;
        }
        let feed_only = ctx::chance("w.feed_only", 1, 3);
        let r = if feed_only { sink.feed(m).await } else { sink.send(m).await };
        let r = r.map_err(|e| err_kind(&e));
        ev!("w: {} #{i} -> {}", if feed_only { "feed" } else { "send" }, match &r { Ok(()) => "Ok".to_string(), Err(e) => format!("Err({e})") });
        prog.borrow_mut().sent.push((i, r));
    }
    if let Some((inj, bytes)) = inject {
        let r = sink.flush().await.map_err(|e| err_kind(&e));
        ev!("w: flush -> {r:?}; injecting {} hand-built bytes", bytes.len());
        inj.inject(&bytes);
    }
    let r = sink.close().await.map_err(|e| err_kind(&e));
    ev!("w: close -> {r:?}");
    let mut p = prog.borrow_mut();
    p.close_result = Some(r);
    p.writer_done = true;
}

async fn reader_task<R>(stream: R, latency: bool, prog: Rc<RefCell<Progress>>)
where
    R: Stream<Item = Result<Msg, CodecError>> + Unpin,
{
    let mut stream = stream;
    loop {
        if latency {
            des::latency("r.lat").await;
        }
        match stream.next().await {
            Some(Ok(m)) => {
                let n = prog.borrow().got.len();
                ev!("r: item {n}: {}", m.label());
                prog.borrow_mut().got.push(m);
            }
            Some(Err(e)) => {
                ev!("r: Err({})", err_kind(&e));
                prog.borrow_mut().end = Some(End::Err(err_kind(&e)));
                return;
            }
            None => {
                ev!("r: end of stream");
                prog.borrow_mut().end = Some(End::Eos);
                return;
            }
        }
    }
}

fn reads_summary(probe: &PipeProbe) -> String {
    probe.with_stats(|st| {
        let mut out = String::new();
        for (i, e) in st.reads.iter().enumerate() {
            if i >= 48 {
                out.push_str(&format!(" ... ({} more)", st.reads.len() - i));
                break;
            }
            match e {
                ReadEvent::Data { n, .. } => out.push_str(&format!(" {n}")),
                ReadEvent::InsertedPending => out.push_str(" P"),
                ReadEvent::Parked { .. } => out.push_str(" wait"),
                ReadEvent::Eof { at } => out.push_str(&format!(" EOF@{at}")),
            }
        }
        out
    })
}

impl Property for C26Prop {
    fn id(&self) -> &'static str {
        "C26"
    }
    fn budget(&self, tier: Tier) -> Budget {
        match tier {
            Tier::Quick => Budget { runs: 45_000, wall_cap_s: 32 },
            Tier::Thorough => Budget { runs: 600_000, wall_cap_s: 320 },
        }
    }
    fn modes(&self) -> u32 {
        5
    }
    fn mode_name(&self, mode: u32) -> &'static str {
        match mode {
            0 => "plain",
            1 => "chunked",
            2 => "max-frame-len-on-encode",
            3 => "max-frame-len-on-decode",
            _ => "truncated",
        }
    }
    fn rule(&self) -> &'static str {
        "one run = 1..8 messages (blobs with payload sizes at the varint / 8 KiB read-buffer boundaries, strings, signed operations as (Header, Option<Body>), TopicLogSyncMessage variants, unit) written by one task through FramedWrite<SimPipe, Codec> (send or feed+flush per message) and read by another through FramedRead; per mode the pipe draws read/write chunk policies (whole, fixed or random 1..=m for m in 1..8192), Pending insertions, a bounded buffer, latencies on both sides; max_frame_len on the encoder or the decoder = len-1 / len / len+1 of a chosen message, optionally a hand-built oversized frame (valid body, header only, partial body) appended for the decoder; EOF cut at byte k of a short transcript; non-trivial = >= 2 messages or any fault fired; distinct = distinct trace fingerprint"
    }
    fn components_real(&self) -> Vec<&'static str> {
        vec![
            "p2panda_net::codec::Codec (Encoder::encode, Decoder::decode, max_frame_len)",
            "p2panda_net::codec::{into_codec_sink, into_codec_stream} (plain mode) and tokio_util::codec::{FramedWrite, FramedRead} over the Codec (all modes)",
            "payload types: p2panda_core::{Header, Body}, p2panda_sync::protocols::TopicLogSyncMessage (serde through postcard)",
        ]
    }
    fn components_stub(&self) -> Vec<&'static str> {
        vec!["QUIC stream (iroh SendStream / RecvStream): SimPipe, an in-memory AsyncWrite/AsyncRead pair with PRNG chunking, Pending insertions, short writes, bounded buffer, EOF at byte k"]
    }
    fn expected_probes(&self) -> Vec<&'static str> {
        vec![
            "read_split_inside_length_prefix",
            "read_split_between_prefix_and_body",
            "read_split_inside_body",
            "two_frames_in_one_read",
            "reader_parked_mid_frame",
            "writer_blocked_on_capacity",
            "frame_reaches_beyond_initial_read_buffer",
            "eof_inside_length_prefix",
            "eof_inside_body",
            "eof_at_frame_boundary",
            "encode_frame_len_eq_max_accepted",
            "encode_frame_len_eq_max_plus_1_rejected",
            "decode_frame_len_eq_max_accepted",
            "decode_frame_len_eq_max_plus_1_rejected",
            "encoder_used_after_rejection",
            "handbuilt_oversized_full_frame_rejected",
            "handbuilt_oversized_header_only_rejected",
        ]
    }

    fn run(&self) {
        let scenario = match ctx::mode() {
            0 => Scenario::Plain,
            1 => Scenario::Chunked,
            2 => Scenario::EncMax,
            3 => Scenario::DecMax,
            _ => Scenario::Truncated,
        };

        // ---- configuration ---------------------------------------------------------------------
        let faulty_pipe = match scenario {
            Scenario::Plain => false,
            Scenario::Chunked => true,
            _ => ctx::chance("pipe_faults", 2, 3),
        };
        let mut pcfg = PipeCfg::plain();
        let mut latency = false;
        if faulty_pipe {
            pcfg.read_chunk = chunk_policy("r.policy", "r.policy_random");
            pcfg.write_chunk = chunk_policy("w.policy", "w.policy_random");
            pcfg.pending_den = *ctx::pick("pending_den", &[0usize, 8, 3, 2]);
            pcfg.capacity = *ctx::pick("capacity", &[usize::MAX, 4096, 64, 7, 1]);
            latency = ctx::chance("latency", 1, 2);
        }
        // Keep the number of pipe operations (and choices) bounded: small chunks ⇒ small payloads.
        let bound = chunk_bound(pcfg.read_chunk).min(chunk_bound(pcfg.write_chunk)).min(pcfg.capacity);
        let mut max_payload = if bound <= 5 {
            300
        } else if bound <= 64 {
            4000
        } else {
            20000
        };
        let n_msgs = if scenario == Scenario::Truncated {
            max_payload = max_payload.min(300);
            1 + ctx::choose("msgs", 3)
        } else {
            1 + ctx::choose("msgs", 8)
        };
        let msgs: Vec<Msg> = (0..n_msgs).map(|i| gen_msg(i, max_payload)).collect();
        // Independent size computation (not Codec's): the postcard encoding of each message.
        let lens: Vec<usize> = msgs.iter().map(|m| postcard::to_allocvec(m).expect("postcard encodes harness message").len()).collect();
        for (m, _) in msgs.iter().zip(&lens) {
            // Harness self-check: the message round-trips through plain postcard without the codec.
            let bytes = postcard::to_allocvec(m).unwrap();
            let back: Msg = postcard::from_bytes(&bytes).expect("postcard decodes harness message");
            assert!(&back == m, "harness message does not round-trip through postcard: {}", m.label());
        }

        const DEFAULT_MAX: usize = 1024 * 1024 * 128;
        let mut enc_max = DEFAULT_MAX;
        let mut dec_max = DEFAULT_MAX;
        // The hand-built oversized frame goes last, so when it is planned every real frame has to
        // pass the decoder: the maximum is then drawn around the LARGEST real frame.
        let plan_inject = scenario == Scenario::DecMax && ctx::chance("inject", 1, 2);
        if matches!(scenario, Scenario::EncMax | Scenario::DecMax) {
            let (j, max) = if plan_inject {
                let j = (0..n_msgs).max_by_key(|i| lens[*i]).unwrap();
                (j, lens[j] + ctx::choose("max.delta", 2))
            } else {
                let j = ctx::choose("max.target", n_msgs);
                let max = match ctx::choose("max.delta", 3) {
                    0 => lens[j],
                    1 => lens[j] + 1,
                    _ => lens[j] - 1,
                };
                (j, max)
            };
            if scenario == Scenario::EncMax {
                enc_max = max;
            } else {
                dec_max = max;
            }
            ev!("max_frame_len on the {} = {max} (around message #{j} of {} bytes)", if scenario == Scenario::EncMax { "encoder" } else { "decoder" }, lens[j]);
        }

        // What the wire will carry: the frames of the messages the encoder must accept …
        let mut frames: Vec<Frame> = Vec::new();
        let mut off = 0u64;
        for (i, l) in lens.iter().enumerate() {
            if *l <= enc_max {
                frames.push(Frame { idx: Some(i), start: off, end: off + 4 + *l as u64, len: *l });
                off += 4 + *l as u64;
            }
        }
        // … plus, for the decoder, optionally a hand-built oversized frame at the end.
        let mut inject_bytes: Option<Vec<u8>> = None;
        let mut inject_kind = "";
        if plan_inject {
            let (full, flen) = handbuilt_blob_frame(dec_max + 1 + *ctx::pick("inject.extra", &[0usize, 1, 100]));
            let (bytes, kind) = match ctx::choose("inject.kind", 3) {
                0 => (full, "full"),
                1 => {
                    let huge = *ctx::pick("inject.huge", &[u32::MAX, (dec_max + 1) as u32, 0x8000_0000]);
                    let mut b = huge.to_be_bytes().to_vec();
                    b.extend([1u8, 2, 3].iter().take(ctx::choose("inject.tail", 4)));
                    (b, "header-only")
                }
                _ => {
                    let keep = 4 + (full.len() - 4) / 2;
                    (full[..keep].to_vec(), "partial-body")
                }
            };
            ev!("hand-built oversized frame ({kind}): announces {} bytes > max {dec_max}, {} bytes on the wire", if kind == "header-only" { u32::from_be_bytes(bytes[..4].try_into().unwrap()) as usize } else { flen }, bytes.len());
            frames.push(Frame { idx: None, start: off, end: off + bytes.len() as u64, len: usize::MAX });
            off += bytes.len() as u64;
            inject_bytes = Some(bytes);
            inject_kind = kind;
        }
        let total = off;
        if scenario == Scenario::Truncated {
            let k = total - ctx::choose("eof_at", total as usize + 1) as u64;
            pcfg.eof_at = Some(k);
            ev!("EOF cut at byte {k} of {total}");
        }

        ev!(
            "pipe: read {} / write {} / pending 1/{} / capacity {} / latency {latency}",
            pcfg.read_chunk.describe(),
            pcfg.write_chunk.describe(),
            pcfg.pending_den,
            if pcfg.capacity == usize::MAX { "unbounded".to_string() } else { pcfg.capacity.to_string() }
        );
        for (i, m) in msgs.iter().enumerate() {
            let f = frames.iter().find(|f| f.idx == Some(i));
            ev!(
                "msg #{i}: {} = {} bytes{}",
                m.label(),
                lens[i],
                match f {
                    Some(f) => format!(", frame at [{}..{})", f.start, f.end),
                    None => format!(" > encoder max {enc_max}: must be rejected"),
                }
            );
        }
        if n_msgs >= 2 {
            ctx::mark_nontrivial();
        }

        // ---- execution -------------------------------------------------------------------------
        let prog = Rc::new(RefCell::new(Progress::default()));
        let (w, r, probe) = pipe(pcfg);
        let use_helpers = scenario == Scenario::Plain || (scenario == Scenario::Chunked && ctx::chance("helpers", 1, 2));
        let inject = inject_bytes.clone().map(|b| (w.injector(), b));
        let res = {
            let prog = prog.clone();
            let msgs = msgs.clone();
            des::run(move || async move {
                let (wt, rt) = if use_helpers {
                    // The crate's public helpers (default max_frame_len).
                    let sink = into_codec_sink::<Msg, _>(w);
                    let stream = into_codec_stream::<Msg, _>(r);
                    (des::spawn(writer_task(sink, msgs, latency, inject, prog.clone())), des::spawn(reader_task(stream, latency, prog.clone())))
                } else {
                    let sink = FramedWrite::new(w, Codec::<Msg>::new().max_frame_len(enc_max));
                    let stream = FramedRead::new(r, Codec::<Msg>::new().max_frame_len(dec_max));
                    (des::spawn(writer_task(sink, msgs, latency, inject, prog.clone())), des::spawn(reader_task(stream, latency, prog.clone())))
                };
                let a = wt.await;
                let b = rt.await;
                (a.is_ok(), b.is_ok())
            })
        };
        ev!("reads:{}", reads_summary(&probe));
        ctx::add_steps(probe.with_stats(|st| st.reads.len() as u64));

        // ---- oracle ----------------------------------------------------------------------------
        let p = prog.borrow();
        match res {
            Err(des::Hang) => {
                let site = match (p.writer_done, p.end.is_some()) {
                    (true, false) => "reader never finished after the writer closed the stream",
                    (false, true) => "writer never finished after the reader ended",
                    _ => "writer and reader both stuck",
                };
                violation("hang", site, format!("simulated watchdog fired: writer_done={} reader_end={:?} got {} of {} messages", p.writer_done, p.end, p.got.len(), frames.len()));
                return;
            }
            Ok((wa, rb)) => {
                if !wa || !rb {
                    // A panic inside a spawned task (JoinError): attribute like the runner does.
                    violation("panic", "task panicked inside FramedWrite/FramedRead/Codec", format!("writer ok={wa} reader ok={rb}"));
                    return;
                }
            }
        }
        let reader_gave_up_early = |i: usize| -> bool {
            // A write error is excusable only if the reader had already ended (error / EOF cut)
            // before everything was consumed: the pipe then answers BrokenPipe.
            let _ = i;
            probe.reader_gone() && (pcfg.eof_at.is_some() || dec_max != DEFAULT_MAX)
        };

        // Encode side.
        let mut rejected_before = false;
        for (i, r) in &p.sent {
            let fits = lens[*i] <= enc_max;
            match (fits, r) {
                (true, Ok(())) => {
                    if enc_max != DEFAULT_MAX && lens[*i] == enc_max {
                        ctx::probe("encode_frame_len_eq_max_accepted");
                    }
                    if rejected_before {
                        ctx::probe("encoder_used_after_rejection");
                    }
                }
                (false, Err(_)) => {
                    ctx::fault("oversized_frame_encode");
                    rejected_before = true;
                    if lens[*i] == enc_max + 1 {
                        ctx::probe("encode_frame_len_eq_max_plus_1_rejected");
                    }
                }
                (false, Ok(())) => {
                    violation("oversized-frame-accepted-on-encode", "Codec::encode", format!("message #{i} of {} bytes with max_frame_len {enc_max} -> Ok", lens[*i]));
                    return;
                }
                (true, Err(e)) => {
                    if e.starts_with("Io(") && reader_gave_up_early(*i) {
                        continue;
                    }
                    violation("frame-within-max-rejected-on-encode", "Codec::encode", format!("message #{i} of {} bytes with max_frame_len {enc_max} -> Err({e})", lens[*i]));
                    return;
                }
            }
        }
        if let Some(Err(e)) = &p.close_result {
            if !(e.starts_with("Io(") && reader_gave_up_early(0)) {
                violation("close-failed", "FramedWrite::close", format!("{e}"));
                return;
            }
        }

        // Decode side: expected prefix and expected ending.
        #[derive(Debug, PartialEq)]
        enum Want {
            Eos,
            MustErr,
            ErrOrEos,
        }
        let mut exp: Vec<&Msg> = Vec::new();
        let mut want = Want::Eos;
        let cut = pcfg.eof_at;
        for f in &frames {
            if let Some(k) = cut {
                if f.end > k {
                    // The frame hit by the cut is lost; nothing after it may appear.
                    want = Want::ErrOrEos;
                    if k == f.start {
                        ctx::probe("eof_at_frame_boundary");
                    } else if k < f.start + 4 {
                        ctx::probe("eof_inside_length_prefix");
                    } else {
                        ctx::probe("eof_inside_body");
                    }
                    break;
                }
            }
            match f.idx {
                Some(i) if f.len <= dec_max => {
                    if dec_max != DEFAULT_MAX && f.len == dec_max {
                        ctx::probe("decode_frame_len_eq_max_accepted");
                    }
                    exp.push(&msgs[i]);
                }
                Some(_) => {
                    want = Want::MustErr;
                    ctx::fault("oversized_frame_decode");
                    if f.len == dec_max + 1 {
                        ctx::probe("decode_frame_len_eq_max_plus_1_rejected");
                    }
                    break;
                }
                None => {
                    want = Want::MustErr;
                    break;
                }
            }
        }
        let handbuilt_reached = want == Want::MustErr && exp.len() == frames.iter().filter(|f| f.idx.is_some()).count() && inject_bytes.is_some();

        let end = p.end.clone().unwrap_or(End::Eos);
        for i in 0..p.got.len().max(exp.len()) {
            match (p.got.get(i), exp.get(i)) {
                (Some(g), Some(e)) => {
                    if g != *e {
                        violation("wrong-message", "Codec::decode", format!("item {i}: decoded {} but {} was encoded at this position", g.label(), e.label()));
                        return;
                    }
                }
                (Some(g), None) => {
                    let (clause, site) = match want {
                        Want::MustErr => ("oversized-frame-accepted-on-decode", "Codec::decode"),
                        Want::ErrOrEos => ("message-from-truncated-frame", "Codec::decode after EOF cut"),
                        Want::Eos => ("message-never-encoded", "Codec::decode"),
                    };
                    violation(clause, site, format!("item {i}: decoded {} although only {} complete acceptable frames precede it (max {dec_max}, cut {cut:?})", g.label(), exp.len()));
                    return;
                }
                (None, Some(e)) => {
                    violation(
                        "complete-frame-not-decoded",
                        match &end {
                            End::Err(e) if e.starts_with("Io(") => "Codec::decode left a complete frame in the buffer until end of stream",
                            End::Err(_) => "Codec::decode returned an error for a frame within max",
                            End::Eos => "stream ended before a complete frame was yielded",
                        },
                        format!("item {i} ({}, {} bytes) was fully delivered to the reader but the stream ended with {end:?} after {} items", e.label(), lens[frames[i].idx.unwrap_or(0)], p.got.len()),
                    );
                    return;
                }
                (None, None) => unreachable!(),
            }
        }
        match (&want, &end) {
            (Want::Eos, End::Eos) | (Want::MustErr, End::Err(_)) | (Want::ErrOrEos, _) => {}
            (Want::Eos, End::Err(e)) => {
                violation("spurious-error-at-end-of-stream", "FramedRead end of stream", format!("all {} frames decoded, then Err({e})", exp.len()));
                return;
            }
            (Want::MustErr, End::Eos) => {
                violation("oversized-frame-not-rejected-on-decode", "Codec::decode", format!("stream ended without an error although frame {} exceeds max {dec_max}", exp.len()));
                return;
            }
        }
        if handbuilt_reached {
            ctx::fault("oversized_frame_handbuilt");
            match inject_kind {
                "full" => ctx::probe("handbuilt_oversized_full_frame_rejected"),
                "header-only" => ctx::probe("handbuilt_oversized_header_only_rejected"),
                _ => ctx::probe("handbuilt_oversized_partial_body_rejected"),
            }
        }

        // Probes from the seam's ground truth.
        probe.with_stats(|st| {
            if st.writer_blocked > 0 {
                ctx::probe("writer_blocked_on_capacity");
            }
            if frames.iter().any(|f| f.end - f.start > 8192) {
                ctx::probe("frame_reaches_beyond_initial_read_buffer");
            }
            let (mut in_prefix, mut at_body, mut in_body, mut two, mut parked) = (false, false, false, false, false);
            for e in &st.reads {
                match e {
                    ReadEvent::Data { at, n } => {
                        let b = at + *n as u64;
                        let mut starts = 0;
                        for f in &frames {
                            if b > f.start && b < f.start + 4 {
                                in_prefix = true;
                            } else if b == f.start + 4 && f.end > b {
                                at_body = true;
                            } else if b > f.start + 4 && b < f.end {
                                in_body = true;
                            }
                            if f.start >= *at && f.start < b {
                                starts += 1;
                            }
                        }
                        if starts >= 2 {
                            two = true;
                        }
                    }
                    ReadEvent::Parked { at } => {
                        if frames.iter().any(|f| *at > f.start && *at < f.end) {
                            parked = true;
                        }
                    }
                    _ => {}
                }
            }
            for (hit, name) in [
                (in_prefix, "read_split_inside_length_prefix"),
                (at_body, "read_split_between_prefix_and_body"),
                (in_body, "read_split_inside_body"),
                (two, "two_frames_in_one_read"),
                (parked, "reader_parked_mid_frame"),
            ] {
                if hit {
                    ctx::probe(name);
                }
            }
        });
        ev!("outcome: {} of {} messages decoded in order, stream end {end:?} (wanted {want:?})", p.got.len(), msgs.len());
    }
}
