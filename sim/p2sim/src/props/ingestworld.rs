//! Ingest world: a delivery schedule over an honest history H (reordered, duplicated, with gaps
//! and forged / corrupted copies) fed to the real `ingest_operation` / `Ingest` processor and the
//! real `LogPrune` processor over a real `SqliteStore` (or `MemStore`), checked step by step against
//! `LogModel`. Shared by C01, C03 and C05; each reports only its own clauses.

use std::borrow::Borrow;
use std::collections::{BTreeMap, BTreeSet};

use p2panda_core::cbor::decode_cbor;
use p2panda_core::{Body, Hash, Header, Operation, SeqNum, Topic, VerifyingKey};
use p2panda_store::Transaction;
use p2panda_store::logs::LogStore;
use p2panda_store::operations::OperationStore;
use p2panda_store::topics::TopicStore;
use p2panda_stream::Processor;
use p2panda_stream::ingest::{Ingest, IngestArgs, ingest_operation};
use p2panda_stream::log_prune::{LogPrune, LogPruneArgs};
use simcore::{ctx, ev, stepexec};
use simworld::logworld::{LogIdT, LogWorld, Op, SimExt, WorldParams, op_label, short_key, signing_key, topic};
use simworld::memstore::MemStore;
use simworld::populate::sqlite_memory;

#[derive(Clone, Copy, Debug, PartialEq, Eq)]
pub enum Which {
    C01,
    C03,
    C05,
}

#[derive(Clone, Debug)]
pub struct IngestCfg {
    pub which: Which,
    pub sqlite: bool,
    pub faults: bool,
    pub prune_step: bool,
    pub use_processor: bool,
    pub world: WorldParams,
    /// Forged copies per honest operation: numerator out of 8.
    pub forge_num: usize,
    /// 0 = one ingest call at a time; n >= 2 = the deliveries are spread over n concurrent ingest
    /// activities which interleave at every store call (SqliteStore only).
    pub concurrent: usize,
}

// ------------------------------------------------------------------------------------------------
// Forgeries
// ------------------------------------------------------------------------------------------------

pub const MUTATIONS: [&str; 18] = [
    "header_bit_flip",
    "body_bit_flip",
    "body_truncate",
    "body_extend",
    "body_swap",
    "field_version",
    "field_verifying_key",
    "field_payload_size",
    "field_payload_hash",
    "field_seq_num",
    "field_backlink",
    "field_ext_prune",
    "field_ext_log_id",
    "signature_strip",
    "signature_other_op",
    "resign_other_key_keep_author",
    "author_signed_malformed",
    "weak_key_signature",
];

fn fault_name(kind: &str) -> &'static str {
    match kind {
        "header_bit_flip" => "tamper.byte(header)",
        "body_bit_flip" => "tamper.byte(body)",
        "body_truncate" => "tamper.body_truncate",
        "body_extend" => "tamper.body_extend",
        "body_swap" => "tamper.body_swap",
        "field_version" => "tamper.field(version)",
        "field_verifying_key" => "tamper.field(verifying_key)",
        "field_payload_size" => "tamper.field(payload_size)",
        "field_payload_hash" => "tamper.field(payload_hash)",
        "field_seq_num" => "tamper.field(seq_num)",
        "field_backlink" => "tamper.field(backlink)",
        "field_ext_prune" => "tamper.field(ext.prune)",
        "field_ext_log_id" => "tamper.field(ext.log_id)",
        "signature_strip" => "tamper.signature_strip",
        "signature_other_op" => "tamper.signature_other_op",
        "resign_other_key_keep_author" => "tamper.resign",
        "weak_key_signature" => "tamper.weak_key_signature",
        _ => "byzantine_op(author_signed_malformed)",
    }
}

/// Returns a forged copy of `op`, or None when the mutation did not produce an effectively
/// different, still constructible operation (e.g. byte flip that no longer decodes: then the
/// wire decoder rejects it, counted separately).
fn forge(kind: &'static str, op: &Op, other: &Op, world: &LogWorld) -> Option<Op> {
    let mut h = op.header.clone();
    let mut body = op.body.clone();
    let foreign = signing_key(99);
    match kind {
        "header_bit_flip" => {
            let mut bytes = op.header.to_bytes();
            let pos = ctx::choose("forge.pos", bytes.len());
            let bit = ctx::choose("forge.bit", 8);
            bytes[pos] ^= 1 << bit;
            match decode_cbor::<Header<SimExt>, _>(&bytes[..]) {
                Ok(d) => {
                    if d == op.header {
                        return None; // non-canonical re-encoding of the same header: not tampering
                    }
                    h = d;
                }
                Err(_) => {
                    ctx::probe("bit_flip_rejected_by_decoder");
                    return None;
                }
            }
        }
        "body_bit_flip" => {
            let b = body.as_ref()?.to_bytes();
            let mut b2 = b.clone();
            let pos = ctx::choose("forge.pos", b2.len());
            b2[pos] ^= 1 << ctx::choose("forge.bit", 8);
            body = Some(Body::from(b2));
        }
        "body_truncate" => {
            let b = body.as_ref()?.to_bytes();
            if b.len() < 2 {
                return None;
            }
            body = Some(Body::from(b[..b.len() - 1].to_vec()));
        }
        "body_extend" => {
            let mut b = body.as_ref()?.to_bytes();
            b.push(0);
            body = Some(Body::from(b));
        }
        "body_swap" => {
            let ob = other.body.clone()?;
            if Some(&ob) == body.as_ref() {
                return None;
            }
            body = Some(ob);
        }
        "field_version" => h.version = if ctx::chance("forge.v0", 1, 2) { 0 } else { 2 },
        "field_verifying_key" => {
            let k = world.keys.iter().map(|k| k.verifying_key()).find(|k| *k != h.verifying_key).unwrap_or(foreign.verifying_key());
            h.verifying_key = k;
        }
        "field_payload_size" => h.payload_size = if ctx::chance("forge.minus", 1, 2) { h.payload_size.saturating_sub(1) } else { h.payload_size + 1 },
        "field_payload_hash" => h.payload_hash = Some(Hash::digest(b"forged payload")),
        "field_seq_num" => h.seq_num = if ctx::chance("forge.minus", 1, 2) && h.seq_num > 1 { h.seq_num - 1 } else { h.seq_num + 1 + ctx::choose("forge.seq", 3) as u32 },
        "field_backlink" => h.backlink = Some(if other.hash != op.hash { other.hash } else { Hash::digest(b"forged backlink") }),
        "field_ext_prune" => h.extensions.prune = !h.extensions.prune,
        "field_ext_log_id" => h.extensions.log_id = if other.header.extensions.log_id != h.extensions.log_id { other.header.extensions.log_id } else { h.extensions.log_id + 1 },
        "signature_strip" => h.signature = None,
        "signature_other_op" => {
            if other.header.signature == h.signature {
                return None;
            }
            h.signature = other.header.signature;
        }
        "resign_other_key_keep_author" => {
            // A forger without the author's key changes a field and signs with its own key.
            let author = h.verifying_key;
            match ctx::choose("forge.resign_field", 4) {
                0 => h.extensions.prune = true,
                1 => h.seq_num += 1000,
                2 => h.payload_hash = Some(Hash::digest(b"x")),
                _ => {}
            }
            h.sign(&foreign);
            h.verifying_key = author;
        }
        "weak_key_signature" => {
            // Nobody holds a key here: the claimed author is the small-order point (0, 1) and the
            // "signature" is R = (0, 1), s = 0, which satisfies the (non-strict) ed25519
            // verification equation for every message. Only strict verification rejects it.
            let mut pk = [0u8; 32];
            pk[0] = 1;
            let Ok(weak) = p2panda_core::VerifyingKey::from_bytes(&pk) else {
                ctx::probe("weak_key_rejected_by_constructor");
                return None;
            };
            let mut sig = [0u8; 64];
            sig[0] = 1;
            h.verifying_key = weak;
            h.seq_num = 0;
            h.backlink = None;
            h.extensions.prune = false;
            h.signature = Some(p2panda_core::identity::Signature::from_bytes(&sig));
        }
        _ => {
            // The author itself (has the key) signs a header that is internally inconsistent.
            let key = world.keys.iter().find(|k| k.verifying_key() == h.verifying_key)?;
            match ctx::choose("forge.malformed", 6) {
                0 => h.version = 2,
                5 => {
                    // a body attached to a header that declares no payload at all
                    h.payload_size = 0;
                    h.payload_hash = None;
                    body = Some(Body::from(b"smuggled".to_vec()));
                }
                1 => {
                    h.payload_size = 0; // hash without size
                    h.payload_hash = Some(Hash::digest(b"y"));
                }
                2 => {
                    h.payload_size = 5; // size without hash
                    h.payload_hash = None;
                    body = None;
                }
                3 => {
                    h.seq_num = 0; // backlink with seq 0
                    h.backlink = Some(Hash::digest(b"z"));
                }
                _ => {
                    h.seq_num = h.seq_num.max(1); // seq > 0 without backlink
                    h.backlink = None;
                }
            }
            h.sign(key);
            // Such a header may not even round-trip the wire encoding; through the typed API it
            // reaches ingest as is.
        }
    }
    if h == op.header && body == op.body {
        return None;
    }
    // Body stripped is not tampering; body changed while the header stays is.
    let hash = h.hash();
    Some(Operation { hash, header: h, body })
}

// ------------------------------------------------------------------------------------------------
// Inputs for the processors
// ------------------------------------------------------------------------------------------------

pub struct In {
    pub op: Op,
    pub args: IngestArgs<LogIdT, Topic>,
    pub prune: LogPruneArgs<VerifyingKey, LogIdT, SeqNum>,
}

impl Borrow<Operation<SimExt>> for In {
    fn borrow(&self) -> &Operation<SimExt> {
        &self.op
    }
}
impl Borrow<IngestArgs<LogIdT, Topic>> for In {
    fn borrow(&self) -> &IngestArgs<LogIdT, Topic> {
        &self.args
    }
}
impl Borrow<LogPruneArgs<VerifyingKey, LogIdT, SeqNum>> for In {
    fn borrow(&self) -> &LogPruneArgs<VerifyingKey, LogIdT, SeqNum> {
        &self.prune
    }
}

/// What the node's `Event::new` does: derive ingest and prune arguments from the header.
fn make_input(op: &Op, t: &Topic) -> In {
    let ext = &op.header.extensions;
    In {
        op: op.clone(),
        args: IngestArgs { log_id: ext.log_id, topic: *t, prune_flag: ext.prune },
        prune: if ext.prune {
            LogPruneArgs::PruneEntriesUntil { author: op.header.verifying_key, log_id: ext.log_id, seq_num: op.header.seq_num }
        } else {
            LogPruneArgs::Ignore
        },
    }
}

// ------------------------------------------------------------------------------------------------
// Model
// ------------------------------------------------------------------------------------------------

#[derive(Clone, Debug, Default)]
pub struct LogState {
    /// seq -> (id, flagged), as last read from the store.
    pub entries: BTreeMap<SeqNum, (Hash, bool)>,
    /// Highest height ever observed.
    pub height: Option<SeqNum>,
    /// Highest seq of an accepted flagged operation (None if none).
    pub floor: Option<SeqNum>,
}

#[derive(Clone, Copy, Debug, PartialEq, Eq)]
pub enum Expect {
    Inserted,
    AlreadyExists,
    Rejected,
}

fn predict(st: &LogState, stored_anywhere: &BTreeSet<Hash>, op: &Op) -> Expect {
    if stored_anywhere.contains(&op.hash) {
        return Expect::AlreadyExists;
    }
    let latest = st.entries.iter().next_back().map(|(s, (h, _))| (*s, *h));
    let s = op.header.seq_num;
    let flagged = op.header.extensions.prune;
    let ok = if s == 0 {
        latest.is_none()
    } else if !flagged {
        match latest {
            Some((ls, lh)) => ls + 1 == s && op.header.backlink == Some(lh),
            None => false,
        }
    } else {
        match latest {
            None => true,
            Some((ls, _)) => s > ls,
        }
    };
    if ok { Expect::Inserted } else { Expect::Rejected }
}

// ------------------------------------------------------------------------------------------------
// Deliveries
// ------------------------------------------------------------------------------------------------

#[derive(Clone)]
pub struct Delivery {
    pub op: Op,
    /// None = honest copy; Some(kind) = forged.
    pub forged: Option<&'static str>,
    pub honest_of: Hash,
}

fn build_schedule(cfg: &IngestCfg, world: &LogWorld) -> Vec<Delivery> {
    let all = world.all_ops();
    let mut ds: Vec<Delivery> = vec![];
    for op in &all {
        if cfg.faults && ctx::chance("sched.drop", 1, 10) {
            ctx::fault("drop");
            continue;
        }
        ds.push(Delivery { op: op.clone(), forged: None, honest_of: op.hash });
        if cfg.faults && ctx::chance("sched.dup", 1, 6) {
            ctx::fault("duplicate");
            ds.push(Delivery { op: op.clone(), forged: None, honest_of: op.hash });
        }
        // A Byzantine *author* (it has the key): validly signed operations which do not extend the
        // log — a skipped sequence number with the backlink of the real predecessor, or the right
        // sequence number with a backlink to some other operation.
        if cfg.faults && op.header.seq_num > 0 && ctx::chance("sched.byz_author", 1, 10) {
            if let Some(key) = world.keys.iter().find(|k| k.verifying_key() == op.header.verifying_key) {
                let skip = ctx::chance("byz.skip", 1, 2);
                let other = ctx::pick("byz.other", &all).clone();
                let (seq, backlink) = if skip { (op.header.seq_num + 1 + ctx::choose("byz.by", 3) as u32, op.header.backlink) } else { (op.header.seq_num, Some(if Some(other.hash) != op.header.backlink { other.hash } else { Hash::digest(b"byz backlink") })) };
                let b = simworld::logworld::make_op(key, op.header.extensions.log_id, seq, backlink, false, simworld::logworld::make_body(seq as u64 ^ 0xb12, 1));
                ctx::fault(if skip { "byzantine_op(author_signed_seq_skip)" } else { "byzantine_op(author_signed_wrong_backlink)" });
                ds.push(Delivery { honest_of: b.hash, op: b, forged: None });
            }
        }
        if cfg.faults && cfg.forge_num > 0 && ctx::chance("sched.forge", cfg.forge_num, 8) {
            let kind = *ctx::pick("forge.kind", &MUTATIONS);
            let other = ctx::pick("forge.other", &all).clone();
            if let Some(f) = forge(kind, op, &other, world) {
                ctx::fault(fault_name(kind));
                ds.push(Delivery { op: f, forged: Some(kind), honest_of: op.hash });
            }
        }
    }
    if cfg.faults {
        match ctx::choose("sched.order", 4) {
            0 => {}
            1 => {
                // Local reordering: swap neighbours.
                let n = ds.len();
                for i in 0..n.saturating_sub(1) {
                    if ctx::chance("sched.swap", 1, 4) {
                        ds.swap(i, i + 1);
                        ctx::fault("reorder");
                    }
                }
            }
            2 => {
                // A few long delays: move single deliveries far back.
                let n = ds.len();
                if n > 2 {
                    for _ in 0..ctx::range("sched.delays", 1, 3) {
                        let i = ctx::choose("sched.from", n - 1);
                        let j = i + 1 + ctx::choose("sched.to", n - 1 - i);
                        let d = ds.remove(i);
                        ds.insert(j.min(ds.len()), d);
                        ctx::fault("delay");
                    }
                }
            }
            _ => {
                ctx::shuffle("sched.shuffle", &mut ds);
                ctx::fault("reorder");
            }
        }
    }
    ds
}

// ------------------------------------------------------------------------------------------------
// Store access (generic over SqliteStore / MemStore)
// ------------------------------------------------------------------------------------------------

pub trait IngestStore:
    Transaction
    + OperationStore<Operation<SimExt>, Hash>
    + LogStore<Operation<SimExt>, VerifyingKey, LogIdT, SeqNum, Hash>
    + TopicStore<Topic, VerifyingKey, LogIdT>
    + Clone
{
}
impl<S> IngestStore for S where
    S: Transaction
        + OperationStore<Operation<SimExt>, Hash>
        + LogStore<Operation<SimExt>, VerifyingKey, LogIdT, SeqNum, Hash>
        + TopicStore<Topic, VerifyingKey, LogIdT>
        + Clone
{
}

type Dump = BTreeMap<(VerifyingKey, LogIdT), Vec<(SeqNum, Hash, Vec<u8>, Option<Vec<u8>>)>>;

async fn dump_log<S: IngestStore>(store: &S, k: &(VerifyingKey, LogIdT)) -> Vec<(SeqNum, Hash, Vec<u8>, Option<Vec<u8>>)> {
    match <S as LogStore<Operation<SimExt>, VerifyingKey, LogIdT, SeqNum, Hash>>::get_log_entries(store, &k.0, &k.1, None, None).await {
        Ok(Some(v)) => v.into_iter().map(|(o, hb)| (o.header.seq_num, o.hash, hb, o.body.map(|b| b.to_bytes()))).collect(),
        Ok(None) => vec![],
        Err(e) => {
            simcore::violation("store-error", "get_log_entries", format!("{e}"));
            vec![]
        }
    }
}

async fn dump_all<S: IngestStore>(store: &S, keys: &BTreeSet<(VerifyingKey, LogIdT)>) -> Dump {
    let mut d = Dump::new();
    for k in keys {
        let v = dump_log(store, k).await;
        if !v.is_empty() {
            d.insert(*k, v);
        }
    }
    d
}

// ------------------------------------------------------------------------------------------------
// The run
// ------------------------------------------------------------------------------------------------

pub fn run_ingest(cfg: &IngestCfg) {
    let cfg = cfg.clone();
    stepexec::block_on(async move {
        if cfg.concurrent >= 2 {
            let store = sqlite_memory().await;
            run_concurrent(&cfg, store.clone()).await;
            store.pool().close().await;
        } else if cfg.sqlite {
            let store = sqlite_memory().await;
            run_on(&cfg, store.clone()).await;
            store.pool().close().await;
        } else {
            run_on(&cfg, MemStore::new()).await;
        }
    });
}

fn viol(cfg: &IngestCfg, owner: Which, clause: &str, site: &str, detail: String) {
    if cfg.which == owner {
        simcore::violation(clause, site, detail);
    }
}

async fn run_on<S: IngestStore>(cfg: &IngestCfg, store: S)
where
    <S as LogStore<Operation<SimExt>, VerifyingKey, LogIdT, SeqNum, Hash>>::Error: std::fmt::Debug,
{
    let world = LogWorld::generate(&cfg.world);
    let t = topic(0);
    let honest: BTreeMap<Hash, Op> = world.by_hash();
    let ds = build_schedule(cfg, &world);
    ev!(
        "world: {} authors {} logs {} ops; {} deliveries ({} forged); store={} prune_step={} via={}",
        world.keys.len(),
        world.logs.len(),
        world.total_ops(),
        ds.len(),
        ds.iter().filter(|d| d.forged.is_some()).count(),
        if cfg.sqlite { "sqlite" } else { "memstore" },
        cfg.prune_step,
        if cfg.use_processor { "Ingest/LogPrune processors" } else { "ingest_operation + prune_entries" }
    );
    if ds.len() >= 2 {
        ctx::mark_nontrivial();
    }
    // All (author, log) keys that could possibly be touched: honest logs plus every claimed pair.
    let mut keys: BTreeSet<(VerifyingKey, LogIdT)> = world.logs.iter().map(|l| (l.author, l.log_id)).collect();
    for d in &ds {
        keys.insert((d.op.header.verifying_key, d.op.header.extensions.log_id));
    }
    let ingest_proc: Ingest<S, In, LogIdT, SimExt, Topic> = Ingest::new(store.clone());
    let prune_proc: LogPrune<S, In, LogIdT, SimExt> = LogPrune::new(store.clone());

    let mut model: BTreeMap<(VerifyingKey, LogIdT), LogState> = BTreeMap::new();
    let mut stored: BTreeSet<Hash> = BTreeSet::new();

    for (i, d) in ds.iter().enumerate() {
        let op = &d.op;
        let k = (op.header.verifying_key, op.header.extensions.log_id);
        let label = format!("{}{}", op_label(op), d.forged.map(|f| format!(" FORGED[{f}]")).unwrap_or_default());
        let before_all = if d.forged.is_some() { Some(dump_all(&store, &keys).await) } else { None };
        let st = model.entry(k).or_default().clone();
        let expect = if d.forged.is_some() { Expect::Rejected } else { predict(&st, &stored, op) };

        // --- the code under test ---
        let input = make_input(op, &t);
        let result: Result<bool, String> = if cfg.use_processor {
            match ingest_proc.process(input).await {
                Ok(()) => match ingest_proc.next().await {
                    Ok((_inp, r)) => Ok(matches!(r, p2panda_stream::ingest::IngestResult::Inserted)),
                    Err((_, e)) => Err(e.to_string()),
                },
                Err((_, e)) => Err(e.to_string()),
            }
        } else {
            ingest_operation(&store, op, &k.1, &t, op.header.extensions.prune).await.map_err(|e| e.to_string())
        };
        // The pipeline runs the prune step only for successfully ingested operations.
        if cfg.prune_step && result.is_ok() {
            let input = make_input(op, &t);
            if cfg.use_processor {
                if prune_proc.process(input).await.is_ok() {
                    let _ = prune_proc.next().await;
                }
            } else if let LogPruneArgs::PruneEntriesUntil { author, log_id, seq_num } = &input.prune {
                let _ = <S as LogStore<Operation<SimExt>, VerifyingKey, LogIdT, SeqNum, Hash>>::prune_entries(&store, author, log_id, seq_num).await;
            }
        }
        ev!("deliver[{i}] {label} -> {:?} (model: {:?})", result, expect);

        // --- oracles ---
        let after_log = dump_log(&store, &k).await;
        match (&d.forged, &result) {
            (Some(kind), Ok(_)) => {
                viol(cfg, Which::C01, "forged-accepted", kind, format!("{label} was answered {:?}", result));
            }
            (Some(kind), Err(_)) => {
                let after_all = dump_all(&store, &keys).await;
                if Some(&after_all) != before_all.as_ref() {
                    viol(cfg, Which::C01, "store-changed-by-rejected-forgery", kind, format!("{label}: dump differs after rejection"));
                    viol(cfg, Which::C03, "store-changed-by-rejected-operation", "forged", format!("{label}: dump differs after rejection"));
                }
            }
            (None, Ok(true)) => {
                if expect == Expect::Rejected {
                    // Attribute.
                    let latest = st.entries.iter().next_back().map(|(s, _)| *s);
                    let site = if op.header.extensions.prune && latest.map(|l| op.header.seq_num <= l).unwrap_or(false) {
                        ctx::probe("older_flagged_after_newer");
                        "flagged operation with seq <= latest stored seq accepted"
                    } else if op.header.extensions.prune {
                        "flagged operation accepted"
                    } else {
                        "unflagged operation accepted"
                    };
                    viol(cfg, Which::C03, "non-extending-operation-accepted", site, format!("{label} accepted although the log holds seqs {:?}", st.entries.keys().collect::<Vec<_>>()));
                }
                if expect == Expect::AlreadyExists {
                    viol(cfg, Which::C03, "duplicate-inserted-twice", "ingest", label.clone());
                }
            }
            (None, Ok(false)) => {
                if expect != Expect::AlreadyExists {
                    viol(cfg, Which::C03, "reported-existing-but-unknown", "ingest", label.clone());
                }
            }
            (None, Err(e)) => {
                if expect == Expect::Inserted {
                    viol(cfg, Which::C03, "valid-extension-rejected", "ingest", format!("{label}: {e}"));
                } else if expect == Expect::Rejected {
                    if op.header.seq_num > 0 && !op.header.extensions.prune && st.entries.is_empty() {
                        ctx::probe("missing_prefix_rejected");
                    }
                }
            }
        }
        if d.forged.is_none() && result == Ok(true) && op.header.extensions.prune && st.entries.keys().next_back().map(|l| op.header.seq_num > l + 1).unwrap_or(op.header.seq_num > 0) {
            ctx::probe("flagged_gap_accepted");
        }
        if d.forged.is_none() && result == Ok(false) {
            ctx::probe("duplicate_delivered");
        }
        if d.forged.is_some() {
            if stored.contains(&d.honest_of) {
                ctx::probe("forged_copy_after_honest");
            } else {
                ctx::probe("forged_copy_before_honest");
            }
        }

        // Chain invariants on the affected log (C03), authenticity (C01), floor (C05).
        let mut seqs = BTreeSet::new();
        let by_seq: BTreeMap<SeqNum, &(SeqNum, Hash, Vec<u8>, Option<Vec<u8>>)> = after_log.iter().map(|e| (e.0, e)).collect();
        for e in &after_log {
            if !seqs.insert(e.0) {
                viol(cfg, Which::C03, "duplicate-seq-in-log", "get_log_entries", format!("log {}:{} holds seq {} twice", short_key(&k.0), k.1, e.0));
            }
            match honest.get(&e.1) {
                None => viol(cfg, Which::C01, "stored-id-not-honest", "get_log_entries", format!("log {}:{} holds id {} which no author signed", short_key(&k.0), k.1, e.1)),
                Some(h) => {
                    if e.2 != h.header.to_bytes() {
                        viol(cfg, Which::C01, "stored-header-bytes-differ", "get_log_entries", format!("{}", op_label(h)));
                    }
                    if let Some(b) = &e.3 {
                        if Some(b) != h.body.as_ref().map(|x| x.to_bytes()).as_ref() {
                            viol(cfg, Which::C01, "stored-body-differs", "get_log_entries", format!("{}", op_label(h)));
                        }
                    }
                    let flagged = h.header.extensions.prune;
                    if e.0 > 0 && !flagged {
                        match by_seq.get(&(e.0 - 1)) {
                            Some(prev) if Some(prev.1) == h.header.backlink => {}
                            Some(_) => viol(cfg, Which::C03, "backlink-mismatch-in-store", "get_log_entries", format!("{}", op_label(h))),
                            None => viol(cfg, Which::C03, "gap-before-unflagged-entry", "get_log_entries", format!("{} stored without its predecessor", op_label(h))),
                        }
                    }
                }
            }
        }
        let st = model.get_mut(&k).unwrap();
        let new_height = after_log.iter().map(|e| e.0).max();
        if let (Some(old), new) = (st.height, new_height) {
            if new.map(|n| n < old).unwrap_or(true) {
                viol(cfg, Which::C03, "height-decreased", "get_log_entries", format!("log {}:{} height {:?} -> {:?}", short_key(&k.0), k.1, old, new));
            }
        }
        if let Some(n) = new_height {
            st.height = Some(st.height.map(|h| h.max(n)).unwrap_or(n));
        }
        if d.forged.is_none() && result == Ok(true) && op.header.extensions.prune {
            st.floor = Some(st.floor.map(|f| f.max(op.header.seq_num)).unwrap_or(op.header.seq_num));
        }
        if cfg.prune_step {
            if let Some(f) = st.floor {
                if let Some(e) = after_log.iter().find(|e| e.0 < f) {
                    let site = if d.forged.is_none() && result == Ok(true) && op.header.seq_num < f {
                        if op.header.extensions.prune { "older flagged operation accepted after newer prune point" } else { "older unflagged operation accepted after prune point" }
                    } else {
                        "entry below prune point present"
                    };
                    viol(cfg, Which::C05, "pruned-prefix-came-back", site, format!("log {}:{} pruned at {} holds seq {} after {label}", short_key(&k.0), k.1, f, e.0));
                }
            }
        }
        // Resynchronise the model's view of the log with the store (history variables stay).
        st.entries = after_log.iter().map(|e| (e.0, (e.1, honest.get(&e.1).map(|h| h.header.extensions.prune).unwrap_or(false)))).collect();
        for e in &after_log {
            stored.insert(e.1);
        }
        // Entries removed by a prune are no longer "stored anywhere".
        let present: BTreeSet<Hash> = after_log.iter().map(|e| e.1).collect();
        let gone: Vec<Hash> = honest.values().filter(|h| (h.header.verifying_key, h.header.extensions.log_id) == k && stored.contains(&h.hash) && !present.contains(&h.hash)).map(|h| h.hash).collect();
        for g in gone {
            stored.remove(&g);
        }
        if ctx::has_violation() {
            break;
        }
    }
    // Final: everything stored anywhere is honest (C01), read through a full dump.
    let fin = dump_all(&store, &keys).await;
    let mut total = 0;
    for (k, es) in &fin {
        for e in es {
            total += 1;
            if !honest.contains_key(&e.1) {
                viol(cfg, Which::C01, "stored-id-not-honest", "final-dump", format!("log {}:{} holds {}", short_key(&k.0), k.1, e.1));
            }
        }
    }
    ev!("final: {} entries stored in {} logs", total, fin.len());
}

// ------------------------------------------------------------------------------------------------
// Concurrent ingest: several ingest activities interleaving at every store call
// ------------------------------------------------------------------------------------------------

/// Who holds the store's transaction permit (tokio's semaphore is FIFO and hands a released permit
/// to the first waiter at once). Lets StepExec classify a `Pending` inside `begin()` exactly.
#[derive(Default)]
struct PermitModel {
    holder: Option<usize>,
    queue: std::collections::VecDeque<usize>,
    /// A waiter that has just been handed the permit: its wake-up comes at once (commit /
    /// rollback) or from the rollback task of a dropped permit at a timing-dependent moment; the
    /// harness waits for it before the next scheduling decision.
    pending_wake: Option<usize>,
}

impl PermitModel {
    fn attempt(&mut self, w: usize) {
        if self.holder.is_none() && self.queue.is_empty() {
            self.holder = Some(w);
        } else if self.holder != Some(w) && !self.queue.contains(&w) {
            self.queue.push_back(w);
        }
    }
    fn release(&mut self, w: usize) {
        if self.holder == Some(w) {
            self.holder = self.queue.pop_front();
            self.pending_wake = self.holder;
        } else {
            self.queue.retain(|x| *x != w);
        }
    }
}

#[derive(Clone)]
struct IngestGate {
    model: std::rc::Rc<std::cell::RefCell<PermitModel>>,
}

impl simworld::gated::Gate for IngestGate {
    async fn before(&self, method: &'static str) -> Result<(), String> {
        let Some(me) = stepexec::current_activity() else { return Ok(()) };
        // Every store call is a scheduling point.
        stepexec::preempt("ingest.gate", 2).await;
        if method == "begin" {
            self.model.borrow_mut().attempt(me);
        }
        let tx_bound = matches!(method, "begin" | "commit" | "rollback" | "insert_operation" | "associate" | "set_cursor") || method.ends_with("_tx");
        if !tx_bound {
            // A pool-level call: on the single connection of the in-memory pool it would wait for
            // the open transaction of another activity (on a file database SQLite's locking would
            // make a write wait). With a single poller that wait could never end, so the harness
            // serialises it here, at a seam, instead.
            while std::cell::RefCell::borrow(&self.model).holder.is_some_and(|h| h != me) {
                stepexec::gate().await;
            }
        }
        Ok(())
    }
    fn after(&self, method: &'static str) {
        if let Some(me) = stepexec::current_activity() {
            if method == "commit" || method == "rollback" {
                self.model.borrow_mut().release(me);
            }
        }
    }
}

type GIS = simworld::gated::GatedStore<p2panda_store::SqliteStore, IngestGate>;

async fn run_concurrent(cfg: &IngestCfg, sqlite: p2panda_store::SqliteStore) {
    use std::cell::RefCell;
    use std::rc::Rc;
    let world = LogWorld::generate(&cfg.world);
    let t = topic(0);
    let honest: BTreeMap<Hash, Op> = world.by_hash();
    let ds = build_schedule(cfg, &world);
    let n = cfg.concurrent;
    let mut parts: Vec<Vec<(usize, Delivery)>> = vec![vec![]; n];
    for (i, d) in ds.iter().enumerate() {
        parts[ctx::choose("conc.part", n)].push((i, d.clone()));
    }
    ev!(
        "world: {} authors {} logs {} ops; {} deliveries ({} forged) spread over {} concurrent ingest activities ({:?} each); prune_step={}",
        world.keys.len(),
        world.logs.len(),
        world.total_ops(),
        ds.len(),
        ds.iter().filter(|d| d.forged.is_some()).count(),
        n,
        parts.iter().map(|p| p.len()).collect::<Vec<_>>(),
        cfg.prune_step
    );
    if parts.iter().filter(|p| !p.is_empty()).count() >= 2 {
        ctx::mark_nontrivial();
    }
    let mut keys: BTreeSet<(VerifyingKey, LogIdT)> = world.logs.iter().map(|l| (l.author, l.log_id)).collect();
    for d in &ds {
        keys.insert((d.op.header.verifying_key, d.op.header.extensions.log_id));
    }
    let model = Rc::new(RefCell::new(PermitModel::default()));
    let store: GIS = simworld::gated::GatedStore::new(sqlite.clone(), IngestGate { model: model.clone() });
    let results: Rc<RefCell<BTreeMap<usize, Result<bool, String>>>> = Rc::new(RefCell::new(BTreeMap::new()));
    let mut ex = stepexec::StepExec::new();
    let prune_step = cfg.prune_step;
    for (a, part) in parts.into_iter().enumerate() {
        let store = store.clone();
        let model2 = model.clone();
        let res = results.clone();
        let act = ex.add(&format!("ingest{a}"), stepexec::Policy::Gated, async move {
            for (i, d) in part {
                let op = &d.op;
                let log_id = op.header.extensions.log_id;
                let r = ingest_operation(&store, op, &log_id, &t, op.header.extensions.prune).await.map_err(|e| e.to_string());
                // An error inside the transaction returns with `?`: the permit is dropped (its
                // rollback runs in a task the store spawned) and goes to the first waiter.
                model2.borrow_mut().release(a);
                if prune_step && r.is_ok() && op.header.extensions.prune {
                    let _ = <GIS as LogStore<Operation<SimExt>, VerifyingKey, LogIdT, SeqNum, Hash>>::prune_entries(&store, &op.header.verifying_key, &log_id, &op.header.seq_num).await;
                }
                ev!("ingest{a} deliver[{i}] {}{} -> {:?}", op_label(op), d.forged.map(|f| format!(" FORGED[{f}]")).unwrap_or_default(), r);
                res.borrow_mut().insert(i, r);
            }
        });
        let m3 = model.clone();
        ex.set_hint(act, move || std::cell::RefCell::borrow(&m3).holder.is_some_and(|h| h != act));
    }
    let mut steps = 0u64;
    let mut stall: Option<String> = None;
    loop {
        let pw = model.borrow_mut().pending_wake.take();
        if let Some(h) = pw {
            if ex.is_alive(h) && !ex.wait_for_wake(h).await {
                stall = Some(format!("ingest{h} was handed the permit but never woken"));
                break;
            }
        }
        match ex.step().await {
            Ok(stepexec::Step::Quiescent) => {
                // A live activity that has been handed the permit by a dropped one is only waiting
                // for the spawned rollback task to release it.
                let next = std::cell::RefCell::borrow(&model).holder;
                match next {
                    Some(h) if ex.is_alive(h) => {
                        if !ex.wait_for_wake(h).await {
                            stall = Some(format!("ingest{h} was handed the permit but never woken"));
                            break;
                        }
                    }
                    _ => break,
                }
            }
            Ok(stepexec::Step::Ran { act, finished }) => {
                if !finished && !ex.runnable().contains(&act) {
                    ctx::probe("ingest_parked_in_begin");
                }
            }
            Ok(stepexec::Step::Cancelled { .. }) => {}
            Err(s) => {
                stall = Some(format!("store call of {} got no answer (watchdog)", s.name));
                break;
            }
        }
        steps += 1;
        if steps > 100_000 {
            stall = Some("step budget exhausted".into());
            break;
        }
    }
    let alive: Vec<usize> = (0..n).filter(|a| ex.is_alive(*a)).collect();
    drop(ex);
    if let Some(s) = stall {
        viol(cfg, Which::C03, "ingest-never-completes", "concurrent ingest", s);
        return;
    }
    if !alive.is_empty() {
        viol(cfg, Which::C03, "ingest-never-completes", "concurrent ingest", format!("activities {alive:?} are still blocked at quiescence; permit holder {:?}", std::cell::RefCell::borrow(&model).holder));
        return;
    }
    // --- oracles over the outcome (verdicts of single deliveries depend on the interleaving and
    // are not predicted here; the invariants do not) ---
    let results = std::cell::RefCell::borrow(&results);
    let mut floor: BTreeMap<(VerifyingKey, LogIdT), SeqNum> = BTreeMap::new();
    for (i, d) in ds.iter().enumerate() {
        let Some(r) = results.get(&i) else { continue };
        if let (Some(kind), Ok(_)) = (&d.forged, r) {
            viol(cfg, Which::C01, "forged-accepted", kind, format!("{} FORGED[{kind}] was answered {r:?} (concurrent ingest)", op_label(&d.op)));
        }
        if d.forged.is_none() && r == &Ok(true) && d.op.header.extensions.prune && honest.contains_key(&d.op.hash) {
            let k = (d.op.header.verifying_key, d.op.header.extensions.log_id);
            let f = floor.entry(k).or_insert(d.op.header.seq_num);
            *f = (*f).max(d.op.header.seq_num);
        }
    }
    let fin = dump_all(&sqlite, &keys).await;
    let mut total = 0;
    for (k, es) in &fin {
        let by_seq: BTreeMap<SeqNum, &(SeqNum, Hash, Vec<u8>, Option<Vec<u8>>)> = es.iter().map(|e| (e.0, e)).collect();
        let mut seqs = BTreeSet::new();
        for e in es {
            total += 1;
            if !seqs.insert(e.0) {
                viol(cfg, Which::C03, "duplicate-seq-in-log", "get_log_entries", format!("log {}:{} holds seq {} twice (concurrent ingest)", short_key(&k.0), k.1, e.0));
            }
            match honest.get(&e.1) {
                None => viol(cfg, Which::C01, "stored-id-not-honest", "final-dump", format!("log {}:{} holds {} (concurrent ingest)", short_key(&k.0), k.1, e.1)),
                Some(h) => {
                    if e.2 != h.header.to_bytes() {
                        viol(cfg, Which::C01, "stored-header-bytes-differ", "get_log_entries", op_label(h).to_string());
                    }
                    if let Some(b) = &e.3 {
                        if Some(b) != h.body.as_ref().map(|x| x.to_bytes()).as_ref() {
                            viol(cfg, Which::C01, "stored-body-differs", "get_log_entries", op_label(h).to_string());
                        }
                    }
                    if e.0 > 0 && !h.header.extensions.prune {
                        match by_seq.get(&(e.0 - 1)) {
                            Some(prev) if Some(prev.1) == h.header.backlink => {}
                            Some(_) => viol(cfg, Which::C03, "backlink-mismatch-in-store", "get_log_entries", format!("{} (concurrent ingest)", op_label(h))),
                            None => viol(cfg, Which::C03, "gap-before-unflagged-entry", "get_log_entries", format!("{} stored without its predecessor (concurrent ingest)", op_label(h))),
                        }
                    }
                }
            }
        }
        if cfg.prune_step {
            if let Some(f) = floor.get(k) {
                if let Some(e) = es.iter().find(|e| e.0 < *f) {
                    viol(cfg, Which::C05, "pruned-prefix-came-back", "entry below prune point present after concurrent ingest", format!("log {}:{} pruned at {} holds seq {}", short_key(&k.0), k.1, f, e.0));
                }
            }
        }
    }
    ev!("final: {} entries stored in {} logs", total, fin.len());
}
