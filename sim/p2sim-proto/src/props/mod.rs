pub mod c02;
pub mod c25;

pub fn all() -> Vec<&'static dyn simcore::Property> {
    vec![&c02::C02, &c25::C25]
}
