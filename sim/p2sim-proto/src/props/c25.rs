//! C25 — Topic handshake transfers the initiator's topic or fails cleanly.
//!
//! Mode 0: real `TopicHandshakeInitiator` and real `TopicHandshakeAcceptor` talking to each other
//! over two `SimDuplex` links (seeded latencies, preempts, capacity, task deferral), no fault.
//! Mode 1 (enumeration): a fault-free reference execution records what each side receives and how
//! many sink operations it performs; then each side is re-run alone against a scripted remote,
//! once per fault point: stream closed after k messages (every k), message k replaced by / an extra
//! message inserted before k for every other message variant (including a topic message carrying
//! another topic), a stream error item at k, a sink error from sink operation k (every k).
//! Mode 2: both real sides with one seeded link fault; a side that returns hangs up its ends.
//!
//! Oracle: a trivial model of the handshake from one side's view (acceptor: `Topic(x)` then `Done`
//! ⇒ `Ok(x)`; initiator: `Done` ⇒ `Ok`; anything else ⇒ `Err`). The real side must return before
//! the simulated watchdog, `Ok` exactly when the model says so (with exactly the topic the remote
//! sent), `Err` otherwise. After a sink error `Ok` is tolerated only if every message of the side
//! really crossed the link (ground truth: the link transcript).

use std::cell::RefCell;
use std::rc::Rc;
use std::time::Duration;

use futures_channel::mpsc;
use futures_util::{SinkExt, StreamExt};
use p2panda_core::Topic;
use p2panda_sync::protocols::{TopicHandshakeAcceptor, TopicHandshakeError, TopicHandshakeEvent, TopicHandshakeInitiator, TopicHandshakeMessage};
use p2panda_sync::traits::Protocol;
use simcore::duplex::{Engine, LinkConfig, SimSink, SimStream, link};
use simcore::{Budget, Property, Tier, ctx, des, ev, violation};
use simworld::logworld::topic;

type M = TopicHandshakeMessage<Topic>;
type Ev = TopicHandshakeEvent<Topic>;

const WATCHDOG: Duration = Duration::from_secs(600);

#[derive(Clone, Copy, Debug, PartialEq, Eq)]
enum Role {
    Initiator,
    Acceptor,
}

impl Role {
    fn name(self) -> &'static str {
        match self {
            Role::Initiator => "initiator",
            Role::Acceptor => "acceptor",
        }
    }
}

/// What one side did. `returned == None`: it did not return before the simulated watchdog.
#[derive(Clone, Debug, Default)]
struct Side {
    returned: Option<Result<Option<Topic>, String>>,
    aborted: bool,
    events: Vec<String>,
    sent: Vec<M>,
    sink_ops: u64,
}

/// Topics are named by their index in the run's topic table (the bytes are derived from the run
/// seed and would make every trace trivially distinct).
fn tshort(t: &Topic) -> String {
    for i in 0..16u64 {
        if topic(i) == *t {
            return format!("T{i}");
        }
    }
    t.to_hex()[..6].to_string()
}

fn mlabel(m: &M) -> String {
    match m {
        TopicHandshakeMessage::Topic(t) => format!("Topic({})", tshort(t)),
        TopicHandshakeMessage::Done => "Done".to_string(),
    }
}

fn mlabels(ms: &[M]) -> String {
    ms.iter().map(mlabel).collect::<Vec<_>>().join(" ")
}

fn evlabel(e: &Ev) -> String {
    match e {
        TopicHandshakeEvent::Initiate(t) => format!("Initiate({})", tshort(t)),
        TopicHandshakeEvent::Accept => "Accept".to_string(),
        TopicHandshakeEvent::TopicReceived(t) => format!("TopicReceived({})", tshort(t)),
        TopicHandshakeEvent::Done(t) => format!("Done({})", tshort(t)),
    }
}

fn errlabel(e: &TopicHandshakeError<Topic>) -> String {
    match e {
        TopicHandshakeError::UnexpectedMessage(m) => format!("UnexpectedMessage({})", mlabel(m)),
        TopicHandshakeError::UnexpectedStreamClosure => "UnexpectedStreamClosure".to_string(),
        TopicHandshakeError::MessageSink(_) => "MessageSink".to_string(),
        TopicHandshakeError::MessageStream(_) => "MessageStream".to_string(),
        TopicHandshakeError::MpscSend(_) => "MpscSend".to_string(),
    }
}

fn rlabel(r: &Option<Result<Option<Topic>, String>>) -> String {
    match r {
        None => "DID-NOT-RETURN".to_string(),
        Some(Ok(None)) => "Ok".to_string(),
        Some(Ok(Some(t))) => format!("Ok({})", tshort(t)),
        Some(Err(e)) => format!("Err({e})"),
    }
}

/// The real protocol, one side.
async fn run_side(role: Role, t: Topic, sink: &mut SimSink<M>, stream: &mut SimStream<M>, etx: mpsc::Sender<Ev>) -> Result<Option<Topic>, String> {
    match role {
        Role::Initiator => TopicHandshakeInitiator::<Topic, Ev>::new(t, etx).run(sink, stream).await.map(|()| None).map_err(|e| errlabel(&e)),
        Role::Acceptor => TopicHandshakeAcceptor::<Topic, Ev>::new(etx).run(sink, stream).await.map(Some).map_err(|e| errlabel(&e)),
    }
}

fn drain(rx: &mut mpsc::Receiver<Ev>) -> Vec<String> {
    let mut out = vec![];
    while let Ok(e) = rx.try_recv() {
        out.push(evlabel(&e));
    }
    out
}

/// A panic inside a spawned side: either the seam's deliberate abort (busy loop; the violation is
/// already recorded) or a panic in the code under test.
fn classify_task_panic() {
    if let Some((loc, msg)) = simcore::runner::take_panic_info() {
        if msg.starts_with("SIM-ABORT") {
            return;
        }
        let file = loc.rsplit_once(':').map(|(f, _)| f.to_string()).unwrap_or(loc.clone());
        violation("panic", file.strip_prefix("/repo/").unwrap_or(&file), format!("panic at {loc}: {msg}"));
    }
}

/// Seeded transport knobs (value 0 = plain: unbounded, no preempt, no latency).
fn draw_link(seeded: bool) -> LinkConfig {
    let mut lc = LinkConfig::new(Engine::Des);
    lc.preempt_den = 0;
    if seeded {
        lc.preempt_den = *ctx::pick("link.preempt_den", &[0usize, 3, 2]);
        lc.capacity = *ctx::pick("link.capacity", &[usize::MAX, 1, 2]);
        lc.latency_us = match ctx::choose("link.latency_profile", 4) {
            0 => vec![0],
            1 => vec![0, 100, 1_000],
            2 => vec![0, 1_000, 50_000, 200_000],
            _ => vec![10_000, 3_000_000],
        };
    }
    lc
}

struct PairOut {
    ini: Side,
    acc: Side,
    hang: bool,
    to_acc: Vec<M>,
    to_ini: Vec<M>,
}

/// Both real sides. `close_on_return`: a side that returns hangs up (drops) both of its ends, as a
/// connection handler does; otherwise the ends stay open until both sides are through.
fn run_pair(t: Topic, lc_ia: LinkConfig, lc_ai: LinkConfig, close_on_return: bool) -> PairOut {
    let ini: Rc<RefCell<Side>> = Default::default();
    let acc: Rc<RefCell<Side>> = Default::default();
    let links: Rc<RefCell<Option<(simcore::duplex::Link<M>, simcore::duplex::Link<M>)>>> = Default::default();
    let rxs: Rc<RefCell<Option<(mpsc::Receiver<Ev>, mpsc::Receiver<Ev>)>>> = Default::default();
    let (ini2, acc2, links2, rxs2) = (ini.clone(), acc.clone(), links.clone(), rxs.clone());
    let r = des::run_with_watchdog(WATCHDOG, move || async move {
        let (mut i_tx, mut a_rx) = link::<M>("initiator->acceptor", lc_ia);
        let (mut a_tx, mut i_rx) = link::<M>("acceptor->initiator", lc_ai);
        *links2.borrow_mut() = Some((i_tx.link.clone(), a_tx.link.clone()));
        let (ietx, ierx) = mpsc::channel::<Ev>(16);
        let (aetx, aerx) = mpsc::channel::<Ev>(16);
        *rxs2.borrow_mut() = Some((ierx, aerx));
        let (io, ao) = (ini2.clone(), acc2.clone());
        let hi = des::spawn(async move {
            let r = run_side(Role::Initiator, t, &mut i_tx, &mut i_rx, ietx).await;
            io.borrow_mut().returned = Some(r);
            (i_tx, i_rx)
        });
        let ha = des::spawn(async move {
            let r = run_side(Role::Acceptor, t, &mut a_tx, &mut a_rx, aetx).await;
            ao.borrow_mut().returned = Some(r);
            (a_tx, a_rx)
        });
        if close_on_return {
            // Each task's ends are dropped with its JoinHandle output as soon as it is awaited;
            // awaiting both concurrently drops them in completion order.
            let hi = async {
                match hi.await {
                    Ok(ends) => drop(ends),
                    Err(e) if e.is_panic() => {
                        ini2.borrow_mut().aborted = true;
                        classify_task_panic();
                    }
                    Err(_) => {}
                }
            };
            let ha = async {
                match ha.await {
                    Ok(ends) => drop(ends),
                    Err(e) if e.is_panic() => {
                        acc2.borrow_mut().aborted = true;
                        classify_task_panic();
                    }
                    Err(_) => {}
                }
            };
            futures_util::future::join(hi, ha).await;
        } else {
            let (ri, ra) = futures_util::future::join(hi, ha).await;
            if let Err(e) = &ri {
                if e.is_panic() {
                    ini2.borrow_mut().aborted = true;
                    classify_task_panic();
                }
            }
            if let Err(e) = &ra {
                if e.is_panic() {
                    acc2.borrow_mut().aborted = true;
                    classify_task_panic();
                }
            }
            drop((ri, ra));
        }
    });
    let mut ini = ini.borrow().clone();
    let mut acc = acc.borrow().clone();
    let mut to_acc = vec![];
    let mut to_ini = vec![];
    if let Some((ia, ai)) = links.borrow_mut().take() {
        to_acc = ia.borrow().transcript.clone();
        to_ini = ai.borrow().transcript.clone();
        ini.sent = to_acc.clone();
        acc.sent = to_ini.clone();
        ini.sink_ops = ia.borrow().sink_ops;
        acc.sink_ops = ai.borrow().sink_ops;
    }
    if let Some((mut ie, mut ae)) = rxs.borrow_mut().take() {
        ini.events = drain(&mut ie);
        acc.events = drain(&mut ae);
    }
    PairOut { ini, acc, hang: r.is_err(), to_acc, to_ini }
}

#[derive(Clone, Debug)]
enum Fault {
    /// The remote sends only the first k messages of its transcript and hangs up.
    CloseAfter(usize),
    /// Message k replaced by another message.
    Substitute(usize, M),
    /// An extra message inserted before message k.
    Insert(usize, M),
    /// The stream yields an error item instead of message k.
    StreamErrAt(usize),
    /// Every sink operation of the side under test fails from its k-th on.
    SinkErrFrom(u64),
}

impl Fault {
    fn label(&self) -> String {
        match self {
            Fault::CloseAfter(k) => format!("stream closed after {k} message(s)"),
            Fault::Substitute(k, m) => format!("message {k} replaced by {}", mlabel(m)),
            Fault::Insert(k, m) => format!("extra {} inserted before message {k}", mlabel(m)),
            Fault::StreamErrAt(k) => format!("stream error item at {k}"),
            Fault::SinkErrFrom(k) => format!("sink error from sink operation {k}"),
        }
    }
    fn kind(&self) -> &'static str {
        match self {
            Fault::CloseAfter(_) => "close_at",
            Fault::Substitute(..) => "unexpected_message",
            Fault::Insert(..) => "extra_message",
            Fault::StreamErrAt(_) => "stream_err_at",
            Fault::SinkErrFrom(_) => "sink_err_at",
        }
    }
}

#[derive(Clone, Debug, PartialEq)]
enum Item {
    Msg(M),
    ErrItem,
}

#[derive(Clone, Debug, PartialEq)]
enum Expect {
    Ok(Option<Topic>),
    Err,
}

/// The handshake from one side's view, as the property states it: the acceptor outputs the topic of
/// the remote's `Topic` message once the remote confirmed with `Done`; the initiator completes once
/// the remote answered `Done`; everything else (other message, error item, end of stream) is an error.
fn model(role: Role, items: &[Item]) -> Expect {
    let mut it = items.iter();
    match role {
        Role::Initiator => match it.next() {
            Some(Item::Msg(TopicHandshakeMessage::Done)) => Expect::Ok(None),
            _ => Expect::Err,
        },
        Role::Acceptor => {
            let Some(Item::Msg(TopicHandshakeMessage::Topic(x))) = it.next() else { return Expect::Err };
            match it.next() {
                Some(Item::Msg(TopicHandshakeMessage::Done)) => Expect::Ok(Some(*x)),
                _ => Expect::Err,
            }
        }
    }
}

/// One real side against the scripted remote. The remote writes its (faulted) script and then keeps
/// the connection open until the side under test returned — except for `CloseAfter`, where it hangs up.
fn run_scripted(role: Role, t: Topic, script: &[M], fault: &Fault) -> Side {
    let side: Rc<RefCell<Side>> = Default::default();
    let links: Rc<RefCell<Option<simcore::duplex::Link<M>>>> = Default::default();
    let rxs: Rc<RefCell<Option<mpsc::Receiver<Ev>>>> = Default::default();
    let (side2, links2, rxs2) = (side.clone(), links.clone(), rxs.clone());
    let mut lc_out = draw_link(true);
    let mut lc_in = draw_link(true);
    lc_in.capacity = usize::MAX; // the script is written in one go
    let mut msgs: Vec<M> = script.to_vec();
    let mut hang_up = false;
    match fault {
        Fault::CloseAfter(k) => {
            // Half of the time by truncating what the remote writes, half by the link's own switch.
            if ctx::chance("close.by_link_switch", 1, 2) {
                lc_in.close_after = Some(*k as u64);
            } else {
                msgs.truncate(*k);
                ctx::fault("close_at");
            }
            hang_up = true;
        }
        Fault::Substitute(k, m) => {
            msgs[*k] = m.clone();
            ctx::fault("unexpected_message");
        }
        Fault::Insert(k, m) => {
            msgs.insert(*k, m.clone());
            ctx::fault("extra_message");
        }
        Fault::StreamErrAt(k) => lc_in.stream_err_at = Some(*k as u64),
        Fault::SinkErrFrom(k) => lc_out.sink_err_from = Some(*k),
    }
    let r = des::run_with_watchdog(WATCHDOG, move || async move {
        let (mut s_tx, r_rx) = link::<M>("side->remote", lc_out);
        let (mut r_tx, mut s_rx) = link::<M>("remote->side", lc_in);
        *links2.borrow_mut() = Some(s_tx.link.clone());
        let (etx, erx) = mpsc::channel::<Ev>(16);
        *rxs2.borrow_mut() = Some(erx);
        let so = side2.clone();
        let h = des::spawn(async move {
            let r = run_side(role, t, &mut s_tx, &mut s_rx, etx).await;
            so.borrow_mut().returned = Some(r);
            (s_tx, s_rx)
        });
        for m in msgs {
            let _ = r_tx.send(m).await;
        }
        // The remote reads (and discards) whatever the side under test sends, so a bounded link
        // never stalls for lack of a reader; its receiving end stays open until the side hangs up.
        let mut r_rx = r_rx;
        let reader = des::spawn(async move { while r_rx.next().await.is_some() {} });
        let keep_tx = if hang_up {
            drop(r_tx);
            None
        } else {
            Some(r_tx)
        };
        match h.await {
            Ok(ends) => drop(ends),
            Err(e) => {
                if e.is_panic() {
                    side2.borrow_mut().aborted = true;
                    classify_task_panic();
                }
            }
        }
        drop(keep_tx);
        let _ = reader.await;
    });
    let mut s = side.borrow().clone();
    if let Some(l) = links.borrow_mut().take() {
        s.sent = l.borrow().transcript.clone();
        s.sink_ops = l.borrow().sink_ops;
    }
    if let Some(mut rx) = rxs.borrow_mut().take() {
        s.events = drain(&mut rx);
    }
    if r.is_err() {
        s.returned = None;
    }
    s
}

pub struct C25Prop;
pub static C25: C25Prop = C25Prop;

impl Property for C25Prop {
    fn id(&self) -> &'static str {
        "C25"
    }
    fn level(&self) -> &'static str {
        "fault_enumeration"
    }
    fn budget(&self, tier: Tier) -> Budget {
        match tier {
            Tier::Quick => Budget { runs: 15_000, wall_cap_s: 35 },
            Tier::Thorough => Budget { runs: 150_000, wall_cap_s: 330 },
        }
    }
    fn modes(&self) -> u32 {
        3
    }
    fn mode_name(&self, mode: u32) -> &'static str {
        match mode {
            0 => "real initiator vs real acceptor, seeded transport, no fault (fault-free)",
            1 => "each side vs scripted remote: every transcript position / sink operation as fault point",
            _ => "real initiator vs real acceptor, one seeded link fault, sides hang up on return",
        }
    }
    fn rule(&self) -> &'static str {
        "mode 0: one handshake between the two real sides per run (topic, link capacity, preempt rate, latency profile, task deferral, whether a side hangs up on return are drawn from the seed); mode 1: per run a fault-free reference execution records both transcripts and sink-operation counts, then each side is re-run against a scripted remote once per fault point (stream closed after k messages for every k; message k replaced by / an extra message inserted before k for each other message variant incl. a Topic message with another topic; stream error item at k; sink error from sink operation k for every k; both roles; ~45 fault points per run, each with freshly drawn transport knobs) and compared with a three-line model of the handshake; mode 2: the two real sides with one seeded link fault; evaluations counts runs (each mode-1 run enumerates all its fault points); distinct = distinct trace fingerprint"
    }
    fn components_real(&self) -> Vec<&'static str> {
        vec!["p2panda_sync::protocols::TopicHandshakeInitiator::run", "p2panda_sync::protocols::TopicHandshakeAcceptor::run", "TopicHandshakeMessage / TopicHandshakeEvent / TopicHandshakeError"]
    }
    fn components_stub(&self) -> Vec<&'static str> {
        vec!["transport: SimDuplex links with fault plan (no codec, no QUIC)", "mode 1: the remote peer is a script replaying (a faulted copy of) what the real remote sent in the reference execution", "event consumer: a futures mpsc receiver of capacity 16 drained after the run"]
    }
    fn expected_probes(&self) -> Vec<&'static str> {
        vec![
            "initiator_rejects_topic_message",
            "acceptor_rejects_second_topic",
            "acceptor_follows_remote_topic",
            "closed_before_first_message",
            "sink_error_at_final_flush",
            "initiator_ok_acceptor_err",
            "both_sides_fail_after_link_fault",
            "link_fault_did_not_fire",
        ]
    }
    fn run(&self) {
        match ctx::mode() {
            0 => run_fault_free(),
            1 => run_enumeration(),
            _ => run_pair_fault(),
        }
    }
}

fn draw_topic() -> (Topic, Topic) {
    let i = ctx::choose("topic", 8) as u64;
    (topic(i), topic(i + 8))
}

/// Oracle for two real sides without any fault: both complete, the acceptor outputs the initiator's topic.
fn check_pair_complete(t: &Topic, out: &PairOut, ctxt: &str) {
    if out.hang || out.ini.returned.is_none() || out.acc.returned.is_none() {
        if !(out.ini.aborted || out.acc.aborted) {
            violation("handshake-hangs", ctxt, format!("initiator {} acceptor {} after {} simulated seconds", rlabel(&out.ini.returned), rlabel(&out.acc.returned), WATCHDOG.as_secs()));
        }
        return;
    }
    match &out.ini.returned {
        Some(Ok(_)) => {}
        r => violation("fails-without-fault", &format!("initiator, {ctxt}"), format!("initiator returned {}", rlabel(r))),
    }
    match &out.acc.returned {
        Some(Ok(Some(x))) if x == t => {}
        Some(Ok(Some(x))) => violation("wrong-topic", &format!("acceptor, {ctxt}"), format!("initiator's topic {} but acceptor output {}", tshort(t), tshort(x))),
        r => violation("fails-without-fault", &format!("acceptor, {ctxt}"), format!("acceptor returned {}", rlabel(r))),
    }
}

fn log_pair(out: &PairOut) {
    ev!("initiator sent [{}] in {} sink ops, events [{}], returned {}", mlabels(&out.to_acc), out.ini.sink_ops, out.ini.events.join(" "), rlabel(&out.ini.returned));
    ev!("acceptor sent [{}] in {} sink ops, events [{}], returned {}", mlabels(&out.to_ini), out.acc.sink_ops, out.acc.events.join(" "), rlabel(&out.acc.returned));
}

fn run_fault_free() {
    let (t, _) = draw_topic();
    let lc_ia = draw_link(true);
    let lc_ai = draw_link(true);
    let close_on_return = ctx::chance("close_on_return", 1, 2);
    ev!("topic {}; i->a cap {} preempt 1/{} latency {:?}; a->i cap {} preempt 1/{} latency {:?}; hang up on return: {close_on_return}", tshort(&t), cap(&lc_ia), lc_ia.preempt_den, lc_ia.latency_us, cap(&lc_ai), lc_ai.preempt_den, lc_ai.latency_us);
    ctx::mark_nontrivial();
    let out = run_pair(t, lc_ia, lc_ai, close_on_return);
    log_pair(&out);
    check_pair_complete(&t, &out, "no fault");
}

fn cap(lc: &LinkConfig) -> String {
    if lc.capacity == usize::MAX { "inf".to_string() } else { lc.capacity.to_string() }
}

fn run_enumeration() {
    let (t, other) = draw_topic();
    ctx::mark_nontrivial();
    let reference = run_pair(t, draw_link(true), draw_link(true), false);
    ev!("topic {} (other topic {}); reference execution:", tshort(&t), tshort(&other));
    log_pair(&reference);
    check_pair_complete(&t, &reference, "reference execution (no fault)");
    if ctx::has_violation() {
        return;
    }
    let variants: Vec<M> = vec![TopicHandshakeMessage::Done, TopicHandshakeMessage::Topic(t), TopicHandshakeMessage::Topic(other)];
    let mut n = 0;
    for role in [Role::Initiator, Role::Acceptor] {
        let (script, ref_side) = match role {
            Role::Initiator => (reference.to_ini.clone(), &reference.ini),
            Role::Acceptor => (reference.to_acc.clone(), &reference.acc),
        };
        let mut faults: Vec<Fault> = vec![];
        for k in 0..=script.len() {
            faults.push(Fault::CloseAfter(k));
        }
        for k in 0..script.len() {
            faults.push(Fault::StreamErrAt(k));
            for v in &variants {
                if *v != script[k] {
                    faults.push(Fault::Substitute(k, v.clone()));
                }
            }
        }
        for k in 0..=script.len() {
            for v in &variants {
                faults.push(Fault::Insert(k, v.clone()));
            }
        }
        for k in 0..ref_side.sink_ops {
            faults.push(Fault::SinkErrFrom(k));
        }
        ev!("{}: remote script [{}], {} sink ops, {} fault points", role.name(), mlabels(&script), ref_side.sink_ops, faults.len());
        for f in &faults {
            n += 1;
            let s = run_scripted(role, t, &script, f);
            // What the side is fed, for the model.
            let mut items: Vec<Item> = script.iter().cloned().map(Item::Msg).collect();
            match f {
                Fault::CloseAfter(k) => items.truncate(*k),
                Fault::Substitute(k, m) => items[*k] = Item::Msg(m.clone()),
                Fault::Insert(k, m) => items.insert(*k, Item::Msg(m.clone())),
                Fault::StreamErrAt(k) => items[*k] = Item::ErrItem,
                Fault::SinkErrFrom(_) => {}
            }
            let expect = model(role, &items);
            ev!("{} / {}: sent [{}] events [{}] returned {} (model: {})", role.name(), f.label(), mlabels(&s.sent), s.events.join(" "), rlabel(&s.returned), match &expect {
                Expect::Ok(None) => "Ok".to_string(),
                Expect::Ok(Some(x)) => format!("Ok({})", tshort(x)),
                Expect::Err => "Err".to_string(),
            });
            let site = format!("{}: {}", role.name(), f.kind());
            // Probes.
            match (role, f, &s.returned) {
                (Role::Initiator, Fault::Substitute(_, TopicHandshakeMessage::Topic(_)), Some(Err(_))) => ctx::probe("initiator_rejects_topic_message"),
                (Role::Acceptor, Fault::Substitute(1, TopicHandshakeMessage::Topic(_)), Some(Err(_))) | (Role::Acceptor, Fault::Insert(1, TopicHandshakeMessage::Topic(_)), Some(Err(_))) => ctx::probe("acceptor_rejects_second_topic"),
                (Role::Acceptor, Fault::Substitute(0, TopicHandshakeMessage::Topic(x)), Some(Ok(Some(y)))) if x == y && *x != t => ctx::probe("acceptor_follows_remote_topic"),
                (_, Fault::CloseAfter(0), Some(Err(_))) => ctx::probe("closed_before_first_message"),
                (_, Fault::SinkErrFrom(k), _) if *k + 1 == ref_side.sink_ops => ctx::probe("sink_error_at_final_flush"),
                _ => {}
            }
            // Oracle.
            let Some(returned) = &s.returned else {
                if !s.aborted {
                    violation("handshake-hangs", &site, format!("{}: {} did not return within {} simulated seconds; events [{}]", f.label(), role.name(), WATCHDOG.as_secs(), s.events.join(" ")));
                }
                continue;
            };
            if let Fault::SinkErrFrom(_) = f {
                match returned {
                    Err(_) => {}
                    Ok(x) => {
                        if s.sent != ref_side.sent {
                            violation("completes-although-message-lost", &site, format!("{}: {} returned {} although only [{}] of [{}] crossed the link", f.label(), role.name(), rlabel(&s.returned), mlabels(&s.sent), mlabels(&ref_side.sent)));
                        } else if Expect::Ok(*x) != expect {
                            violation("wrong-topic", &site, format!("{}: {} returned {}", f.label(), role.name(), rlabel(&s.returned)));
                        }
                    }
                }
                continue;
            }
            match (returned, &expect) {
                (Ok(x), Expect::Ok(y)) if x == y => {}
                (Err(_), Expect::Err) => {}
                (Ok(Some(x)), Expect::Ok(Some(y))) => violation("wrong-topic", &site, format!("{}: remote sent topic {} but acceptor output {}", f.label(), tshort(y), tshort(x))),
                (Ok(_), Expect::Err) => violation("completes-on-broken-transcript", &site, format!("{}: {} was fed [{}] and returned {}", f.label(), role.name(), items_label(&items), rlabel(&s.returned))),
                (Err(e), Expect::Ok(_)) => violation("fails-on-complete-transcript", &site, format!("{}: {} was fed the complete transcript [{}] and returned Err({e})", f.label(), role.name(), items_label(&items))),
                (Ok(_), Expect::Ok(_)) => violation("wrong-topic", &site, format!("{}: {} returned {}", f.label(), role.name(), rlabel(&s.returned))),
            }
        }
    }
    ev!("enumerated {n} fault points");
}

fn items_label(items: &[Item]) -> String {
    let mut v: Vec<String> = items
        .iter()
        .map(|i| match i {
            Item::Msg(m) => mlabel(m),
            Item::ErrItem => "<error item>".to_string(),
        })
        .collect();
    v.push("…".to_string());
    v.join(" ")
}

fn faults_fired() -> u64 {
    ctx::with(|c| c.faults.values().sum())
}

fn run_pair_fault() {
    let (t, _) = draw_topic();
    let mut lc_ia = draw_link(true);
    let mut lc_ai = draw_link(true);
    // Which link, which fault, which position. The handshake has 2 + 1 messages and 7 + 4 sink ops;
    // positions beyond that never fire (then both sides must complete).
    let on_ia = !ctx::chance("fault.on_acceptor_to_initiator_link", 1, 2);
    let kind = ctx::choose("fault.kind", 3);
    let k = ctx::choose("fault.position", 9) as u64;
    let lc = if on_ia { &mut lc_ia } else { &mut lc_ai };
    let what = match kind {
        0 => {
            lc.close_after = Some(k);
            "stream closed after"
        }
        1 => {
            lc.stream_err_at = Some(k);
            "stream error item at"
        }
        _ => {
            lc.sink_err_from = Some(k);
            "sink error from sink operation"
        }
    };
    let lname = if on_ia { "initiator->acceptor" } else { "acceptor->initiator" };
    ev!("topic {}; fault on link {lname}: {what} {k}", tshort(&t));
    ctx::mark_nontrivial();
    let before = faults_fired();
    let out = run_pair(t, lc_ia, lc_ai, true);
    let fired = faults_fired() > before;
    log_pair(&out);
    ev!("fault fired: {fired}");
    if !fired {
        ctx::probe("link_fault_did_not_fire");
        check_pair_complete(&t, &out, "link fault configured beyond the end of the handshake");
        return;
    }
    let site = format!("pair: {what} k on link {lname}");
    if out.hang || out.ini.returned.is_none() || out.acc.returned.is_none() {
        if !(out.ini.aborted || out.acc.aborted) {
            violation("handshake-hangs", &site, format!("k={k}: initiator {} acceptor {} after {} simulated seconds", rlabel(&out.ini.returned), rlabel(&out.acc.returned), WATCHDOG.as_secs()));
        }
        return;
    }
    let full_to_acc = vec![TopicHandshakeMessage::Topic(t), TopicHandshakeMessage::Done];
    let full_to_ini = vec![TopicHandshakeMessage::Done];
    if let Some(Ok(Some(x))) = &out.acc.returned {
        if *x != t {
            violation("wrong-topic", &site, format!("k={k}: initiator's topic {} but acceptor output {}", tshort(&t), tshort(x)));
        } else if out.to_acc != full_to_acc {
            violation("completes-although-message-lost", &site, format!("k={k}: acceptor returned Ok although the initiator only got [{}] across", mlabels(&out.to_acc)));
        }
    }
    if let Some(Ok(_)) = &out.ini.returned {
        if out.to_acc != full_to_acc || out.to_ini != full_to_ini {
            violation("completes-although-message-lost", &site, format!("k={k}: initiator returned Ok although only [{}] / [{}] crossed the links", mlabels(&out.to_acc), mlabels(&out.to_ini)));
        }
    }
    match (&out.ini.returned, &out.acc.returned) {
        (Some(Ok(_)), Some(Err(_))) => ctx::probe("initiator_ok_acceptor_err"),
        (Some(Err(_)), Some(Err(_))) => ctx::probe("both_sides_fail_after_link_fault"),
        _ => {}
    }
}
