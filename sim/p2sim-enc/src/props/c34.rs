//! C34 — Message ratchet yields the sender's key for any delivery order.
//!
//! World: one sender with a real `RatchetSecret` chain, one receiver with a real
//! `DecryptionRatchet`, and a datagram network between them that the choice stream drives
//! (reorder, loss, duplication, forged generation numbers). The oracle is a `RatchetModel`:
//! generation → the key material the sender's chain produced, plus the two windows.

use std::collections::BTreeSet;

use p2panda_encryption::message_scheme::ratchet::{
    DecryptionRatchet, Generation, RatchetError, RatchetKeyMaterial, RatchetSecret, RatchetSecretState,
};
use simcore::{Budget, Property, Tier, ctx, ev, violation};

use super::util::{Delivery, DatagramPool, hex4, secret32, seeded_bytes};

pub struct C34Prop;
pub static C34: C34Prop = C34Prop;

/// The sender: the real chain, keys remembered per generation (extended lazily so that forged
/// generation numbers inside the forward window can be compared too).
struct SenderChain {
    state: Option<RatchetSecretState>,
    keys: Vec<RatchetKeyMaterial>,
}

impl SenderChain {
    fn key(&mut self, g: Generation) -> Option<&RatchetKeyMaterial> {
        while self.keys.len() <= g as usize {
            let st = self.state.take()?;
            match RatchetSecret::ratchet_forward(st) {
                Ok((st, generation, km)) => {
                    if generation as usize != self.keys.len() {
                        violation("sender-chain", "generation-counter", format!("ratchet_forward returned generation {generation}, expected {}", self.keys.len()));
                        return None;
                    }
                    self.state = Some(st);
                    self.keys.push(km);
                }
                Err(e) => {
                    violation("sender-chain", "ratchet_forward-error", format!("{e}"));
                    return None;
                }
            }
        }
        self.keys.get(g as usize)
    }
}

#[derive(Clone, Copy, Debug, PartialEq, Eq)]
enum Expect {
    /// Inside the windows and not handed out yet ⇒ exactly the sender's key.
    Key,
    /// g > head + max_forward.
    TooFarAhead,
    /// g < head − ooo_tolerance.
    TooFarBehind,
    /// Inside the past window but already handed out.
    AlreadyUsed,
}

/// Reference model of the receiving ratchet, written from the documentation of
/// `secret_for_decryption`: `head` is the next generation in line; up to `max_forward` generations
/// may be skipped in one step; keys of skipped generations stay available while they are at most
/// `ooo_tolerance` generations behind the head; every key is handed out once.
struct RatchetModel {
    head: u64,
    max_forward: u64,
    ooo: u64,
    skipped_unused: BTreeSet<u64>,
}

impl RatchetModel {
    fn expect(&self, g: u64) -> Expect {
        if g >= self.head {
            if g - self.head > self.max_forward { Expect::TooFarAhead } else { Expect::Key }
        } else if self.head - g > self.ooo {
            Expect::TooFarBehind
        } else if self.skipped_unused.contains(&g) {
            Expect::Key
        } else {
            Expect::AlreadyUsed
        }
    }

    fn hand_out(&mut self, g: u64) {
        if g >= self.head {
            for s in self.head..g {
                self.skipped_unused.insert(s);
            }
            self.head = g + 1;
            let floor = self.head.saturating_sub(self.ooo);
            self.skipped_unused = self.skipped_unused.split_off(&floor);
        } else {
            self.skipped_unused.remove(&g);
        }
    }
}

fn window(label: &'static str) -> u32 {
    // All small sizes 0..=8; now and then a large one.
    if ctx::chance("window.large", 1, 10) {
        *ctx::pick(label, &[12u32, 32, 100])
    } else {
        ctx::choose(label, 9) as u32
    }
}

fn err_name(e: &RatchetError) -> &'static str {
    match e {
        RatchetError::Hkdf(_) => "Hkdf",
        RatchetError::TooDistantInTheFuture => "TooDistantInTheFuture",
        RatchetError::TooDistantInThePast => "TooDistantInThePast",
        RatchetError::IndexOutOfBounds => "IndexOutOfBounds",
        RatchetError::SecretReuse => "SecretReuse",
    }
}

impl Property for C34Prop {
    fn id(&self) -> &'static str {
        "C34"
    }
    fn budget(&self, tier: Tier) -> Budget {
        match tier {
            Tier::Quick => Budget { runs: 120_000, wall_cap_s: 35 },
            Tier::Thorough => Budget { runs: 1_200_000, wall_cap_s: 330 },
        }
    }
    fn modes(&self) -> u32 {
        3
    }
    fn mode_name(&self, mode: u32) -> &'static str {
        match mode {
            0 => "fifo-fault-free",
            1 => "reorder-loss-dup",
            _ => "wild-beyond-windows",
        }
    }
    fn rule(&self) -> &'static str {
        "one run = one (ooo_tolerance, max_forward) pair (each 0..8, sometimes 12/32/100), a sender chain of 1..40 generations (1..6 fully permuted in a third of the reorder runs) and the delivery sequence the network makes of it: bounded-span reorder, loss, up to 2 extra copies per message, forged generation numbers at and just beyond both window edges and at u32::MAX; non-trivial = at least two deliveries or one fault; distinct = distinct trace (windows + delivery sequence + outcomes)"
    }
    fn components_real(&self) -> Vec<&'static str> {
        vec![
            "p2panda_encryption::message_scheme::ratchet::RatchetSecret::{init, ratchet_forward} (sender chain)",
            "p2panda_encryption::message_scheme::ratchet::DecryptionRatchet::{init, secret_for_decryption}",
            "p2panda_encryption::crypto::hkdf",
        ]
    }
    fn components_stub(&self) -> Vec<&'static str> {
        vec!["network: DatagramPool (harness) — delivers generation numbers in the order / multiplicity the choice stream decides; stands for the unordered, lossy transport below the group message layer", "message encryption itself (AEAD) is not run: key material is compared directly"]
    }
    fn assumptions(&self) -> Vec<&'static str> {
        vec![
            "window semantics taken from the documentation of secret_for_decryption: a generation g >= head is inside the forward window iff g - head <= maximum_forward_distance ('how many incoming messages can be skipped'); a generation g < head is inside the out-of-order window iff head - g <= ooo_tolerance",
            "the windows are constant for the lifetime of one ratchet",
            "a failed call consumes the state it was given; the caller keeps its previous state (clone), as the state-passing API implies",
        ]
    }
    fn expected_probes(&self) -> Vec<&'static str> {
        vec![
            "beyond_window_rejected",
            "beyond_forward_rejected",
            "beyond_past_rejected",
            "duplicate_generation_rejected",
            "skipped_key_used_later",
            "forward_jump_at_limit",
            "past_at_limit",
            "window_zero",
            "lost_generation_skipped_for_good",
            "forged_generation_u32_max",
        ]
    }

    fn run(&self) {
        let mode = ctx::mode();
        let ooo = window("ooo");
        let fwd = window("fwd");
        if ooo == 0 || fwd == 0 {
            ctx::probe("window_zero");
        }
        let permute_small = mode == 1 && ctx::chance("permute_small", 1, 3);
        let n = if permute_small { ctx::range("n", 1, 6) } else { ctx::range("n", 1, 40) } as u32;
        let (span, loss_den, dup_den, forge_den) = match mode {
            0 => (1usize, 0usize, 0usize, 0usize),
            1 => {
                if permute_small {
                    (n as usize, 0, *ctx::pick("dup", &[0usize, 4]), 0)
                } else {
                    (1 + ctx::choose("span", 12), *ctx::pick("loss", &[0usize, 8, 3]), *ctx::pick("dup", &[0usize, 6, 2]), 0)
                }
            }
            _ => (1 + ctx::choose("span", n as usize), *ctx::pick("loss", &[0usize, 8, 2]), *ctx::pick("dup", &[0usize, 6, 2]), *ctx::pick("forge", &[0usize, 6, 3])),
        };
        ev!("config: ooo_tolerance={ooo} max_forward={fwd} sender generations=0..{n} network: span={span} loss=1/{loss_den} dup=1/{dup_den} forge=1/{forge_den} (0 = never)");

        let root = seeded_bytes(1);
        let mut sender = SenderChain { state: Some(RatchetSecret::init(secret32(root))), keys: Vec::new() };
        let mut receiver = Some(DecryptionRatchet::init(secret32(root)));
        let mut model = RatchetModel { head: 0, max_forward: fwd as u64, ooo: ooo as u64, skipped_unused: BTreeSet::new() };
        let mut handed_out: BTreeSet<u32> = BTreeSet::new();
        let mut pool = DatagramPool::new((0..n).collect::<Vec<u32>>());
        let mut deliveries = 0u32;
        let mut forged_left = 6u32;

        while !pool.is_empty() {
            // A forged / corrupted generation number instead of a genuine datagram.
            let mut g_opt: Option<(u32, &'static str)> = None;
            if forge_den > 0 && forged_left > 0 && ctx::chance("forge?", 1, forge_den) {
                forged_left -= 1;
                let h = model.head;
                let cand: u64 = match ctx::choose("forge.kind", 6) {
                    0 => h + fwd as u64 + 1,
                    1 => h + fwd as u64,
                    2 => h + fwd as u64 + 2 + ctx::choose("forge.far", 1000) as u64,
                    3 => u32::MAX as u64,
                    4 => h.saturating_sub(ooo as u64 + 1),
                    _ => h.saturating_sub(ooo as u64),
                };
                let g = cand.min(u32::MAX as u64) as u32;
                if g == u32::MAX {
                    ctx::probe("forged_generation_u32_max");
                }
                ctx::fault("tamper.field(generation)");
                g_opt = Some((g, "forged"));
            }
            let (g, origin) = match g_opt {
                Some(x) => x,
                None => match pool.step(span, loss_den, dup_den) {
                    (Delivery::Lost { msg }, _) => {
                        ev!("net: generation {msg} lost");
                        continue;
                    }
                    (Delivery::Deliver { msg, reordered, copy }, dup_at) => {
                        if let Some(at) = dup_at {
                            ev!("net: a copy of generation {msg} stays in flight at position {at}");
                        }
                        (msg, if copy > 0 { "duplicate" } else if reordered { "overtaking" } else { "in-order" })
                    }
                },
            };
            deliveries += 1;

            let expect = model.expect(g as u64);
            let head = model.head;
            // The call consumes the state; on error the receiver keeps what it had.
            let Some(before) = receiver.take() else { return };
            let result = DecryptionRatchet::secret_for_decryption(before.clone(), g, fwd, ooo);
            match result {
                Ok((after, km)) => {
                    receiver = Some(after);
                    let fresh = handed_out.insert(g);
                    let Some(sender_km) = sender.key(g).cloned() else { return };
                    let same = km == sender_km;
                    ev!("deliver g={g} ({origin}; head={head}) -> key nonce={} {}", hex4(&km.1), if same { "== sender's" } else { "!= sender's" });
                    if !fresh {
                        violation("key-handed-out-twice", "same-generation", format!("generation {g} got key material twice (head {head}, ooo {ooo}, fwd {fwd})"));
                        return;
                    }
                    match expect {
                        Expect::Key => {}
                        Expect::TooFarAhead => {
                            violation("accepted-outside-window", "beyond-max-forward", format!("generation {g} accepted with head {head}, max_forward {fwd}"));
                            return;
                        }
                        Expect::TooFarBehind => {
                            violation("accepted-outside-window", "beyond-ooo-tolerance", format!("generation {g} accepted with head {head}, ooo_tolerance {ooo}"));
                            return;
                        }
                        Expect::AlreadyUsed => {
                            violation("key-handed-out-twice", "same-generation", format!("generation {g} handed out again (head {head})"));
                            return;
                        }
                    }
                    if !same {
                        let site = if (g as u64) >= head { "forward-or-current" } else { "past-window" };
                        violation("wrong-key", site, format!("generation {g}: receiver nonce {} sender nonce {} (head {head}, ooo {ooo}, fwd {fwd})", hex4(&km.1), hex4(&sender_km.1)));
                        return;
                    }
                    if (g as u64) < head {
                        ctx::probe("skipped_key_used_later");
                        if head - g as u64 == ooo as u64 {
                            ctx::probe("past_at_limit");
                        }
                    } else if g as u64 - head == fwd as u64 && fwd > 0 {
                        ctx::probe("forward_jump_at_limit");
                    }
                    model.hand_out(g as u64);
                }
                Err(e) => {
                    receiver = Some(before);
                    let name = err_name(&e);
                    ev!("deliver g={g} ({origin}; head={head}) -> rejected {name}");
                    let want = match expect {
                        Expect::Key => {
                            let site = if (g as u64) >= head { "inside-forward-window" } else { "inside-ooo-window" };
                            violation("rejected-inside-window", site, format!("generation {g} rejected with {name}; head {head}, ooo {ooo}, fwd {fwd}, never handed out before"));
                            return;
                        }
                        Expect::TooFarAhead => {
                            ctx::probe("beyond_window_rejected");
                            ctx::probe("beyond_forward_rejected");
                            "TooDistantInTheFuture"
                        }
                        Expect::TooFarBehind => {
                            ctx::probe("beyond_window_rejected");
                            ctx::probe("beyond_past_rejected");
                            if handed_out.contains(&g) {
                                ctx::probe("duplicate_generation_rejected");
                            }
                            "TooDistantInThePast"
                        }
                        Expect::AlreadyUsed => {
                            ctx::probe("duplicate_generation_rejected");
                            "SecretReuse"
                        }
                    };
                    if name != want {
                        violation("undocumented-error", want, format!("generation {g} rejected with {name}, documented error for this case is {want} (head {head}, ooo {ooo}, fwd {fwd})"));
                        return;
                    }
                }
            }
        }

        if deliveries >= 2 {
            ctx::mark_nontrivial();
        }
        // Every generation the network lost for good stays un-derived; nothing may have been
        // handed out that was never requested.
        let lost = (0..n).filter(|g| !handed_out.contains(g)).count();
        if lost > 0 && loss_den > 0 {
            ctx::probe("lost_generation_skipped_for_good");
        }
        if mode == 0 && handed_out.len() as u32 != n {
            violation("rejected-inside-window", "fifo-delivery", format!("{} of {n} in-order generations got a key", handed_out.len()));
        }
        ev!("end: head={} keys handed out={} of {n} sent, never derived={lost}", model.head, handed_out.len());
    }
}
