//! C21 — Sync sessions terminate for any data volume and transport buffer size.

use simcore::duplex::Engine;
use simcore::{Budget, Property, Tier, ctx, violation};
use simworld::logworld::WorldParams;

use super::c19::{mode_cfg, mode_name, run_kind};
use super::syncworld::SyncCfg;

pub struct C21Prop;
pub static C21: C21Prop = C21Prop;

impl Property for C21Prop {
    fn id(&self) -> &'static str {
        "C21"
    }
    fn budget(&self, tier: Tier) -> Budget {
        match tier {
            Tier::Quick => Budget { runs: 8_000, wall_cap_s: 40 },
            Tier::Thorough => Budget { runs: 150_000, wall_cap_s: 420 },
        }
    }
    fn modes(&self) -> u32 {
        8
    }
    fn mode_name(&self, mode: u32) -> &'static str {
        mode_name(mode)
    }
    fn rule(&self) -> &'static str {
        "one run = two honest replicas with up to ~100 operations per side (one run in forty on the DES engine: a single log of 1100-1400 operations), transport capacity drawn from {1,2,4,16,64,512,unbounded} messages, in a quarter of the runs one concurrent prune of a log, no other fault; non-trivial = both sides have something to send; distinct = distinct trace fingerprint"
    }
    fn components_real(&self) -> Vec<&'static str> {
        vec!["p2panda_sync::protocols::LogSync (select! send/receive loop)", "p2panda_sync::protocols::TopicLogSync", "p2panda_store::SqliteStore (StepExec modes)"]
    }
    fn components_stub(&self) -> Vec<&'static str> {
        vec!["transport: SimDuplex with bounded message capacity (stands for the QUIC stream + codec buffers)", "store in DES modes: MemStore"]
    }
    fn expected_probes(&self) -> Vec<&'static str> {
        vec!["both_sides_blocked_in_send", "capacity_reached"]
    }
    fn run(&self) {
        let (engine, kind) = mode_cfg(ctx::mode());
        let capacity = *ctx::pick("capacity", &[usize::MAX, 512, 64, 16, 4, 2, 1]);
        let big = ctx::chance("big", 1, 3);
        let max_ops = match (engine, big) {
            (Engine::Des, true) => 48,
            (Engine::Des, false) => 12,
            (Engine::Step, true) => 16,
            (Engine::Step, false) => 8,
        };
        // "Any amount of data": now and then one log of 1100-1400 operations (more than the event
        // channel, the de-duplication buffer or any other bounded structure of a session holds).
        let bulk = engine == Engine::Des && ctx::chance("bulk", 1, 40);
        if bulk {
            ctx::fault("bulk_volume(>1024 operations in one log)");
        }
        let world = if bulk {
            WorldParams { max_authors: 1, max_logs_per_author: 1, max_ops_per_log: 1400, prune_num: 0, body_kinds: 1, min_ops_per_log: 1100 }
        } else {
            WorldParams { max_authors: 3, max_logs_per_author: 2, max_ops_per_log: max_ops, prune_num: 0, body_kinds: 3, min_ops_per_log: 0 }
        };
        let cfg = SyncCfg {
            engine,
            kind,
            capacity,
            world,
            // Termination must not depend on the store standing still either: in a quarter of the
            // runs one log is pruned concurrently (the fault model of C20).
            interference: ctx::chance("interference", 1, 4),
            dedup_capacity: 1024,
            partial_scope: false,
        };
        simcore::ev!("transport capacity: {}", if capacity == usize::MAX { "unbounded".to_string() } else { capacity.to_string() });
        let out = run_kind(&cfg);
        let sends = |i: usize| out.sides[i].sent.iter().filter(|w| matches!(w, super::syncworld::Wire::Op { .. })).count();
        if out.sides.iter().all(|s| !s.ops.is_empty()) {
            ctx::mark_nontrivial();
        }
        if capacity != usize::MAX {
            ctx::fault("capacity");
            if out.max_queue >= capacity {
                ctx::probe("capacity_reached");
            }
        }
        if let Some(s) = &out.stall {
            violation("did-not-terminate", "stall", s.clone());
            return;
        }
        if out.hang {
            let a = &out.sides[0];
            let b = &out.sides[1];
            let site = if a.blocked_in_send && b.blocked_in_send {
                ctx::probe("both_sides_blocked_in_send");
                "both-sides-blocked-in-sink.send-during-Sync"
            } else if a.blocked_in_send || b.blocked_in_send {
                "one-side-blocked-in-send"
            } else {
                "both-sides-waiting-to-receive"
            };
            violation("did-not-terminate", site, format!("capacity {capacity}; A sent {} ops (result {:?}), B sent {} ops (result {:?})", sends(0), a.result, sends(1), b.result));
            return;
        }
        for s in &out.sides {
            if s.result != Some(Ok(())) {
                violation("session-failed", "honest-peers-fault-free", format!("{} returned {:?}", s.name, s.result));
            }
        }
    }
}
