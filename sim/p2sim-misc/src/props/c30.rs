//! C30 — Confidential discovery yields exactly the common topics.
//!
//! Two real `PsiHashDiscoveryProtocol` sessions (alice = initiator, bob = accepter), each over its
//! own real SQLite address book, talk over a pair of `SimDuplex` links that carry the messages as
//! **postcard bytes** — the encoding `p2panda-net` uses for discovery on the wire
//! (`p2panda-net/src/codec.rs`). Every message is additionally re-encoded as CBOR
//! (`p2panda_core::cbor::encode_cbor`, the workspace's generic encoding) for the leak check.
//!
//! The protocol draws its salt halves from `rand::rng()` internally; no RNG can be injected. The
//! oracle does not depend on the salts and the trace never contains salt-dependent bytes (message
//! kinds, element counts and postcard sizes only — postcard encodes `[u8; 32]` and `Topic` with a
//! fixed width, so sizes are salt independent).

use std::cell::RefCell;
use std::collections::{BTreeMap, BTreeSet, HashSet};
use std::rc::Rc;

use futures_util::{Sink, SinkExt, Stream, StreamExt};
use p2panda_core::cbor::encode_cbor;
use p2panda_core::{Topic, VerifyingKey};
use p2panda_discovery::psi_hash::{Config, PsiHashDiscoveryProtocol, PsiHashError, PsiHashMessage};
use p2panda_discovery::test_utils::TestSubscription;
use p2panda_discovery::traits::{DiscoveryProtocol, DiscoveryResult};
use p2panda_store::address_book::AddressBookStore;
use p2panda_store::address_book::test_utils::{TestNodeInfo, TestTransportInfo};
use p2panda_store::{SqliteStore, tx_unwrap};
use simcore::duplex::{Engine, LinkConfig, SimIoError, SimSink, SimStream, link};
use simcore::stepexec::{self, Policy, StepExec};
use simcore::{Budget, Property, Tier, ctx, ev, violation};
use simworld::logworld::{key_bytes, signing_key};
use simworld::populate::sqlite_memory;

type Msg = PsiHashMessage<VerifyingKey, TestNodeInfo>;
type Proto = PsiHashDiscoveryProtocol<SqliteStore, TestSubscription, VerifyingKey, TestNodeInfo>;
type ProtoErr = PsiHashError<SqliteStore, TestSubscription, VerifyingKey, TestNodeInfo>;
type Res = DiscoveryResult<VerifyingKey, TestNodeInfo>;
type T32 = [u8; 32];

pub struct C30Prop;
pub static C30: C30Prop = C30Prop;

// ------------------------------------------------------------------------------------------------
// World
// ------------------------------------------------------------------------------------------------

#[derive(Clone, Debug)]
struct BookEntry {
    /// Name in the trace: "A" / "B" for the two protagonists, "n<j>" for pool nodes.
    label: String,
    id: VerifyingKey,
    topics: BTreeSet<usize>,
    stale: bool,
    bootstrap: bool,
    transports: bool,
}

#[derive(Clone, Debug)]
struct SideSpec {
    name: &'static str,
    id: VerifyingKey,
    topics: BTreeSet<usize>,
    book: Vec<BookEntry>,
    restricted: bool,
}

struct World {
    /// Topic universe; indices are what the trace shows.
    topics: Vec<T32>,
    sides: [SideSpec; 2],
    common: BTreeSet<usize>,
}

fn idx_list(s: &BTreeSet<usize>) -> String {
    s.iter().map(|i| i.to_string()).collect::<Vec<_>>().join(",")
}

fn gen_world() -> World {
    let seed = ctx::seed();
    // 0 = no topics at all (both sides empty).
    let n = *ctx::pick("topics.n", &[0usize, 1, 2, 3, 5, 8, 13, 24, 40, 96]);
    // Foreign topics: known to address-book nodes only, never subscribed by alice or bob.
    let foreign = ctx::choose("topics.foreign", 4);
    let similar = n > 1 && ctx::chance("topics.similar", 1, 6);
    let mut topics: Vec<T32> = Vec::new();
    for i in 0..(n + foreign) {
        let mut t = key_bytes(seed, 1000 + i as u64);
        if similar {
            // All topics share their first 31 bytes: stresses substring / prefix handling.
            t = key_bytes(seed, 999);
            t[31] = i as u8;
        }
        topics.push(t);
    }
    if similar {
        ctx::probe("similar_topics");
    }

    // Overlap profile; 0 = identical sets.
    let profile = ctx::choose("topics.profile", 8);
    let mut a = BTreeSet::new();
    let mut b = BTreeSet::new();
    for i in 0..n {
        // cat: 0 both, 1 A only, 2 B only, 3 neither
        let cat = match profile {
            0 => 0,
            1 => 1 + ctx::choose("topics.cat", 2),                         // disjoint
            2 => *ctx::pick("topics.cat", &[0, 1, 1, 2, 2, 1, 2, 3]),      // ~12 % overlap
            3 => *ctx::pick("topics.cat", &[0, 0, 1, 2]),                  // ~50 %
            4 => *ctx::pick("topics.cat", &[0, 0, 0, 0, 0, 0, 1, 2]),      // ~75 %
            5 => *ctx::pick("topics.cat", &[0, 1]),                        // B ⊆ A
            6 => 1,                                                        // B empty
            _ => 2,                                                        // A empty
        };
        match cat {
            0 => {
                a.insert(i);
                b.insert(i);
            }
            1 => {
                a.insert(i);
            }
            2 => {
                b.insert(i);
            }
            _ => {}
        }
    }
    let common: BTreeSet<usize> = a.intersection(&b).copied().collect();

    let ids = [signing_key(0).verifying_key(), signing_key(1).verifying_key()];
    let pool: Vec<VerifyingKey> = (0..10).map(|j| signing_key(10 + j).verifying_key()).collect();
    let all = n + foreign;

    let mut sides: Vec<SideSpec> = Vec::new();
    for s in 0..2 {
        let name = ["A", "B"][s];
        let my_topics = if s == 0 { a.clone() } else { b.clone() };
        let mut book = Vec::new();
        // Own entry (as the node's own announcements would have stored it); 0 = present.
        if !ctx::chance("book.self.absent", 1, 5) {
            book.push(BookEntry {
                label: name.to_string(),
                id: ids[s],
                topics: my_topics.clone(),
                stale: false,
                bootstrap: false,
                transports: !ctx::chance("book.self.notransport", 1, 8),
            });
        } else {
            ctx::probe("self_missing_from_book");
        }
        // The remote's entry, with a possibly outdated topic list.
        if ctx::chance("book.remote", 1, 2) {
            let other = if s == 0 { &b } else { &a };
            let t: BTreeSet<usize> = other.iter().copied().filter(|_| ctx::chance("book.remote.topic", 1, 2)).collect();
            book.push(BookEntry { label: ["B", "A"][s].to_string(), id: ids[1 - s], topics: t, stale: false, bootstrap: ctx::chance("book.remote.bootstrap", 1, 3), transports: true });
        }
        let extra = ctx::choose("book.extra", 9);
        let mut members: Vec<usize> = (0..pool.len()).collect();
        ctx::shuffle("book.pick", &mut members);
        for &j in members.iter().take(extra) {
            let mut t = BTreeSet::new();
            if all > 0 {
                let k = ctx::choose("book.node.topics", 5);
                for _ in 0..k {
                    t.insert(ctx::choose("book.node.topic", all));
                }
            }
            book.push(BookEntry {
                label: format!("n{j}"),
                id: pool[j],
                topics: t,
                stale: ctx::chance("book.node.stale", 1, 6),
                bootstrap: ctx::chance("book.node.bootstrap", 1, 4),
                transports: !ctx::chance("book.node.notransport", 1, 6),
            });
        }
        let restricted = ctx::chance("cfg.restricted", 1, 2);
        sides.push(SideSpec { name, id: ids[s], topics: my_topics, book, restricted });
    }
    let sides: [SideSpec; 2] = [sides[0].clone(), sides[1].clone()];

    ev!("topics: universe {} (+{} foreign){}; A={{{}}} B={{{}}} common={{{}}}", n, foreign, if similar { ", sharing a 31-byte prefix" } else { "" }, idx_list(&a), idx_list(&b), idx_list(&common));
    for s in &sides {
        let desc: Vec<String> = s
            .book
            .iter()
            .map(|e| format!("{}[{}]{}{}{}", e.label, idx_list(&e.topics), if e.stale { " stale" } else { "" }, if e.transports { "" } else { " no-transports" }, if e.bootstrap { " bootstrap" } else { "" }))
            .collect();
        ev!("{} restricted_sharing={} address book: {}", s.name, s.restricted, if desc.is_empty() { "empty".to_string() } else { desc.join(" | ") });
    }
    World { topics, sides, common }
}

async fn fill_store(store: &SqliteStore, side: &SideSpec, topics: &[T32]) {
    tx_unwrap!(store, {
        for e in &side.book {
            let mut info = if e.bootstrap { TestNodeInfo::new_bootstrap(e.id) } else { TestNodeInfo::new(e.id) };
            if e.stale {
                info = info.stale();
            }
            if e.transports {
                info.transports = Some(TestTransportInfo::new(&format!("addr-of-{}", e.label)));
            }
            <SqliteStore as AddressBookStore<VerifyingKey, TestNodeInfo>>::insert_node_info(store, info).await.expect("insert_node_info");
            let set: HashSet<Topic> = e.topics.iter().map(|i| Topic::from(topics[*i])).collect();
            <SqliteStore as AddressBookStore<VerifyingKey, TestNodeInfo>>::set_topics(store, e.id, set).await.expect("set_topics");
        }
    });
}

// ------------------------------------------------------------------------------------------------
// Transport adapters: typed messages <-> postcard bytes on the SimDuplex
// ------------------------------------------------------------------------------------------------

fn enc_sink(s: SimSink<Vec<u8>>) -> impl Sink<Msg, Error = SimIoError> + Unpin {
    s.with(|m: Msg| futures_util::future::ready(postcard::to_stdvec(&m).map_err(|e| SimIoError(format!("postcard encode: {e}")))))
}

fn dec_stream(s: SimStream<Vec<u8>>) -> impl Stream<Item = Result<Msg, SimIoError>> + Unpin {
    s.map(|r| r.and_then(|b| postcard::from_bytes::<Msg>(&b).map_err(|e| SimIoError(format!("postcard decode: {e}")))))
}

fn err_kind(e: &ProtoErr) -> &'static str {
    match e {
        PsiHashError::Store(_) => "Store",
        PsiHashError::Subscription(_) => "Subscription",
        PsiHashError::UnexpectedMessage => "UnexpectedMessage",
        PsiHashError::Stream => "Stream",
        PsiHashError::Sink => "Sink",
        PsiHashError::Hash(_) => "Hash",
    }
}

#[derive(Clone, Debug, PartialEq, Eq)]
enum FaultPlan {
    None,
    /// Receiver of link `l` sees end-of-stream after `k` messages.
    CloseAt { l: usize, k: u64 },
    /// Sender of link `l` gets an error from its `k`-th sink operation on.
    SinkErr { l: usize, k: u64 },
    /// Receiver of link `l` gets an error item instead of message `k`.
    StreamErr { l: usize, k: u64 },
}

/// Link 0 = a->b (3 messages, 9 sink operations), link 1 = b->a (2 messages, 6 sink operations).
fn draw_fault() -> FaultPlan {
    let kind = ctx::choose("fault.kind", 4);
    if kind == 0 {
        return FaultPlan::None;
    }
    let l = ctx::choose("fault.link", 2);
    let msgs = [3u64, 2][l];
    match kind {
        1 => FaultPlan::CloseAt { l, k: ctx::choose("fault.k", msgs as usize) as u64 },
        2 => FaultPlan::SinkErr { l, k: ctx::choose("fault.k", (msgs * 3) as usize) as u64 },
        _ => FaultPlan::StreamErr { l, k: ctx::choose("fault.k", msgs as usize) as u64 },
    }
}

fn contains(hay: &[u8], needle: &[u8]) -> bool {
    !needle.is_empty() && hay.len() >= needle.len() && hay.windows(needle.len()).any(|w| w == needle)
}

fn hex(b: &[u8]) -> String {
    b.iter().map(|x| format!("{x:02x}")).collect()
}

struct SentNodes {
    ids: BTreeSet<VerifyingKey>,
}

/// Inspect one direction's transcript: trace it, run the confidentiality check on both encodings,
/// return the ids of the node infos this side sent (if it got that far).
fn inspect_transcript(dir: &str, sender: &SideSpec, world: &World, transcript: &[Vec<u8>]) -> Option<SentNodes> {
    let label_of: BTreeMap<VerifyingKey, String> = world.sides.iter().flat_map(|s| s.book.iter().map(|e| (e.id, e.label.clone()))).chain(world.sides.iter().map(|s| (s.id, s.name.to_string()))).collect();
    let mut sent_nodes = None;
    for (i, bytes) in transcript.iter().enumerate() {
        let msg: Msg = match postcard::from_bytes(bytes) {
            Ok(m) => m,
            Err(e) => {
                violation("undecodable-message", "postcard", format!("{dir} #{i}: {e}"));
                continue;
            }
        };
        let (kind, desc) = match &msg {
            PsiHashMessage::AliceSaltHalf { .. } => ("AliceSaltHalf", String::new()),
            PsiHashMessage::BobSaltHalfAndHashedData { topics_for_alice, .. } => ("BobSaltHalfAndHashedData", format!(" hashed_topics={}", topics_for_alice.len())),
            PsiHashMessage::AliceHashedData { topics_for_bob } => ("AliceHashedData", format!(" hashed_topics={}", topics_for_bob.len())),
            PsiHashMessage::Nodes { transport_infos } => {
                let ids: BTreeSet<VerifyingKey> = transport_infos.keys().copied().collect();
                let mut labels: Vec<String> = ids.iter().map(|id| label_of.get(id).cloned().unwrap_or_else(|| "?".into())).collect();
                labels.sort();
                sent_nodes = Some(SentNodes { ids });
                ("Nodes", format!(" infos=[{}]", labels.join(",")))
            }
        };
        ev!("{dir} #{i} {kind}{desc} ({} B postcard)", bytes.len());
        // Confidentiality: no raw topic of anybody in any encoding of the message.
        let cbor = match encode_cbor(&msg) {
            Ok(c) => c,
            Err(e) => {
                violation("unencodable-message", "cbor", format!("{dir} #{i} {kind}: {e}"));
                Vec::new()
            }
        };
        for (ti, t) in world.topics.iter().enumerate() {
            let owner = || {
                let mut o = vec![];
                for s in &world.sides {
                    if s.topics.contains(&ti) {
                        o.push(s.name);
                    }
                }
                if o.is_empty() { "address-book only".to_string() } else { o.join("+") }
            };
            if contains(bytes, t) {
                violation("raw-topic-on-wire", kind, format!("{dir} #{i} {kind}: postcard bytes contain raw topic {ti} (held by {}), sender {}", owner(), sender.name));
            } else if contains(&cbor, t) {
                violation("raw-topic-on-wire", kind, format!("{dir} #{i} {kind}: CBOR bytes contain raw topic {ti} (held by {}), sender {}", owner(), sender.name));
            } else {
                let hx = hex(t);
                if contains(bytes, hx.as_bytes()) || contains(&cbor, hx.as_bytes()) {
                    violation("raw-topic-on-wire", kind, format!("{dir} #{i} {kind}: bytes contain raw topic {ti} as hex, sender {}", sender.name));
                }
            }
        }
    }
    sent_nodes
}

fn topics_of(res: &Res, world: &World) -> Result<BTreeSet<usize>, String> {
    let mut out = BTreeSet::new();
    for t in &res.topics {
        match world.topics.iter().position(|x| x == t.as_bytes()) {
            Some(i) => {
                out.insert(i);
            }
            None => return Err(format!("reported a topic that exists nowhere in the world: {}", hex(t.as_bytes()))),
        }
    }
    Ok(out)
}

impl Property for C30Prop {
    fn id(&self) -> &'static str {
        "C30"
    }
    fn budget(&self, tier: Tier) -> Budget {
        match tier {
            Tier::Quick => Budget { runs: 7_000, wall_cap_s: 38 },
            Tier::Thorough => Budget { runs: 70_000, wall_cap_s: 340 },
        }
    }
    fn modes(&self) -> u32 {
        2
    }
    fn mode_name(&self, mode: u32) -> &'static str {
        match mode {
            0 => "fault-free",
            _ => "transport-faults",
        }
    }
    fn rule(&self) -> &'static str {
        "one run = one alice/bob PSI session over two fresh SQLite address books: topic universe of 0..96 topics (optionally all sharing a 31-byte prefix) split by an overlap profile (identical, disjoint, ~12/50/75 %, subset, one side empty), address books of 0..10 nodes with per-node topic sets / stale / no-transports / bootstrap flags, restricted sharing drawn per side, StepExec interleaving of the two roles; fault mode closes a stream after k messages, fails a sink from its k-th operation or yields a stream error at message k; non-trivial = both sides hold topics or a fault fired; distinct = distinct trace fingerprint (workload, interleaving-independent transcript, results)"
    }
    fn components_real(&self) -> Vec<&'static str> {
        vec![
            "p2panda_discovery::psi_hash::PsiHashDiscoveryProtocol::{alice,bob} (salt exchange, salted BLAKE3 hashing, intersection, gather_transport_infos)",
            "p2panda_store::SqliteStore as AddressBookStore (node_infos_by_topics, all_node_infos, node_info, insert_node_info, set_topics) on in-memory SQLite",
            "postcard encoding of PsiHashMessage (wire format of p2panda-net's discovery codec) and p2panda_core::cbor::encode_cbor",
        ]
    }
    fn components_stub(&self) -> Vec<&'static str> {
        vec![
            "LocalTopics: p2panda_discovery::test_utils::TestSubscription",
            "node infos: p2panda_store::address_book::test_utils::{TestNodeInfo, TestTransportInfo}",
            "transport: two SimDuplex<Vec<u8>> links (stand for the QUIC stream; the 4-byte frame prefix of the production codec is not modelled)",
            "salt halves come from rand::rng() inside the protocol (not injectable); outcomes and traces are independent of them",
        ]
    }
    fn expected_probes(&self) -> Vec<&'static str> {
        vec!["empty_intersection", "full_overlap", "one_side_empty", "restricted_excluded_node", "restricted_self_only_via_fallback", "self_missing_from_book", "stale_node_with_common_topic", "similar_topics", "one_ok_one_err"]
    }

    fn run(&self) {
        let world = gen_world();
        let fault = if ctx::mode() == 1 { draw_fault() } else { FaultPlan::None };
        if fault != FaultPlan::None {
            ev!("fault plan: {:?} (link 0 = a->b, link 1 = b->a)", fault);
        }
        if !world.sides[0].topics.is_empty() && !world.sides[1].topics.is_empty() {
            ctx::mark_nontrivial();
        }
        if world.common.is_empty() {
            ctx::probe("empty_intersection");
        }
        if !world.common.is_empty() && world.sides[0].topics == world.sides[1].topics {
            ctx::probe("full_overlap");
        }
        if world.sides[0].topics.is_empty() != world.sides[1].topics.is_empty() {
            ctx::probe("one_side_empty");
        }

        let results: Rc<RefCell<[Option<Result<Res, &'static str>>; 2]>> = Rc::new(RefCell::new([None, None]));
        let (transcripts, hang, fallback_note) = stepexec::block_on(async {
            let sa = sqlite_memory().await;
            let sb = sqlite_memory().await;
            fill_store(&sa, &world.sides[0], &world.topics).await;
            fill_store(&sb, &world.sides[1], &world.topics).await;

            let mut lcs = [LinkConfig::new(Engine::Step), LinkConfig::new(Engine::Step)];
            match fault {
                FaultPlan::None => {}
                FaultPlan::CloseAt { l, k } => lcs[l].close_after = Some(k),
                FaultPlan::SinkErr { l, k } => lcs[l].sink_err_from = Some(k),
                FaultPlan::StreamErr { l, k } => lcs[l].stream_err_at = Some(k),
            }
            let [lc_ab, lc_ba] = lcs;
            let (a_tx, b_rx) = link::<Vec<u8>>("a->b", lc_ab);
            let (b_tx, a_rx) = link::<Vec<u8>>("b->a", lc_ba);
            let ab = a_tx.link.clone();
            let ba = b_tx.link.clone();

            let mk = |s: usize, store: &SqliteStore| -> Proto {
                let side = &world.sides[s];
                let mut sub = TestSubscription::default();
                for i in &side.topics {
                    sub.topics.insert(Topic::from(world.topics[*i]));
                }
                PsiHashDiscoveryProtocol::with_config(store.clone(), sub, side.id, world.sides[1 - s].id, Config { share_nodes_with_common_topics: side.restricted })
            };
            let pa = mk(0, &sa);
            let pb = mk(1, &sb);

            let mut ex = StepExec::new();
            let ra = results.clone();
            ex.add("alice", Policy::ForeignDefault, async move {
                let mut tx = enc_sink(a_tx);
                let mut rx = dec_stream(a_rx);
                let r = pa.alice(&mut tx, &mut rx).await;
                ra.borrow_mut()[0] = Some(r.map_err(|e| err_kind(&e)));
            });
            let rb = results.clone();
            ex.add("bob", Policy::ForeignDefault, async move {
                let mut tx = enc_sink(b_tx);
                let mut rx = dec_stream(b_rx);
                let r = pb.bob(&mut tx, &mut rx).await;
                rb.borrow_mut()[1] = Some(r.map_err(|e| err_kind(&e)));
            });
            let mut note = None;
            match ex.run_to_quiescence(20_000).await {
                Ok(n) if n >= 20_000 => note = Some("step budget exhausted".to_string()),
                Ok(_) => {}
                Err(s) => note = Some(format!("foreign-wait watchdog in {}", s.name)),
            }
            let hang = [ex.is_alive(0), ex.is_alive(1)];
            if hang[0] || hang[1] {
                ev!("quiescent with live activities: alice alive={} (recv-blocked={}, send-blocked={}), bob alive={} (recv-blocked={}, send-blocked={})", hang[0], ba.borrow().rx_blocked_empty, ab.borrow().tx_blocked_full, hang[1], ab.borrow().rx_blocked_empty, ba.borrow().tx_blocked_full);
            }
            drop(ex);
            let t = [ab.borrow().transcript.clone(), ba.borrow().transcript.clone()];
            sa.pool().close().await;
            sb.pool().close().await;
            (t, hang, note)
        });

        // ---------------------------------------------------------------- transcript oracles
        let sent = [inspect_transcript("a->b", &world.sides[0], &world, &transcripts[0]), inspect_transcript("b->a", &world.sides[1], &world, &transcripts[1])];

        for s in 0..2 {
            let side = &world.sides[s];
            let Some(nodes) = &sent[s] else { continue };
            // Nodes of this side's address book that share a common topic.
            let allowed: BTreeSet<VerifyingKey> = side.book.iter().filter(|e| e.topics.iter().any(|t| world.common.contains(t))).map(|e| e.id).chain([side.id]).collect();
            let in_book: BTreeSet<VerifyingKey> = side.book.iter().map(|e| e.id).collect();
            if side.restricted {
                let extra: Vec<String> = nodes.ids.difference(&allowed).map(|id| side.book.iter().find(|e| e.id == *id).map(|e| format!("{}[{}]", e.label, idx_list(&e.topics))).unwrap_or_else(|| "node not even in the address book".into())).collect();
                if !extra.is_empty() {
                    violation("restricted-sharing-leaks-node", if s == 0 { "alice" } else { "bob" }, format!("{} (restricted) sent infos of {} although the common topics are {{{}}}", side.name, extra.join(", "), idx_list(&world.common)));
                }
                let would_share_unrestricted = side.book.iter().filter(|e| !e.stale && e.transports && !allowed.contains(&e.id)).count();
                if would_share_unrestricted > 0 {
                    ctx::probe("restricted_excluded_node");
                }
                let self_entry = side.book.iter().find(|e| e.id == side.id);
                if let Some(e) = self_entry {
                    if !e.topics.iter().any(|t| world.common.contains(t)) && nodes.ids.contains(&side.id) {
                        ctx::probe("restricted_self_only_via_fallback");
                    }
                }
                if side.book.iter().any(|e| e.stale && e.topics.iter().any(|t| world.common.contains(t))) {
                    ctx::probe("stale_node_with_common_topic");
                }
            }
            // Whatever the configuration: nothing can be sent that is not in the address book.
            if let Some(id) = nodes.ids.iter().find(|id| !in_book.contains(id)) {
                violation("sent-unknown-node", if s == 0 { "alice" } else { "bob" }, format!("{} sent a node info that its address book does not hold: {}", side.name, id.to_hex()));
            }
        }

        // ---------------------------------------------------------------- result oracles
        let fired = |kind: &'static str| ctx::with(|c| c.faults.get(kind).copied().unwrap_or(0)) > 0;
        // Which side experienced the injected fault (if it fired)?
        let affected: Option<usize> = match fault {
            FaultPlan::None => None,
            FaultPlan::CloseAt { l, .. } => fired("close_at").then_some(1 - l),
            FaultPlan::StreamErr { l, .. } => fired("stream_err_at").then_some(1 - l),
            FaultPlan::SinkErr { l, .. } => fired("sink_err_at").then_some(l),
        };
        if let Some(note) = &fallback_note {
            violation("did-not-terminate", "executor", note.clone());
        }
        let res = results.borrow();
        let mut oks = 0;
        for s in 0..2 {
            let side = &world.sides[s];
            match &res[s] {
                None => {
                    if hang[s] {
                        let site = match affected {
                            None if fault == FaultPlan::None => "fault-free",
                            None => "planned-fault-did-not-fire",
                            Some(a) if a == s => "side-hit-by-fault",
                            Some(_) => "peer-of-side-hit-by-fault",
                        };
                        violation("hang", site, format!("{} never returned (fault plan {:?})", side.name, fault));
                    }
                }
                Some(Ok(r)) => {
                    oks += 1;
                    match topics_of(r, &world) {
                        Ok(t) => {
                            let mut infos: Vec<String> = r.transport_infos.keys().map(|id| world.sides.iter().flat_map(|x| x.book.iter()).find(|e| e.id == *id).map(|e| e.label.clone()).unwrap_or_else(|| "?".into())).collect();
                            infos.sort();
                            ev!("{} result: Ok topics={{{}}} infos=[{}]", side.name, idx_list(&t), infos.join(","));
                            if t != world.common {
                                let clause = if t.is_subset(&world.common) { "missing-common-topic" } else if t.is_superset(&world.common) { "topic-outside-intersection" } else { "wrong-topics" };
                                violation(clause, if s == 0 { "alice" } else { "bob" }, format!("{} reported {{{}}}, intersection is {{{}}} (A={{{}}} B={{{}}})", side.name, idx_list(&t), idx_list(&world.common), idx_list(&world.sides[0].topics), idx_list(&world.sides[1].topics)));
                            }
                        }
                        Err(e) => violation("topic-outside-intersection", if s == 0 { "alice" } else { "bob" }, format!("{} {e}", side.name)),
                    }
                    if r.remote_node_id != world.sides[1 - s].id {
                        violation("wrong-remote-id", if s == 0 { "alice" } else { "bob" }, format!("{} result names a different remote", side.name));
                    }
                    if affected == Some(s) {
                        // A sink error / closed stream was handed to this side, yet it reported success.
                        violation("fault-swallowed", match fault {
                            FaultPlan::CloseAt { .. } => "close_at",
                            FaultPlan::SinkErr { .. } => "sink_err_at",
                            FaultPlan::StreamErr { .. } => "stream_err_at",
                            FaultPlan::None => "none",
                        }, format!("{} returned Ok although {:?} fired on its side", side.name, fault));
                    }
                }
                Some(Err(kind)) => {
                    ev!("{} result: Err({kind})", side.name);
                    if affected.is_none() {
                        violation("session-failed", "no-fault-fired", format!("{} returned Err({kind}) although no fault fired (plan {:?})", side.name, fault));
                    }
                }
            }
        }
        if affected.is_some() {
            if oks == 1 {
                ctx::probe("one_ok_one_err");
            }
        } else if fault != FaultPlan::None {
            ev!("planned fault did not fire");
        }
    }
}
