//! C20 — Each sync side sends exactly one Done, even under concurrent pruning.

use simcore::duplex::Engine;
use simcore::{Budget, Property, Tier, ctx, violation};
use simworld::logworld::WorldParams;

use super::c19::{mode_cfg, mode_name, run_kind};
use super::syncworld::{SyncCfg, check_grammar};

pub struct C20Prop;
pub static C20: C20Prop = C20Prop;

impl Property for C20Prop {
    fn id(&self) -> &'static str {
        "C20"
    }
    fn budget(&self, tier: Tier) -> Budget {
        match tier {
            Tier::Quick => Budget { runs: 24_000, wall_cap_s: 40 },
            Tier::Thorough => Budget { runs: 400_000, wall_cap_s: 420 },
        }
    }
    fn modes(&self) -> u32 {
        8
    }
    fn mode_name(&self, mode: u32) -> &'static str {
        mode_name(mode)
    }
    fn rule(&self) -> &'static str {
        "one run = two real sync sessions over SimDuplex plus (in 3 of 4 runs) one concurrent prune of a log on one side at a seeded instant between the session's store calls; non-trivial = both replicas hold operations or the prune removed rows; distinct = distinct trace fingerprint (views, prune plan, both wire transcripts, results)"
    }
    fn components_real(&self) -> Vec<&'static str> {
        vec!["p2panda_sync::protocols::LogSync", "p2panda_sync::protocols::TopicLogSync", "p2panda_store::SqliteStore incl. prune_entries (StepExec modes)"]
    }
    fn components_stub(&self) -> Vec<&'static str> {
        vec!["transport: SimDuplex", "store in DES modes: MemStore with latency points"]
    }
    fn expected_probes(&self) -> Vec<&'static str> {
        vec!["prune_landed_during_session", "ranges_emptied_between_have_and_presync"]
    }
    fn run(&self) {
        let (engine, kind) = mode_cfg(ctx::mode());
        let cfg = SyncCfg {
            engine,
            kind,
            capacity: usize::MAX,
            world: WorldParams { max_authors: 2, max_logs_per_author: 2, max_ops_per_log: 6, prune_num: 1, body_kinds: 3, min_ops_per_log: 0 },
            interference: ctx::chance("interference", 3, 4),
            dedup_capacity: 1024,
            partial_scope: false,
        };
        let _ = Engine::Des;
        let out = run_kind(&cfg);
        if out.sides.iter().all(|s| !s.ops.is_empty()) || out.interference_applied {
            ctx::mark_nontrivial();
        }
        if out.interference_applied {
            ctx::probe("prune_landed_during_session");
        }
        if let Some(s) = &out.stall {
            violation("did-not-complete", "stall", s.clone());
            return;
        }
        for s in &out.sides {
            let completed = s.result == Some(Ok(()));
            if let Err((clause, detail)) = check_grammar(&s.sent, completed) {
                // Attribution: a second Done after a Done that was sent instead of PreSync means the
                // ranges computed from Have were emptied before get_log_size.
                let site = if clause == "done-twice" || clause == "message-after-done" {
                    let second_is_done = s.sent.iter().filter(|w| !matches!(w, super::syncworld::Wire::Live { .. } | super::syncworld::Wire::Close)).nth(1).map(|w| matches!(w, super::syncworld::Wire::Done)).unwrap_or(false);
                    if second_is_done && out.interference_applied {
                        ctx::probe("ranges_emptied_between_have_and_presync");
                        "Done-instead-of-PreSync-then-Done-after-last-range (store emptied between get_log_heights and get_log_size)"
                    } else {
                        "sync-transcript"
                    }
                } else {
                    "sync-transcript"
                };
                violation(clause, site, format!("{} sent: {}", s.name, detail));
            }
        }
    }
}
