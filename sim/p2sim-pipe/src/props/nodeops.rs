//! Operations with the Node's own header extensions (`p2panda::operation::Extensions`), built the
//! way `OperationForge::create_operation` builds them, plus the forgeries C04 needs. Keys and
//! topics derive from the run seed; the timestamp inside the extensions reads the interposed
//! wall clock, so every operation is a pure function of the choice stream.

use p2panda::operation::{Extensions, Header, LogId, Operation};
use p2panda_core::{Body, Hash, PruneFlag, SeqNum, SigningKey, Topic, VerifyingKey};

/// An event as the Node's pipeline sees it.
pub type NodeEvent = p2panda::processor::verif::Event<LogId, Extensions, Topic>;
pub type NodePipeline = p2panda::processor::verif::Pipeline<LogId, Extensions, Topic>;
pub type NodeTasks = p2panda::processor::verif::TaskTracker<NodeEvent, Hash>;

/// A header claiming `author`, for the log of `topic`, signed with `signer` (the author's own key
/// for an honest operation, anybody else's for a forgery).
pub fn make_op(signer: &SigningKey, author: VerifyingKey, topic: Topic, seq_num: SeqNum, backlink: Option<Hash>, prune: bool, body: Option<Vec<u8>>) -> Operation {
    let body: Option<Body> = body.map(Body::from);
    let mut header = Header {
        version: 1,
        verifying_key: author,
        signature: None,
        payload_size: body.as_ref().map(|b| b.size()).unwrap_or(0),
        payload_hash: body.as_ref().map(|b| b.hash()),
        seq_num,
        backlink,
        extensions: Extensions::from_topic(topic).set_prune_flag(prune),
    };
    header.sign(signer);
    Operation { hash: header.hash(), header, body }
}

/// Exactly what `process_operation` in `p2panda/src/streams/stream.rs` does before it calls
/// `pipeline.process(..)`: the log id comes from the topic the operation arrived on, the prune
/// flag from the (not yet verified) header extensions.
pub fn event_for(operation: Operation, topic: Topic) -> NodeEvent {
    let log_id = LogId::from_topic(topic);
    let prune_flag: PruneFlag = operation.header.extensions.prune_flag();
    p2panda::processor::verif::new_event(operation, log_id, topic, prune_flag)
}

pub fn short(h: &Hash) -> String {
    h.to_hex()[..6].to_string()
}

