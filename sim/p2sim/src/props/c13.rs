//! C13 — Processor streams deliver every output exactly once and in order.
//!
//! DES engine. Real: `ProcessorStream::poll_next`, `Buffer` (its `select!` drops `next()` whenever
//! input wins), `ComposedProcessors`, `PipelineBuilder` / `Pipeline`, `StreamLayerExt::layer`,
//! `ProcessorExt::into_stream`. Stub: the processors themselves — cancel-safe FIFO stages with
//! PRNG-chosen simulated latencies and drop guards, so that every loss is attributable to the layers.

use std::cell::RefCell;
use std::collections::{BTreeMap, VecDeque};
use std::rc::Rc;
use std::time::Duration;

use futures_util::{Stream, StreamExt, stream};
use p2panda_stream::{PipelineBuilder, Processor, ProcessorExt, StreamLayerExt};
use simcore::{Budget, Property, Tier, ctx, des, ev, violation};
use tokio::sync::Notify;

#[derive(Clone, Debug, PartialEq, Eq)]
pub struct Item {
    pub id: u32,
    /// Stage ids the item passed, in order.
    pub path: Vec<u8>,
}

#[derive(Default)]
pub struct Attribution {
    /// `process(item)` futures of stage s dropped before completion: (stage, item id).
    pub process_dropped: Vec<(u8, u32)>,
    /// items handed to `process` of stage s
    pub entered: BTreeMap<u8, Vec<u32>>,
    /// items returned by `next` of stage s
    pub left: BTreeMap<u8, Vec<u32>>,
}

pub struct Stage {
    id: u8,
    queue: RefCell<VecDeque<Item>>,
    notify: Notify,
    attr: Rc<RefCell<Attribution>>,
    /// item ids for which `process` returns an error
    fail_mod: u32,
    latency: bool,
}

impl Stage {
    fn new(id: u8, attr: Rc<RefCell<Attribution>>, fail_mod: u32, latency: bool) -> Self {
        Stage { id, queue: RefCell::new(VecDeque::new()), notify: Notify::new(), attr, fail_mod, latency }
    }
}

struct DropGuard {
    stage: u8,
    item: u32,
    attr: Rc<RefCell<Attribution>>,
    armed: bool,
}

impl Drop for DropGuard {
    fn drop(&mut self) {
        if self.armed {
            self.attr.borrow_mut().process_dropped.push((self.stage, self.item));
        }
    }
}

impl Processor<Item> for Stage {
    type Output = Item;
    type Error = (u8, u32);

    async fn process(&self, mut input: Item) -> Result<(), Self::Error> {
        self.attr.borrow_mut().entered.entry(self.id).or_default().push(input.id);
        let mut guard = DropGuard { stage: self.id, item: input.id, attr: self.attr.clone(), armed: true };
        if self.latency {
            des::delay("stage.process", &[0, 0, 500, 2_000, 10_000, 40_000]).await;
        }
        guard.armed = false;
        if self.fail_mod > 0 && input.id % self.fail_mod == self.fail_mod - 1 {
            return Err((self.id, input.id));
        }
        input.path.push(self.id);
        self.queue.borrow_mut().push_back(input);
        self.notify.notify_one();
        Ok(())
    }

    async fn next(&self) -> Result<Item, Self::Error> {
        struct NextGuard(bool);
        impl Drop for NextGuard {
            fn drop(&mut self) {
                if self.0 {
                    // The layer above dropped this `next()` future before it returned.
                    ctx::fault("cancel_at(next)");
                }
            }
        }
        let mut guard = NextGuard(true);
        let _ = &mut guard;
        loop {
            // Latency first, dequeue afterwards: dropping this future never loses an item.
            if self.latency {
                des::delay("stage.next", &[0, 0, 300, 1_000, 5_000, 20_000]).await;
            }
            if let Some(item) = self.queue.borrow_mut().pop_front() {
                self.attr.borrow_mut().left.entry(self.id).or_default().push(item.id);
                guard.0 = false;
                return Ok(item);
            }
            self.notify.notified().await;
        }
    }
}

fn input_stream(n: u32, gaps: bool) -> impl Stream<Item = Item> {
    stream::unfold(0u32, move |i| async move {
        if i >= n {
            return None;
        }
        if gaps {
            des::delay("input.gap", &[0, 0, 0, 200, 1_000, 8_000, 30_000]).await;
        }
        Some((Item { id: i, path: vec![] }, i + 1))
    })
}

#[derive(Clone, Copy, Debug, PartialEq, Eq)]
enum Shape {
    /// `.layer(a).layer(b)...` — one `ProcessorStream` (and `Buffer`) per stage.
    Stacked,
    /// `PipelineBuilder::new().layer(a).layer(b)...build().into_stream(..)` — `ComposedProcessors`.
    Composed,
}

pub struct C13Prop;
pub static C13: C13Prop = C13Prop;

impl Property for C13Prop {
    fn id(&self) -> &'static str {
        "C13"
    }
    fn budget(&self, tier: Tier) -> Budget {
        match tier {
            Tier::Quick => Budget { runs: 120_000, wall_cap_s: 40 },
            Tier::Thorough => Budget { runs: 2_000_000, wall_cap_s: 400 },
        }
    }
    fn modes(&self) -> u32 {
        4
    }
    fn mode_name(&self, mode: u32) -> &'static str {
        match mode {
            0 => "stacked layers, no latency (fault-free)",
            1 => "stacked layers, simulated latencies",
            2 => "composed pipeline, no latency (fault-free)",
            _ => "composed pipeline, simulated latencies",
        }
    }
    fn rule(&self) -> &'static str {
        "one run = 1-20 inputs with seeded arrival gaps through 1-3 FIFO stub stages (seeded process/next latencies, optional failing items), either stacked ProcessorStreams or one composed Pipeline, consumed with seeded polling gaps under a seeded task schedule; non-trivial = at least 2 inputs and 2 stages or any latency; distinct = distinct trace fingerprint (shape, sizes, outputs in order, attribution)"
    }
    fn components_real(&self) -> Vec<&'static str> {
        vec!["p2panda_stream ProcessorStream::poll_next", "p2panda_stream Buffer (select! over input and next())", "p2panda_stream ComposedProcessors", "p2panda_stream PipelineBuilder / Pipeline", "StreamLayerExt::layer / ProcessorExt::into_stream"]
    }
    fn components_stub(&self) -> Vec<&'static str> {
        vec!["processors: cancel-safe FIFO stub stages with drop guards and simulated latencies", "input stream and consumer (harness)"]
    }
    fn expected_probes(&self) -> Vec<&'static str> {
        vec!["next_cancelled_by_input", "process_dropped_inside_composed_next", "error_output"]
    }
    fn run(&self) {
        let mode = ctx::mode();
        let shape = if mode < 2 { Shape::Stacked } else { Shape::Composed };
        let latency = mode % 2 == 1;
        let n = ctx::range("inputs", 1, 20) as u32;
        let stages = ctx::range("stages", 1, 3) as u8;
        let fail_mod = if ctx::chance("failing", 1, 4) { 3 + ctx::choose("fail_mod", 5) as u32 } else { 0 };
        let fail_stage = ctx::choose("fail_stage", stages as usize) as u8;
        ev!("shape={shape:?} stages={stages} inputs={n} latency={latency} failing: every item with id % {fail_mod} == {} at stage {fail_stage}", fail_mod.saturating_sub(1));
        if (n >= 2 && stages >= 2) || latency {
            ctx::mark_nontrivial();
        }
        let attr = Rc::new(RefCell::new(Attribution::default()));
        let attr2 = attr.clone();
        let outputs: Rc<RefCell<Vec<Result<Item, (u8, u32)>>>> = Rc::new(RefCell::new(vec![]));
        let out2 = outputs.clone();

        let r = des::run(move || async move {
            let mk = |id: u8| Stage::new(id, attr2.clone(), if id == fail_stage { fail_mod } else { 0 }, latency);
            let input = input_stream(n, latency);
            // Erase the concrete stream types behind boxed streams with a common item type.
            type Out = Result<Item, String>;
            let mut s: std::pin::Pin<Box<dyn Stream<Item = Result<Item, (u8, u32)>>>> = match (shape, stages) {
                (Shape::Stacked, 1) => Box::pin(input.layer(mk(0))),
                (Shape::Stacked, 2) => Box::pin(flatten2(input.layer(mk(0)).filter_map(ok_or_record(out2.clone())).layer(mk(1)))),
                (Shape::Stacked, _) => Box::pin(flatten2(
                    input.layer(mk(0)).filter_map(ok_or_record(out2.clone())).layer(mk(1)).filter_map(ok_or_record(out2.clone())).layer(mk(2)),
                )),
                (Shape::Composed, 1) => Box::pin(PipelineBuilder::<Item>::new().layer(mk(0)).build().into_stream(input)),
                (Shape::Composed, 2) => Box::pin(PipelineBuilder::<Item>::new().layer(mk(0)).layer(mk(1)).build().into_stream(input).map(|r| r.map_err(flatten_err2))),
                (Shape::Composed, _) => Box::pin(PipelineBuilder::<Item>::new().layer(mk(0)).layer(mk(1)).layer(mk(2)).build().into_stream(input).map(|r| r.map_err(flatten_err3))),
            };
            let _ = std::marker::PhantomData::<Out>;
            // Consumer: seeded polling gaps; stop when every input is accounted for or when nothing
            // arrived for 60 simulated seconds.
            loop {
                if out2.borrow().len() as u32 >= n {
                    break;
                }
                if latency {
                    des::delay("consumer.gap", &[0, 0, 100, 1_000, 10_000]).await;
                }
                match tokio::time::timeout(Duration::from_secs(60), s.next()).await {
                    Ok(Some(item)) => out2.borrow_mut().push(item),
                    Ok(None) => break,
                    Err(_) => break, // quiet for 60 simulated seconds
                }
            }
        });
        if r.is_err() {
            violation("hang", "processor-stream", "simulated 1 h watchdog fired".into());
            return;
        }
        let outs = outputs.borrow().clone();
        let a = attr.borrow();
        ev!(
            "outputs: {}",
            outs.iter().map(|o| match o { Ok(i) => format!("{}", i.id), Err((s, i)) => format!("E{i}@{s}") }).collect::<Vec<_>>().join(" ")
        );
        if !a.process_dropped.is_empty() {
            ev!("process() futures dropped before completion: {:?}", a.process_dropped);
        }
        if outs.iter().any(|o| o.is_err()) {
            ctx::probe("error_output");
        }
        // Exactly once.
        let mut seen: BTreeMap<u32, u32> = BTreeMap::new();
        for o in &outs {
            let id = match o {
                Ok(i) => i.id,
                Err((_, i)) => *i,
            };
            *seen.entry(id).or_insert(0) += 1;
        }
        let site_for_loss = |id: u32| -> String {
            if let Some((s, _)) = a.process_dropped.iter().find(|(_, i)| *i == id) {
                ctx::probe("process_dropped_inside_composed_next");
                format!("{}: process() of stage {} dropped before completion (next() future cancelled while handing the item over)", if shape == Shape::Composed { "ComposedProcessors::next" } else { "stacked" }, if *s == 0 { "first" } else { "later" })
            } else {
                format!("{shape:?}: item vanished without a dropped process()")
            }
        };
        for id in 0..n {
            match seen.get(&id).copied().unwrap_or(0) {
                1 => {}
                0 => {
                    violation("output-lost", &site_for_loss(id), format!("input {id} of {n} produced no output within 60 simulated seconds after the stream went quiet; outputs {:?}", seen.keys().collect::<Vec<_>>()));
                    break;
                }
                k => {
                    violation("output-duplicated", &format!("{shape:?}"), format!("input {id} produced {k} outputs"));
                    break;
                }
            }
        }
        // Order among successful outputs, and correct path through all stages.
        let oks: Vec<&Item> = outs.iter().filter_map(|o| o.as_ref().ok()).collect();
        for w in oks.windows(2) {
            if w[0].id >= w[1].id {
                violation("out-of-order", &format!("{shape:?}"), format!("output {} came before {}", w[0].id, w[1].id));
                break;
            }
        }
        for i in &oks {
            let expect: Vec<u8> = (0..stages).collect();
            if i.path != expect {
                violation("stage-skipped", &format!("{shape:?}"), format!("item {} passed stages {:?}, expected {:?}", i.id, i.path, expect));
                break;
            }
        }
        let cancelled_next = a.entered.get(&0).map(|v| v.len()).unwrap_or(0) > 1;
        if cancelled_next && latency {
            ctx::probe("next_cancelled_by_input");
        }
    }
}

/// For stacked layers: errors of an inner layer are final outputs (recorded), only Ok items travel on.
fn ok_or_record(out: Rc<RefCell<Vec<Result<Item, (u8, u32)>>>>) -> impl FnMut(Result<Item, (u8, u32)>) -> std::future::Ready<Option<Item>> {
    move |r| {
        std::future::ready(match r {
            Ok(i) => Some(i),
            Err(e) => {
                out.borrow_mut().push(Err(e));
                None
            }
        })
    }
}

fn flatten2<S: Stream<Item = Result<Item, (u8, u32)>>>(s: S) -> impl Stream<Item = Result<Item, (u8, u32)>> {
    s
}

fn flatten_err2(e: p2panda_stream::ComposedError<(u8, u32), (u8, u32)>) -> (u8, u32) {
    match e {
        p2panda_stream::ComposedError::First(e) | p2panda_stream::ComposedError::Second(e) => e,
    }
}

fn flatten_err3(e: p2panda_stream::ComposedError<p2panda_stream::ComposedError<(u8, u32), (u8, u32)>, (u8, u32)>) -> (u8, u32) {
    match e {
        p2panda_stream::ComposedError::First(e) => flatten_err2(e),
        p2panda_stream::ComposedError::Second(e) => e,
    }
}
