//! Normal forms of sync wire messages and session events, shared by the sync worlds.

use std::collections::BTreeMap;

use p2panda_core::cbor::decode_cbor;
use p2panda_core::{Hash, Header, Operation, SeqNum, VerifyingKey};
use p2panda_sync::protocols::{LogSyncEvent, LogSyncMessage, TopicLogSyncEvent, TopicLogSyncMessage};

use crate::logworld::{LogIdT, SimExt, short, short_key};

// ------------------------------------------------------------------------------------------------
// Wire normal form
// ------------------------------------------------------------------------------------------------

#[derive(Clone, Debug, PartialEq, Eq)]
pub enum Wire {
    Have(BTreeMap<(VerifyingKey, LogIdT), SeqNum>),
    PreSync { ops: u32, bytes: u32 },
    Op { hash: Hash, author: VerifyingKey, log: LogIdT, seq: SeqNum, bytes: u32 },
    Done,
    Live { hash: Hash },
    Close,
    Garbage,
}

impl Wire {
    pub fn label(&self) -> String {
        match self {
            Wire::Have(h) => format!("Have({})", h.iter().map(|((a, l), s)| format!("{}:{}={}", short_key(a), l, s)).collect::<Vec<_>>().join(",")),
            Wire::PreSync { ops, bytes } => format!("PreSync({ops},{bytes})"),
            Wire::Op { author, log, seq, .. } => format!("Op({}:{}#{})", short_key(author), log, seq),
            Wire::Done => "Done".into(),
            Wire::Live { hash } => format!("Live({})", short(hash)),
            Wire::Close => "Close".into(),
            Wire::Garbage => "Garbage".into(),
        }
    }
}

pub trait ToWire {
    fn to_wire(&self) -> Wire;
}

impl ToWire for LogSyncMessage<LogIdT> {
    fn to_wire(&self) -> Wire {
        match self {
            LogSyncMessage::Have(h) => {
                let mut m = BTreeMap::new();
                for (a, ls) in h {
                    for (l, s) in ls {
                        m.insert((*a, *l), *s);
                    }
                }
                Wire::Have(m)
            }
            LogSyncMessage::PreSync { total_operations, total_bytes } => Wire::PreSync { ops: *total_operations, bytes: *total_bytes },
            LogSyncMessage::Operation(h, b) => match decode_cbor::<Header<SimExt>, _>(&h[..]) {
                Ok(header) => Wire::Op {
                    hash: header.hash(),
                    author: header.verifying_key,
                    log: header.extensions.log_id,
                    seq: header.seq_num,
                    bytes: (h.len() + b.as_ref().map(|b| b.len()).unwrap_or(0)) as u32,
                },
                Err(_) => Wire::Garbage,
            },
            LogSyncMessage::Done => Wire::Done,
        }
    }
}

impl ToWire for TopicLogSyncMessage<LogIdT, SimExt> {
    fn to_wire(&self) -> Wire {
        match self {
            TopicLogSyncMessage::Sync(m) => m.to_wire(),
            TopicLogSyncMessage::Live(h, _) => Wire::Live { hash: h.hash() },
            TopicLogSyncMessage::Close => Wire::Close,
        }
    }
}

// ------------------------------------------------------------------------------------------------
// Events normal form
// ------------------------------------------------------------------------------------------------

#[derive(Clone, Debug, PartialEq, Eq)]
pub enum Evt {
    SessionStarted,
    SyncStarted,
    Op { hash: Hash, author: VerifyingKey, log: LogIdT, seq: SeqNum },
    SyncFinished,
    LiveModeStarted,
    SessionFinished,
    Failed(String),
}

impl Evt {
    pub fn label(&self) -> String {
        match self {
            Evt::Op { author, log, seq, .. } => format!("OperationReceived({}:{}#{})", short_key(author), log, seq),
            Evt::Failed(e) => format!("Failed({e})"),
            other => format!("{other:?}"),
        }
    }
}

fn op_evt(o: &Operation<SimExt>) -> Evt {
    Evt::Op { hash: o.hash, author: o.header.verifying_key, log: o.header.extensions.log_id, seq: o.header.seq_num }
}

pub fn from_log_event(e: LogSyncEvent<SimExt>) -> Evt {
    match e {
        LogSyncEvent::MetricsExchanged { .. } => Evt::SyncStarted,
        LogSyncEvent::OperationReceived { operation, .. } => op_evt(&operation),
    }
}

pub fn from_topic_event(e: TopicLogSyncEvent<SimExt>) -> Evt {
    match e {
        TopicLogSyncEvent::SessionStarted => Evt::SessionStarted,
        TopicLogSyncEvent::SyncStarted { .. } => Evt::SyncStarted,
        TopicLogSyncEvent::SyncFinished { .. } => Evt::SyncFinished,
        TopicLogSyncEvent::LiveModeStarted => Evt::LiveModeStarted,
        TopicLogSyncEvent::OperationReceived { operation, .. } => op_evt(&operation),
        TopicLogSyncEvent::SessionFinished { .. } => Evt::SessionFinished,
        TopicLogSyncEvent::Failed { error } => Evt::Failed(error),
    }
}

