//! Properties of the Node's event processing pipeline (`p2panda::processor`).
//!
//! C14 and C04 need the verification hooks H1 / H2 in /repo/p2panda (`p2sim-pipe/hooks/*.diff`);
//! they sit behind the cargo feature `hooks` so that this crate builds before the hooks are
//! committed.

#[cfg(feature = "hooks")]
pub mod c04;
#[cfg(feature = "hooks")]
pub mod c14;
#[cfg(feature = "hooks")]
pub mod nodeops;

pub fn all() -> Vec<&'static dyn simcore::Property> {
    #[allow(unused_mut)]
    let mut props: Vec<&'static dyn simcore::Property> = vec![];
    #[cfg(feature = "hooks")]
    {
        props.push(&c14::C14);
        props.push(&c04::C04);
    }
    props
}
