//! Self-contained PRNG (splitmix64 seeding, xoshiro256**), no dependency on `rand` versions.

#[derive(Clone, Debug)]
pub struct Rng {
    s: [u64; 4],
}

pub fn splitmix64(state: &mut u64) -> u64 {
    *state = state.wrapping_add(0x9E37_79B9_7F4A_7C15);
    let mut z = *state;
    z = (z ^ (z >> 30)).wrapping_mul(0xBF58_476D_1CE4_E5B9);
    z = (z ^ (z >> 27)).wrapping_mul(0x94D0_49BB_1331_11EB);
    z ^ (z >> 31)
}

/// Mix several integers into one 64-bit value (used for per-run seeds and fingerprints).
pub fn mix(parts: &[u64]) -> u64 {
    let mut h: u64 = 0x243F_6A88_85A3_08D3;
    for p in parts {
        h ^= *p;
        let mut s = h;
        h = splitmix64(&mut s);
    }
    h
}

pub fn hash_str(s: &str) -> u64 {
    let mut h: u64 = 0xcbf2_9ce4_8422_2325;
    for b in s.as_bytes() {
        h ^= *b as u64;
        h = h.wrapping_mul(0x0000_0100_0000_01B3);
    }
    h
}

impl Rng {
    pub fn new(seed: u64) -> Self {
        let mut st = seed;
        let s = [
            splitmix64(&mut st),
            splitmix64(&mut st),
            splitmix64(&mut st),
            splitmix64(&mut st),
        ];
        Rng { s }
    }

    pub fn next_u64(&mut self) -> u64 {
        let result = self.s[1].wrapping_mul(5).rotate_left(7).wrapping_mul(9);
        let t = self.s[1] << 17;
        self.s[2] ^= self.s[0];
        self.s[3] ^= self.s[1];
        self.s[1] ^= self.s[2];
        self.s[0] ^= self.s[3];
        self.s[2] ^= t;
        self.s[3] = self.s[3].rotate_left(45);
        result
    }

    /// Uniform in `0..n` (n ≥ 1).
    pub fn below(&mut self, n: u64) -> u64 {
        debug_assert!(n >= 1);
        if n <= 1 {
            return 0;
        }
        // Lemire-style rejection is unnecessary at this precision; modulo bias ≤ 2^-32 for n < 2^32.
        self.next_u64() % n
    }
}
