//! Helpers shared by C35 / C37 (candidates for `simworld` once they settle): the crate's ChaCha RNG
//! seeded from the run seed, short hex for trace lines, a stable "site" derived from an error's
//! `Debug` representation (variant path without payloads).

use p2panda_encryption::Rng;
use simcore::ctx;
use simworld::logworld::key_bytes;

/// The crate's RNG seeded from the run seed (never the OS).
pub fn seeded_rng(index: u64) -> Rng {
    Rng::from_seed(key_bytes(ctx::seed(), 0x656e_6332_0000 + index))
}

/// First three bytes as hex — enough to tell generated secrets apart in a trace.
pub fn hex3(bytes: &[u8]) -> String {
    let mut s = String::with_capacity(6);
    for b in bytes.iter().take(3) {
        s.push_str(&format!("{b:02x}"));
    }
    s
}

/// Variant path of an error from its `Debug` form: `Dcgka(TwoParty(Hpke(Decryption(OpenError))))`
/// → `Dcgka>TwoParty>Hpke>Decryption>OpenError`; payloads (numbers, strings, byte arrays, structs)
/// end the path, so the result is stable across seeds.
pub fn err_site(debug: &str) -> String {
    let mut parts: Vec<&str> = Vec::new();
    for tok in debug.split('(') {
        let t = tok.trim_end_matches(')').trim();
        let ident = !t.is_empty() && t.chars().all(|c| c.is_ascii_alphanumeric() || c == '_') && t.chars().next().map(|c| c.is_ascii_uppercase()).unwrap_or(false);
        if ident {
            parts.push(t);
        } else {
            break;
        }
    }
    if parts.is_empty() { "error".to_string() } else { parts.join(">") }
}
