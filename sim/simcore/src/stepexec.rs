//! StepExec engine: the harness is the only poller of the scenario's activities. One step = pick a
//! runnable activity with the choice stream and run it from seam to seam. A `Pending` that is not
//! a park on a harness-owned seam is a foreign wait (a reply from another OS thread, e.g. an sqlx
//! SQLite worker): the harness awaits the wake on the real-time tokio runtime (so runtime-spawned
//! helper tasks keep running) and re-polls the same activity without drawing from the PRNG.
//! The schedule is therefore the sequence of seam decisions, not of polls.

use std::cell::{Cell, RefCell};
use std::future::Future;
use std::pin::Pin;
use std::sync::atomic::{AtomicBool, Ordering::SeqCst};
use std::sync::{Arc, Mutex};
use std::task::{Context, Poll, Wake, Waker};
use std::time::Duration;

use tokio::runtime::{Builder, RngSeed};
use tokio::task::LocalSet;

use crate::ctx;

pub struct Flag {
    woken: AtomicBool,
    harness: Mutex<Option<Waker>>,
}

impl Wake for Flag {
    fn wake(self: Arc<Self>) {
        self.wake_by_ref()
    }
    fn wake_by_ref(self: &Arc<Self>) {
        self.woken.store(true, SeqCst);
        if let Some(w) = self.harness.lock().unwrap().take() {
            w.wake();
        }
    }
}

struct WaitWoken(Arc<Flag>);

impl Future for WaitWoken {
    type Output = ();
    fn poll(self: Pin<&mut Self>, cx: &mut Context<'_>) -> Poll<()> {
        *self.0.harness.lock().unwrap() = Some(cx.waker().clone());
        if self.0.woken.load(SeqCst) {
            self.0.harness.lock().unwrap().take();
            Poll::Ready(())
        } else {
            Poll::Pending
        }
    }
}

thread_local! {
    static CURRENT: Cell<usize> = const { Cell::new(usize::MAX) };
    static PARKED: Cell<bool> = const { Cell::new(false) };
    static FOREIGN: RefCell<Vec<u32>> = const { RefCell::new(Vec::new()) };
    static CANCEL_IN_FLIGHT: Cell<bool> = const { Cell::new(false) };
    static CANCEL_NOW: Cell<bool> = const { Cell::new(false) };
    static PREEMPT_IN_FLIGHT: Cell<bool> = const { Cell::new(false) };
    static YIELDS: Cell<u64> = const { Cell::new(0) };
    static CANCEL_AT_YIELD: Cell<Option<u64>> = const { Cell::new(None) };
}

/// Ask the executor to drop the current activity at its next `Pending` inside a delegated store
/// call (i.e. while the call is in flight on a foreign thread). Cleared by `clear_cancel_requests`.
pub fn request_cancel_in_flight() {
    CANCEL_IN_FLIGHT.with(|c| c.set(true));
}

/// Ask the executor to hand control back to the scheduler at the current activity's next `Pending`
/// inside a delegated store call, *leaving the call in flight* on its foreign thread. Exactly one
/// step of another activity (seeded choice; none if nothing else is runnable) then overlaps the
/// call; after it the executor waits for the call's answer, and the activity is schedulable again.
/// This is the legal schedule "another task ran while my COMMIT was being executed", which the
/// seam-to-seam stepping otherwise never produces.
pub fn request_preempt_in_flight() {
    PREEMPT_IN_FLIGHT.with(|c| c.set(true));
}

/// Number of yields seen since `reset_yields`: polls that returned `Pending` outside any delegated
/// call and outside any seam although the activity had already woken itself (`yield_now()` and the
/// like inside the code under test). Each is an await point at which the future can be dropped.
pub fn yields_seen() -> u64 {
    YIELDS.with(|y| y.get())
}

pub fn reset_yields() {
    YIELDS.with(|y| y.set(0));
    CANCEL_AT_YIELD.with(|c| c.set(None));
}

/// Ask the executor to drop the activity at its n-th yield (counted from `reset_yields`).
pub fn request_cancel_at_yield(n: u64) {
    CANCEL_AT_YIELD.with(|c| c.set(Some(n)));
}

/// Withdraw a preemption request that was not used (the call answered without a `Pending`).
pub fn clear_preempt_request() {
    PREEMPT_IN_FLIGHT.with(|c| c.set(false));
}

/// Ask the executor to drop the current activity as soon as this poll returns `Pending`.
pub fn request_cancel_now() {
    CANCEL_NOW.with(|c| c.set(true));
}

pub fn clear_cancel_requests() -> bool {
    let a = CANCEL_IN_FLIGHT.with(|c| c.replace(false));
    let b = CANCEL_NOW.with(|c| c.replace(false));
    PREEMPT_IN_FLIGHT.with(|c| c.set(false));
    a || b
}

/// Called by harness-owned seams at the moment they return `Pending`.
pub fn mark_parked() {
    PARKED.with(|p| p.set(true));
}

pub fn current_activity() -> Option<usize> {
    let c = CURRENT.with(|c| c.get());
    if c == usize::MAX { None } else { Some(c) }
}

/// Raised for the duration of a delegated store call (see `GatedStore`): a `Pending` while it is
/// up is a wait for a foreign thread; a `Pending` while it is down is a park on a primitive.
pub struct ForeignGuard(usize);

impl ForeignGuard {
    pub fn enter() -> Self {
        let a = CURRENT.with(|c| c.get());
        if a != usize::MAX {
            FOREIGN.with(|f| {
                let mut f = f.borrow_mut();
                if f.len() <= a {
                    f.resize(a + 1, 0);
                }
                f[a] += 1;
            });
        }
        ForeignGuard(a)
    }
}

impl Drop for ForeignGuard {
    fn drop(&mut self) {
        if self.0 != usize::MAX {
            FOREIGN.with(|f| {
                let mut f = f.borrow_mut();
                if let Some(v) = f.get_mut(self.0) {
                    *v = v.saturating_sub(1);
                }
            });
        }
    }
}

fn foreign_depth(a: usize) -> u32 {
    FOREIGN.with(|f| f.borrow().get(a).copied().unwrap_or(0))
}

#[derive(Clone, Copy, Debug, PartialEq, Eq)]
pub enum Policy {
    /// `Pending` without a seam park is a foreign wait (code that owns a concrete `SqliteStore`).
    ForeignDefault,
    /// Exact: foreign wait iff a `ForeignGuard` is up, otherwise parked on a tokio primitive.
    Gated,
}

pub struct Activity {
    pub name: String,
    fut: Option<Pin<Box<dyn Future<Output = ()>>>>,
    flag: Arc<Flag>,
    policy: Policy,
    hint_blocked: Option<Box<dyn Fn() -> bool>>,
    pub polls: u64,
    /// Suspended inside a delegated call that is still in flight (see `request_preempt_in_flight`).
    in_flight: bool,
}

#[derive(Debug, PartialEq, Eq)]
pub enum Step {
    /// Activity `act` ran one seam-to-seam step.
    Ran { act: usize, finished: bool },
    /// Activity `act` was dropped at a cancellation point requested by a seam.
    Cancelled { act: usize },
    /// Nothing is runnable: either every activity finished or all live ones are parked.
    Quiescent,
}

#[derive(Debug)]
pub struct Stall {
    pub act: usize,
    pub name: String,
}

pub struct StepExec {
    acts: Vec<Activity>,
    pub watchdog: Duration,
    pub fallback: Duration,
    /// Called after the step that overlapped a call left in flight, right before the executor
    /// waits for that call's answer (a harness that holds the foreign thread releases it here).
    pub overlap_release: Option<Box<dyn Fn()>>,
    /// Give the runtime one turn before a non-seam, non-foreign `Pending` is classified as a park,
    /// so that a `tokio::task::yield_now()` inside the code under test (whose wake-up is deferred
    /// by the runtime) is recognised as a yield — and thereby as a cancellation point.
    pub detect_deferred_yields: bool,
}

impl Default for StepExec {
    fn default() -> Self {
        Self::new()
    }
}

impl StepExec {
    pub fn new() -> Self {
        FOREIGN.with(|f| f.borrow_mut().clear());
        // Both limits are real-time safety nets which no run on a healthy tree reaches (evidence:
        // fallback_classifications == 0): they are generous because a reply of a SQLite worker
        // thread can take seconds when the machine is overloaded, and classifying such a call as
        // "parked" lets other activities run into resources the in-flight call still holds.
        StepExec { acts: Vec::new(), watchdog: Duration::from_secs(60), fallback: Duration::from_secs(20), overlap_release: None, detect_deferred_yields: false }
    }

    pub fn add(&mut self, name: &str, policy: Policy, fut: impl Future<Output = ()> + 'static) -> usize {
        let flag = Arc::new(Flag { woken: AtomicBool::new(true), harness: Mutex::new(None) });
        self.acts.push(Activity {
            name: name.to_string(),
            fut: Some(Box::pin(tokio::task::unconstrained(fut))),
            flag,
            policy,
            hint_blocked: None,
            polls: 0,
            in_flight: false,
        });
        self.acts.len() - 1
    }

    /// Model-provided hint: "this activity is right now blocked on a tokio primitive held by
    /// another activity" (e.g. the transaction semaphore). Consulted only on a non-seam `Pending`.
    pub fn set_hint(&mut self, act: usize, hint: impl Fn() -> bool + 'static) {
        self.acts[act].hint_blocked = Some(Box::new(hint));
    }

    pub fn is_alive(&self, act: usize) -> bool {
        self.acts[act].fut.is_some()
    }

    pub fn alive(&self) -> Vec<usize> {
        (0..self.acts.len()).filter(|i| self.acts[*i].fut.is_some()).collect()
    }

    pub fn name(&self, act: usize) -> &str {
        &self.acts[act].name
    }

    /// Drop (cancel) an activity's future right where it is suspended.
    pub fn cancel(&mut self, act: usize) {
        self.acts[act].fut = None;
    }

    pub fn runnable(&self) -> Vec<usize> {
        (0..self.acts.len())
            .filter(|i| self.acts[*i].fut.is_some() && self.acts[*i].flag.woken.load(SeqCst))
            .collect()
    }

    /// True while `act` is suspended inside a delegated call that is still in flight.
    pub fn is_in_flight(&self, act: usize) -> bool {
        self.acts[act].in_flight
    }

    /// As `step`, but without first yielding to the runtime: tasks the code under test spawned
    /// (e.g. the rollback task of a dropped permit) do not get polled before the chosen activity.
    pub async fn step_without_runtime_turn(&mut self) -> Result<Step, Stall> {
        self.pick_and_run().await
    }

    /// Run one scheduling step (choice stream picks among runnable activities).
    pub async fn step(&mut self) -> Result<Step, Stall> {
        // Let runtime-spawned helpers (sqlx return_to_pool, permit rollback) make progress.
        tokio::task::yield_now().await;
        self.pick_and_run().await
    }

    async fn pick_and_run(&mut self) -> Result<Step, Stall> {
        let in_flight = (0..self.acts.len()).find(|i| self.acts[*i].fut.is_some() && self.acts[*i].in_flight);
        if let Some(a) = in_flight {
            // One step of another activity overlaps the call in flight. Whether the answer has
            // already arrived is timing; the activity itself is therefore not a candidate.
            let others: Vec<usize> = self.runnable().into_iter().filter(|i| *i != a).collect();
            let r = if others.is_empty() {
                None
            } else {
                let i = others[ctx::choose("sched.overlap", others.len())];
                Some(self.run_activity(i).await?)
            };
            if let Some(f) = &self.overlap_release {
                f();
            }
            let flag = self.acts[a].flag.clone();
            if tokio::time::timeout(self.watchdog, WaitWoken(flag)).await.is_err() {
                return Err(Stall { act: a, name: self.acts[a].name.clone() });
            }
            self.acts[a].in_flight = false;
            return Ok(r.unwrap_or(Step::Ran { act: a, finished: false }));
        }
        let runnable = self.runnable();
        if runnable.is_empty() {
            return Ok(Step::Quiescent);
        }
        let i = runnable[ctx::choose("sched", runnable.len())];
        self.run_activity(i).await
    }

    /// Run one seam-to-seam step of a specific activity (must be alive).
    pub async fn run_activity(&mut self, i: usize) -> Result<Step, Stall> {
        ctx::add_steps(1);
        loop {
            let act = &mut self.acts[i];
            let Some(fut) = act.fut.as_mut() else {
                return Ok(Step::Ran { act: i, finished: true });
            };
            PARKED.with(|p| p.set(false));
            act.flag.woken.store(false, SeqCst);
            let waker = Waker::from(act.flag.clone());
            let mut cx = Context::from_waker(&waker);
            CURRENT.with(|c| c.set(i));
            act.polls += 1;
            let r = fut.as_mut().poll(&mut cx);
            CURRENT.with(|c| c.set(usize::MAX));
            match r {
                Poll::Ready(()) => {
                    act.fut = None;
                    return Ok(Step::Ran { act: i, finished: true });
                }
                Poll::Pending => {
                    if CANCEL_NOW.with(|c| c.replace(false)) || (foreign_depth(i) > 0 && CANCEL_IN_FLIGHT.with(|c| c.replace(false))) {
                        act.fut = None; // dropped right where it is suspended
                        return Ok(Step::Cancelled { act: i });
                    }
                    // A raised ForeignGuard wins over a (possibly stale) seam park recorded earlier
                    // in the same poll, e.g. by the other branch of a `select!`.
                    let in_foreign_call = foreign_depth(i) > 0;
                    if in_foreign_call && PREEMPT_IN_FLIGHT.with(|c| c.replace(false)) {
                        self.acts[i].in_flight = true;
                        return Ok(Step::Ran { act: i, finished: false });
                    }
                    if !in_foreign_call && PARKED.with(|p| p.get()) {
                        return Ok(Step::Ran { act: i, finished: false });
                    }
                    if act.flag.woken.load(SeqCst) {
                        // A yield, not a park.
                        if !in_foreign_call {
                            let n = YIELDS.with(|y| y.replace(y.get() + 1));
                            if CANCEL_AT_YIELD.with(|c| c.get()) == Some(n) {
                                CANCEL_AT_YIELD.with(|c| c.set(None));
                                self.acts[i].fut = None;
                                return Ok(Step::Cancelled { act: i });
                            }
                        }
                        tokio::task::yield_now().await;
                        continue;
                    }
                    if let Some(h) = &act.hint_blocked {
                        if h() {
                            return Ok(Step::Ran { act: i, finished: false });
                        }
                    }
                    let foreign = match act.policy {
                        Policy::ForeignDefault => true,
                        Policy::Gated => in_foreign_call,
                    };
                    if !foreign {
                        if self.detect_deferred_yields {
                            // tokio's `yield_now()` does not wake its task at once: it hands the
                            // waker to the runtime, which wakes it after the current poll of the
                            // *outer* task returned. One turn of the runtime tells such a yield
                            // from a park on a primitive.
                            tokio::task::yield_now().await;
                            if self.acts[i].flag.woken.load(SeqCst) {
                                let n = YIELDS.with(|y| y.replace(y.get() + 1));
                                if CANCEL_AT_YIELD.with(|c| c.get()) == Some(n) {
                                    CANCEL_AT_YIELD.with(|c| c.set(None));
                                    self.acts[i].fut = None;
                                    return Ok(Step::Cancelled { act: i });
                                }
                                continue;
                            }
                        }
                        return Ok(Step::Ran { act: i, finished: false });
                    }
                    let flag = act.flag.clone();
                    let limit = if act.policy == Policy::ForeignDefault { self.fallback } else { self.watchdog };
                    match tokio::time::timeout(limit, WaitWoken(flag)).await {
                        Ok(()) => continue,
                        Err(_) => {
                            if self.acts[i].policy == Policy::ForeignDefault {
                                // Safety net: treat as parked on an unknown primitive; counted.
                                ctx::count_fallback();
                                return Ok(Step::Ran { act: i, finished: false });
                            }
                            return Err(Stall { act: i, name: self.acts[i].name.clone() });
                        }
                    }
                }
            }
        }
    }

    /// Wait (on the runtime, real time) until activity `act` has been woken, e.g. by a
    /// runtime-spawned helper task the model knows about. Returns false on watchdog expiry.
    pub async fn wait_for_wake(&self, act: usize) -> bool {
        let flag = self.acts[act].flag.clone();
        tokio::time::timeout(self.watchdog, WaitWoken(flag)).await.is_ok()
    }

    /// Run until quiescence or `max_steps`. Returns the number of steps taken.
    pub async fn run_to_quiescence(&mut self, max_steps: u64) -> Result<u64, Stall> {
        let mut n = 0;
        while n < max_steps {
            match self.step().await? {
                Step::Quiescent => break,
                Step::Ran { .. } | Step::Cancelled { .. } => n += 1,
            }
        }
        Ok(n)
    }
}

/// Execute `body` on a fresh real-time current-thread tokio runtime with a seeded `select!` RNG.
pub fn block_on<T>(body: impl Future<Output = T>) -> T {
    block_on_seeded(ctx::seed(), body)
}

/// As `block_on`, for helper threads that have no simulation context installed.
pub fn block_on_seeded<T>(seed: u64, body: impl Future<Output = T>) -> T {
    let rt = Builder::new_current_thread()
        .enable_time()
        .rng_seed(RngSeed::from_bytes(&seed.to_le_bytes()))
        .build()
        .expect("build StepExec runtime");
    let local = LocalSet::new();
    let out = local.block_on(&rt, body);
    drop(local);
    rt.shutdown_timeout(Duration::from_millis(200));
    out
}

/// Number of tasks alive on the current runtime (spawned by the code under test or by sqlx).
pub fn alive_runtime_tasks() -> usize {
    tokio::runtime::Handle::current().metrics().num_alive_tasks()
}

/// Let the runtime run until at most `baseline` spawned tasks are alive (all helper tasks the
/// code under test spawned have finished). Returns false on watchdog expiry.
pub async fn drain_runtime_tasks(baseline: usize, watchdog: Duration) -> bool {
    let t0 = std::time::Instant::now();
    loop {
        tokio::task::yield_now().await;
        if alive_runtime_tasks() <= baseline {
            return true;
        }
        if t0.elapsed() > watchdog {
            return false;
        }
        tokio::time::sleep(Duration::from_micros(100)).await;
    }
}

/// A harness gate: a voluntary scheduling point. With probability 1/den it parks once (waking
/// itself), so that another activity may be scheduled in between.
pub struct Preempt {
    done: bool,
}

pub fn preempt(label: &'static str, den: usize) -> Preempt {
    let fire = current_activity().is_some() && ctx::chance(label, 1, den);
    Preempt { done: !fire }
}

impl Future for Preempt {
    type Output = ();
    fn poll(mut self: Pin<&mut Self>, cx: &mut Context<'_>) -> Poll<()> {
        if self.done {
            Poll::Ready(())
        } else {
            self.done = true;
            mark_parked();
            cx.waker().wake_by_ref();
            Poll::Pending
        }
    }
}

/// Park the current activity unconditionally once (always a scheduling point).
pub fn gate() -> Preempt {
    Preempt { done: current_activity().is_none() }
}
