//! DES engine: discrete-event simulation on tokio's paused clock. One thread, no foreign threads;
//! simulated time auto-advances to the next timer when nothing is runnable. Interleavings come
//! from `Deferred` (PRNG-decided deferral of ready tasks), PRNG-chosen simulated latencies in
//! seams, and the seeded tokio RNG deciding `select!` branch order.

use std::future::Future;
use std::pin::Pin;
use std::task::{Context, Poll};
use std::time::Duration;

use tokio::runtime::{Builder, RngSeed};
use tokio::task::{JoinHandle, LocalSet};

use crate::ctx;

pub const WATCHDOG: Duration = Duration::from_secs(3600);

/// Wraps a future so that, each time it is polled, the choice stream may defer it (wake self and
/// return `Pending`), which permutes tokio's FIFO run queue among ready tasks.
pub struct Deferred<F> {
    inner: Pin<Box<F>>,
    den: usize,
}

impl<F: Future> Deferred<F> {
    pub fn new(f: F) -> Self {
        Deferred { inner: Box::pin(f), den: 4 }
    }
}

impl<F: Future> Future for Deferred<F> {
    type Output = F::Output;
    fn poll(mut self: Pin<&mut Self>, cx: &mut Context<'_>) -> Poll<F::Output> {
        if ctx::installed() && ctx::choose("defer", self.den) == self.den - 1 {
            cx.waker().wake_by_ref();
            return Poll::Pending;
        }
        self.inner.as_mut().poll(cx)
    }
}

/// Cooperative-budget starvation: before every poll of the inner future the task's tokio coop
/// budget (128 units per task poll) is drained down to a seeded small remainder. Every acquisition
/// of a tokio primitive (Mutex / RwLock / Semaphore / mpsc / Notify …) consumes one unit and
/// returns `Pending` (after waking itself) once the budget is gone — so under starvation each of
/// these `.await`s, even an uncontended one that would never yield on a current-thread runtime,
/// becomes a scheduling point at which another task can run, as it could on another thread.
pub struct Starved<F> {
    inner: Pin<Box<F>>,
}

impl<F: Future> Starved<F> {
    pub fn new(f: F) -> Self {
        Starved { inner: Box::pin(f) }
    }
}

impl<F: Future> Future for Starved<F> {
    type Output = F::Output;
    fn poll(mut self: Pin<&mut Self>, cx: &mut Context<'_>) -> Poll<F::Output> {
        // Leave 1..=3 units: at least one primitive operation makes progress per poll.
        let leave = if ctx::installed() { 1 + ctx::choose("coop.leave", 3) } else { 1 };
        let mut drained = 0;
        while drained < 128usize.saturating_sub(leave) {
            let mut c = std::pin::pin!(tokio::task::consume_budget());
            // The noop waker keeps an exhausted budget from re-waking us spuriously.
            let w = futures_noop_waker();
            let mut ncx = Context::from_waker(&w);
            if c.as_mut().poll(&mut ncx).is_pending() {
                break;
            }
            drained += 1;
        }
        self.inner.as_mut().poll(cx)
    }
}

fn futures_noop_waker() -> std::task::Waker {
    use std::task::{RawWaker, RawWakerVTable, Waker};
    fn clone(_: *const ()) -> RawWaker {
        RawWaker::new(std::ptr::null(), &VTABLE)
    }
    fn noop(_: *const ()) {}
    static VTABLE: RawWakerVTable = RawWakerVTable::new(clone, noop, noop, noop);
    unsafe { Waker::from_raw(RawWaker::new(std::ptr::null(), &VTABLE)) }
}

/// Spawn a task on the simulation's `LocalSet`, subject to PRNG deferral.
pub fn spawn<F>(fut: F) -> JoinHandle<F::Output>
where
    F: Future + 'static,
    F::Output: 'static,
{
    tokio::task::spawn_local(Deferred::new(fut))
}

/// Sleep for a PRNG-chosen simulated duration out of `choices_us` (index 0 should be 0 = none).
pub async fn delay(label: &'static str, choices_us: &[u64]) {
    let us = *ctx::pick(label, choices_us);
    if us > 0 {
        tokio::time::sleep(Duration::from_micros(us)).await;
    }
}

pub const LAT_US: [u64; 8] = [0, 0, 100, 1_000, 3_000, 10_000, 50_000, 200_000];

/// Simulated latency drawn from the default catalogue.
pub async fn latency(label: &'static str) {
    delay(label, &LAT_US).await
}

/// Yield to the scheduler once (a scheduling point without time passing).
pub async fn yield_now() {
    tokio::task::yield_now().await
}

#[derive(Debug)]
pub struct Hang;

thread_local! {
    static START: std::cell::Cell<Option<tokio::time::Instant>> = const { std::cell::Cell::new(None) };
}

/// Simulated microseconds since the start of the current DES run (safe to log: deterministic).
pub fn now_us() -> u64 {
    match START.with(|s| s.get()) {
        Some(st) => (tokio::time::Instant::now() - st).as_micros() as u64,
        None => 0,
    }
}

/// Run `body` to completion under the DES engine. Returns `Err(Hang)` if the simulated watchdog
/// (1 h simulated) fires: every task blocked and no timer pending shows up as exactly this.
pub fn run<T, Fut>(body: impl FnOnce() -> Fut) -> Result<T, Hang>
where
    Fut: Future<Output = T>,
{
    run_with_watchdog(WATCHDOG, body)
}

pub fn run_with_watchdog<T, Fut>(watchdog: Duration, body: impl FnOnce() -> Fut) -> Result<T, Hang>
where
    Fut: Future<Output = T>,
{
    let seed = ctx::seed();
    let rt = Builder::new_current_thread()
        .enable_time()
        .start_paused(true)
        .rng_seed(RngSeed::from_bytes(&seed.to_le_bytes()))
        .build()
        .expect("build DES runtime");
    let local = LocalSet::new();
    let out = local.block_on(&rt, async move {
        let start = tokio::time::Instant::now();
        START.with(|s| s.set(Some(start)));
        let r = tokio::time::timeout(watchdog, body()).await;
        let elapsed = tokio::time::Instant::now() - start;
        ctx::add_sim_time_us(elapsed.as_micros() as u64);
        r
    });
    // Dropping the LocalSet and runtime cancels whatever is left (hung tasks).
    drop(local);
    drop(rt);
    out.map_err(|_| Hang)
}
