//! C28 — The discovery backoff delay stays within [initial_value, max_value] across any sequence
//! of increments, resets and elapsed time, and returns to the initial value once the reset interval
//! has elapsed.
//!
//! Engine "W" with the monotonic-clock seam: hook H5 (hooks/H5-backoff.diff) makes `Backoff` read
//! `mock_instant`'s thread-local `Instant` under `--cfg p2panda_p2panda_verif` and re-exports
//! `Backoff`, a `Config` constructor and the `value()` / `reset_after()` accessors. The choice
//! stream supplies the ChaCha seed, the configuration and the sequence of calls and clock advances.
//!
//! Compiled only with the cargo feature `hook_h5` (see props/mod.rs).

use std::time::Duration;

use mock_instant::thread_local::MockClock;
use p2panda_net::discovery::verif::{Backoff, BackoffConfig};
use rand_chacha::ChaCha20Rng;
use rand_chacha::rand_core::SeedableRng;
use simcore::{Budget, Property, Tier, ctx, ev, violation};

pub struct C28Prop;
pub static C28: C28Prop = C28Prop;

#[derive(Clone, Copy, Debug)]
struct Params {
    initial: u64,
    min_inc: u64,
    max_inc: u64,
    max_value: u64,
    min_reset: u64,
    max_reset: u64,
}

const DEFAULT: Params = Params { initial: 0, min_inc: 1_000, max_inc: 5_000, max_value: 30_000, min_reset: 60_000, max_reset: 180_000 };

fn ms(d: Duration) -> String {
    let m = d.as_millis();
    if d.subsec_nanos() % 1_000_000 == 0 { format!("{m}ms") } else { format!("{:.3}ms", d.as_secs_f64() * 1000.0) }
}

fn generated_params() -> Params {
    // Valid configurations only: initial <= max_value and non-empty increment / reset ranges
    // (`random_range(min..max)` panics on an empty range; `Config` has no public constructor in
    // the crate, so such values cannot come from a user).
    let initial = *ctx::pick("cfg.initial", &[0u64, 1, 500, 2_000, 10_000]);
    let max_value = initial + *ctx::pick("cfg.span", &[30_000u64, 0, 1, 1_000, 7_000, 600_000]);
    let min_inc = *ctx::pick("cfg.min_inc", &[1_000u64, 0, 1, 250, 5_000]);
    let max_inc = min_inc + *ctx::pick("cfg.inc_span", &[4_000u64, 1, 1_000, 60_000]);
    let min_reset = *ctx::pick("cfg.min_reset", &[60_000u64, 0, 1, 1_000, 10_000]);
    let max_reset = min_reset + *ctx::pick("cfg.reset_span", &[120_000u64, 1, 1_000]);
    Params { initial, min_inc, max_inc, max_value, min_reset, max_reset }
}

struct Model {
    p: Params,
    /// Mock-clock reading at the last reset the model knows of (constructor, `reset()`, or an
    /// `increment()` that found the interval elapsed).
    last_reset: Duration,
    above_max_pending: bool,
}

impl Model {
    /// Clause 1: bounds, checked after every call.
    fn check_bounds(&mut self, call: &'static str, b: &Backoff) {
        let v = b.value();
        let initial = Duration::from_millis(self.p.initial);
        let max = Duration::from_millis(self.p.max_value);
        if v < initial {
            violation("below-initial", call, format!("value {} < initial_value {} after {call}", ms(v), ms(initial)));
        }
        if v > max {
            ctx::probe("value_above_max_observed");
            self.above_max_pending = true;
            let site = match call {
                "Backoff::increment" => "Backoff::increment adds the random increment without clamping to max_value",
                other => other,
            };
            violation("above-max", site, format!("value {} > max_value {} after {call} (it is only clamped by the NEXT increment)", ms(v), ms(max)));
        } else if v == max {
            ctx::probe("value_equals_max");
        }
    }
}

impl Property for C28Prop {
    fn id(&self) -> &'static str {
        "C28"
    }
    fn budget(&self, tier: Tier) -> Budget {
        match tier {
            Tier::Quick => Budget { runs: 40_000, wall_cap_s: 30 },
            Tier::Thorough => Budget { runs: 500_000, wall_cap_s: 300 },
        }
    }
    fn modes(&self) -> u32 {
        4
    }
    fn mode_name(&self, mode: u32) -> &'static str {
        match mode {
            0 => "default-config/steady-time",
            1 => "default-config/time-jumps",
            2 => "generated-config/steady-time",
            _ => "generated-config/time-jumps",
        }
    }
    fn rule(&self) -> &'static str {
        "one run = one Backoff with a ChaCha20 seed from the choice stream and the default or a generated valid configuration (initial <= max, non-empty increment and reset ranges, degenerate spans included), then 4..60 steps of increment / reset / advance of the mock monotonic clock (steady: 1 ms..5 s; jumps: to 1 ms before, exactly at and 1 ms after the drawn reset interval, beyond max_reset, one day); bounds checked after every call, the reset clause whenever the interval had elapsed before an increment; non-trivial = >= 3 increments; distinct = distinct trace fingerprint"
    }
    fn components_real(&self) -> Vec<&'static str> {
        vec!["p2panda_net::discovery::backoff::{Backoff::new, increment, reset, random_increment, random_reset_after} (through hook H5's re-export)"]
    }
    fn components_stub(&self) -> Vec<&'static str> {
        vec!["monotonic clock: mock_instant::thread_local::MockClock (hook H5 widens the existing #[cfg(test)] import)", "the discovery actor that calls increment()/reset()/sleep(): replaced by the choice stream"]
    }
    fn assumptions(&self) -> Vec<&'static str> {
        vec!["configurations are valid: initial_value <= max_value, min_increment < max_increment, min_reset < max_reset (empty ranges panic inside rand; Config is not constructible outside the crate)"]
    }
    fn expected_probes(&self) -> Vec<&'static str> {
        vec![
            "value_equals_max",
            "value_above_max_observed",
            "clamped_by_next_increment",
            "increment_at_max_is_noop",
            "reset_by_elapsed_interval",
            "elapsed_equals_reset_interval_exactly",
            "elapsed_one_ms_short_of_reset_interval",
            "explicit_reset",
            "config_initial_equals_max",
            "config_zero_min_increment",
        ]
    }

    fn run(&self) {
        let (default_cfg, jumps) = match ctx::mode() {
            0 => (true, false),
            1 => (true, true),
            2 => (false, false),
            _ => (false, true),
        };
        let p = if default_cfg { DEFAULT } else { generated_params() };
        let mut seed = [0u8; 32];
        for chunk in seed.chunks_mut(8) {
            chunk.copy_from_slice(&ctx::bits("rng.seed").to_le_bytes());
        }
        let config = if default_cfg {
            BackoffConfig::default()
        } else {
            BackoffConfig::new(
                Duration::from_millis(p.initial),
                Duration::from_millis(p.min_inc),
                Duration::from_millis(p.max_inc),
                Duration::from_millis(p.max_value),
                Duration::from_millis(p.min_reset),
                Duration::from_millis(p.max_reset),
            )
        };
        if p.initial == p.max_value {
            ctx::probe("config_initial_equals_max");
        }
        if p.min_inc == 0 {
            ctx::probe("config_zero_min_increment");
        }
        ev!(
            "config ({}): initial {}ms, increment {}..{}ms, max {}ms, reset after {}..{}ms; rng seed {:02x}{:02x}{:02x}{:02x}..",
            if default_cfg { "default" } else { "generated" },
            p.initial,
            p.min_inc,
            p.max_inc,
            p.max_value,
            p.min_reset,
            p.max_reset,
            seed[0],
            seed[1],
            seed[2],
            seed[3]
        );

        let initial = Duration::from_millis(p.initial);
        let max = Duration::from_millis(p.max_value);
        MockClock::set_time(Duration::ZERO);
        let mut b = Backoff::new(config, ChaCha20Rng::from_seed(seed));
        let mut m = Model { p, last_reset: MockClock::time(), above_max_pending: false };
        ev!("new: value {}, reset_after {}", ms(b.value()), ms(b.reset_after()));
        m.check_bounds("Backoff::new", &b);
        if b.value() != initial {
            violation("not-at-initial", "Backoff::new", format!("value {} after construction, initial_value {}", ms(b.value()), ms(initial)));
        }

        let steps = 4 + ctx::choose("steps", 57);
        let mut increments = 0;
        for step in 0..steps {
            match ctx::choose("action", 8) {
                0 | 1 | 2 | 5 | 6 => {
                    let now = MockClock::time();
                    let elapsed = now - m.last_reset;
                    let interval = b.reset_after();
                    let due = elapsed >= interval;
                    let before = b.value();
                    let was_above = m.above_max_pending;
                    m.above_max_pending = false;
                    b.increment();
                    increments += 1;
                    if increments >= 3 {
                        ctx::mark_nontrivial();
                    }
                    let after = b.value();
                    ev!(
                        "step {step}: increment at t={} (elapsed since reset {} of {}{}): {} -> {}{}",
                        ms(now),
                        ms(elapsed),
                        ms(interval),
                        if due { ", DUE" } else { "" },
                        ms(before),
                        ms(after),
                        if due { format!("  (new reset_after {})", ms(b.reset_after())) } else { String::new() }
                    );
                    m.check_bounds("Backoff::increment", &b);
                    if due {
                        // Clause 2: the reset interval has elapsed, so this observation is back at
                        // the initial value.
                        ctx::probe("reset_by_elapsed_interval");
                        m.last_reset = now;
                        if after != initial {
                            violation("not-reset-after-interval", "Backoff::increment", format!("elapsed {} >= reset interval, but value is {} (initial {})", ms(elapsed), ms(after), ms(initial)));
                        }
                    } else {
                        if was_above && after == max {
                            ctx::probe("clamped_by_next_increment");
                        }
                        if before == max && after == max {
                            ctx::probe("increment_at_max_is_noop");
                        }
                    }
                }
                3 => {
                    b.reset();
                    m.last_reset = MockClock::time();
                    m.above_max_pending = false;
                    ctx::probe("explicit_reset");
                    ev!("step {step}: reset at t={}: value {}, new reset_after {}", ms(m.last_reset), ms(b.value()), ms(b.reset_after()));
                    m.check_bounds("Backoff::reset", &b);
                    if b.value() != initial {
                        violation("not-at-initial", "Backoff::reset", format!("value {} after reset(), initial_value {}", ms(b.value()), ms(initial)));
                    }
                }
                _ => {
                    // Time passes.
                    let now = MockClock::time();
                    let elapsed = now - m.last_reset;
                    let remaining = b.reset_after().saturating_sub(elapsed);
                    let kind = if jumps { ctx::choose("advance.kind", 6) } else { 0 };
                    let d = match kind {
                        0 => Duration::from_millis(*ctx::pick("advance.ms", &[1_000u64, 1, 50, 250, 5_000])),
                        1 => remaining,
                        2 => remaining.saturating_sub(Duration::from_millis(1)),
                        3 => remaining + Duration::from_millis(1),
                        4 => Duration::from_millis(m.p.max_reset + 1_000),
                        _ => Duration::from_secs(86_400),
                    };
                    if kind != 0 {
                        ctx::fault("clock.jump_forward");
                    }
                    MockClock::advance(d);
                    let elapsed = MockClock::time() - m.last_reset;
                    if elapsed == b.reset_after() {
                        ctx::probe("elapsed_equals_reset_interval_exactly");
                    } else if elapsed + Duration::from_millis(1) == b.reset_after() {
                        ctx::probe("elapsed_one_ms_short_of_reset_interval");
                    }
                    ev!("step {step}: clock +{} -> t={} (elapsed since reset {} of {})", ms(d), ms(MockClock::time()), ms(elapsed), ms(b.reset_after()));
                }
            }
        }
        ctx::add_steps(steps as u64);
        ev!("end: value {} within [{}, {}]: {}", ms(b.value()), ms(initial), ms(max), b.value() >= initial && b.value() <= max);
    }
}
