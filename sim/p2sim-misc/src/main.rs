mod props;

/// `getrandom` ≥ 0.3 (behind `rand::rng()`, `SysRng`, hpke-rs) resolves libc's `getrandom` with
/// `dlsym` on first use — which finds simcore's interposed definition — and probes it once per
/// process with a zero-length call. If that first use happened inside a simulated run, the probe
/// would advance the shim's per-thread call counter in that run only, and the run would see other
/// "random" bytes than the same run executed later in the process. Do the first use here, before
/// any run and while the shim still forwards to the kernel.
/// (Belongs into `simcore::runner::cli_main`; kept here because this crate may not touch simcore.)
fn warm_up_getrandom() {
    use p2panda_encryption::crypto::hpke::hpke_seal;
    use p2panda_encryption::crypto::x25519::SecretKey;
    let pk = SecretKey::from_bytes([7u8; 32]).verifying_key().expect("x25519 public key");
    let _ = hpke_seal(&pk, None, None, b"warm-up");
}

fn main() {
    warm_up_getrandom();
    let props = props::all();
    std::process::exit(simcore::runner::cli_main(&props));
}
