//! C07 — Stream cursors only move forward and only for their own topic.
//!
//! StepExec over real SQLite. 2-4 activities call `ack` / `nacked_log_ranges` on clones of one
//! real `Acked` (hook H3a) with headers of several authors in the stream's own topic log and in a
//! foreign topic's log, sequence numbers repeated and going down. `Acked` owns a concrete
//! `SqliteStore`, so there is no gate between its store calls: an `ack` runs atomically unless it
//! parks on a tokio primitive. Two primitives make acks overlap, and the model knows the state of
//! both, so a park is classified exactly (never by timing):
//!
//! * the `Acked` semaphore: the model tracks holder and FIFO queue (an op in flight holds it from
//!   start to end);
//! * the store's transaction permit: "another component" (the harness, standing in for ingest /
//!   forge work of the same node) opens a store transaction at seeded moments. An `ack` then
//!   suspends inside its critical section (file database: in `begin()`, after it has read the
//!   cursor; 1-connection pool: waiting for the connection) until that transaction ends, and the
//!   other activities pile up on the `Acked` semaphore behind it.
//!
//! The harness schedules from the model's ready set (not from waker flags, which for an activity
//! waiting for an sqlx reply flip at timing-dependent moments) and waits for the wake of an
//! activity exactly when the model says its blocker is gone.

use std::cell::RefCell;
use std::collections::{BTreeMap, VecDeque};
use std::rc::Rc;
use std::time::Duration;

use p2panda::operation::{Extensions, Header, LogId, Operation};
use p2panda::streams::verif::Acked;
use p2panda::streams::{AckedError, StreamFrom};
use p2panda_core::cbor::encode_cbor;
use p2panda_core::logs::LogHeights;
use p2panda_core::{Cursor, Hash, SeqNum, SigningKey, Topic, VerifyingKey};
use p2panda_store::cursors::CursorStore;
use p2panda_store::operations::OperationStore;
use p2panda_store::topics::TopicStore;
use p2panda_store::{SqliteStore, Transaction};
use simcore::stepexec::{self, Policy, Step, StepExec};
use simcore::{Budget, Property, Tier, ctx, ev, violation};
use simworld::logworld::{short_key, signing_key, topic};
use simworld::populate::{sqlite_file, sqlite_memory};

type Heights = BTreeMap<VerifyingKey, SeqNum>;

#[derive(Clone, Debug, PartialEq, Eq)]
enum OpS {
    Ack { author: usize, foreign: bool, seq: u32 },
    /// `nacked_log_ranges(StreamFrom::Frontier)`: reads the cursor under the semaphore.
    Nacked,
    /// `nacked_log_ranges(StreamFrom::Start)`: the documented reset.
    ResetStart,
    /// `nacked_log_ranges(StreamFrom::Cursor(c))`: the documented replacement; with a wrong name
    /// it has to be refused.
    ResetTo { state: Vec<(usize, u32)>, wrong_name: bool },
}

impl OpS {
    fn label(&self) -> String {
        match self {
            OpS::Ack { author, foreign, seq } => format!("ack(a{author}#{seq}{})", if *foreign { " FOREIGN topic" } else { "" }),
            OpS::Nacked => "nacked(Frontier)".into(),
            OpS::ResetStart => "nacked(Start)".into(),
            OpS::ResetTo { state, wrong_name } => format!("nacked(Cursor{{{}}}{})", state.iter().map(|(a, s)| format!("a{a}={s}")).collect::<Vec<_>>().join(","), if *wrong_name { ", wrong name" } else { "" }),
        }
    }
    /// Does the operation touch the store at all / write through a store transaction?
    fn writes(&self) -> bool {
        match self {
            OpS::Ack { foreign, .. } => !*foreign,
            OpS::Nacked => false,
            OpS::ResetStart => true,
            OpS::ResetTo { wrong_name, .. } => !*wrong_name,
        }
    }
    fn reads(&self) -> bool {
        !matches!(self, OpS::Ack { foreign: true, .. })
    }
}

struct Env {
    keys: Vec<SigningKey>,
    own: Topic,
    foreign: Topic,
    name: String,
    /// Height of each author's log in the store (what `nacked_log_ranges` diffs against).
    local: Heights,
}

impl Env {
    fn header(&self, author: usize, foreign: bool, seq: u32) -> Header {
        let key = &self.keys[author];
        let mut h = Header {
            version: 1,
            verifying_key: key.verifying_key(),
            signature: None,
            payload_size: 0,
            payload_hash: None,
            seq_num: seq,
            backlink: None,
            extensions: Extensions::from_topic(if foreign { self.foreign } else { self.own }),
        };
        h.sign(key);
        h
    }
    fn log_heights(&self, h: &Heights) -> LogHeights<VerifyingKey, LogId> {
        let log = LogId::from_topic(self.own);
        h.iter().map(|(a, s)| (*a, BTreeMap::from([(log, *s)]))).collect()
    }
    fn show(&self, h: &Heights) -> String {
        let mut v = vec![];
        for (i, k) in self.keys.iter().enumerate() {
            if let Some(s) = h.get(&k.verifying_key()) {
                v.push(format!("a{i}={s}"));
            }
        }
        for (k, s) in h {
            if !self.keys.iter().any(|x| x.verifying_key() == *k) {
                v.push(format!("{}={s}", short_key(k)));
            }
        }
        format!("{{{}}}", v.join(" "))
    }
}

#[derive(Debug)]
enum Outcome {
    Unit(Result<(), Rejection>),
    Ranges(Result<p2panda_core::logs::LogRanges<VerifyingKey, LogId>, Rejection>),
}

#[derive(Debug, Clone, PartialEq, Eq)]
enum Rejection {
    InvalidTopic,
    InvalidName,
    Store(String),
}

fn rejection(e: AckedError) -> Rejection {
    match e {
        AckedError::InvalidTopic(_) => Rejection::InvalidTopic,
        AckedError::InvalidName(_, _) => Rejection::InvalidName,
        AckedError::Store(e) => Rejection::Store(e.to_string()),
    }
}

#[derive(Default)]
struct Model {
    holder: Option<usize>,
    queue: VecDeque<usize>,
    cur_op: BTreeMap<usize, OpS>,
    /// The store's transaction permit is held by the other component.
    t_holding: bool,
    one_conn: bool,
    /// CursorModel: pointwise max of successfully acked heights (one log id per topic).
    cursor: Heights,
    /// Operations completed since the harness last looked.
    completed: Vec<(usize, OpS, bool)>,
    reset_since_read: bool,
    acks_ok: u64,
}

impl Model {
    /// Activity `a` polls `semaphore.acquire()` for the first time (tokio's semaphore is FIFO).
    fn attempt(&mut self, a: usize, op: &OpS) {
        self.cur_op.insert(a, op.clone());
        if self.holder.is_none() && self.queue.is_empty() {
            self.holder = Some(a);
        } else if self.holder != Some(a) && !self.queue.contains(&a) {
            self.queue.push_back(a);
        }
    }
    /// The permit goes back (the op returned or its future was dropped): first waiter gets it.
    fn release(&mut self, a: usize) {
        self.cur_op.remove(&a);
        if self.holder == Some(a) {
            self.holder = self.queue.pop_front();
        } else {
            self.queue.retain(|x| *x != a);
        }
    }
    /// "Activity `a` cannot finish its operation before somebody else acts": queued on the
    /// `Acked` semaphore, or holding it while the store transaction permit (file database) / the
    /// only pool connection (in-memory database) is taken by the open store transaction.
    fn blocked(&self, a: usize) -> bool {
        if self.queue.contains(&a) {
            return true;
        }
        if self.holder == Some(a) && self.t_holding {
            return match self.cur_op.get(&a) {
                Some(op) => op.writes() || (self.one_conn && op.reads()),
                None => false,
            };
        }
        false
    }
}

fn complete(model: &Rc<RefCell<Model>>, env: &Env, me: usize, op: OpS, out: Outcome) {
    let mut m = model.borrow_mut();
    if m.holder != Some(me) {
        violation("two-holders-of-the-ack-semaphore", "Acked semaphore", format!("act{me} finished {} while the model says the semaphore is held by {:?}", op.label(), m.holder));
    }
    let mut ok = false;
    let shown: String;
    match (&op, out) {
        (OpS::Ack { author, foreign: false, seq }, Outcome::Unit(r)) => match r {
            Ok(()) => {
                ok = true;
                m.acks_ok += 1;
                let k = env.keys[*author].verifying_key();
                let cur = m.cursor.get(&k).copied();
                if cur.is_some_and(|c| c >= *seq) {
                    ctx::probe("lower_or_equal_seq_acked_after_higher");
                } else {
                    m.cursor.insert(k, *seq);
                }
                shown = "Ok".into();
            }
            Err(e) => {
                let site = match &e {
                    Rejection::Store(_) => "store error in Acked::ack of an own-topic header",
                    Rejection::InvalidTopic => "own-topic header refused as InvalidTopic",
                    Rejection::InvalidName => "own-topic header refused as InvalidName",
                };
                violation("ack-failed", site, format!("act{me} {}: {e:?}", op.label()));
                shown = format!("Err({e:?})");
            }
        },
        (OpS::Ack { foreign: true, .. }, Outcome::Unit(r)) => {
            match &r {
                Ok(()) => violation("foreign-topic-ack-accepted", "Acked::ack", format!("act{me} {} returned Ok", op.label())),
                Err(Rejection::InvalidTopic) => ctx::probe("foreign_topic_rejected"),
                Err(_) => {}
            }
            shown = format!("{r:?}");
        }
        (OpS::Nacked, Outcome::Ranges(r)) => match r {
            Ok(ranges) => {
                ok = true;
                let expect = Cursor::new(&env.name, env.log_heights(&m.cursor)).compare(&env.log_heights(&env.local));
                if ranges != expect {
                    violation("cursor-differs-from-model", "as seen by nacked_log_ranges(Frontier) under the semaphore", format!("act{me}: returned {} un-acked ranges, the model cursor {} against the stored logs {} gives {}", ranges.values().map(|l| l.len()).sum::<usize>(), env.show(&m.cursor), env.show(&env.local), expect.values().map(|l| l.len()).sum::<usize>()));
                }
                shown = format!("Ok({} ranges)", ranges.values().map(|l| l.len()).sum::<usize>());
            }
            Err(e) => {
                violation("ack-failed", "store error in nacked_log_ranges", format!("act{me}: {e:?}"));
                shown = format!("Err({e:?})");
            }
        },
        (OpS::ResetStart, Outcome::Ranges(r)) => {
            match &r {
                Ok(_) => {
                    ok = true;
                    m.cursor.clear();
                    m.reset_since_read = true;
                    ctx::probe("cursor_replaced_by_replay");
                }
                Err(e) => violation("ack-failed", "store error in nacked_log_ranges", format!("act{me} {}: {e:?}", op.label())),
            }
            shown = format!("{:?}", r.map(|x| x.len()));
        }
        (OpS::ResetTo { state, wrong_name }, Outcome::Ranges(r)) => {
            match (&r, wrong_name) {
                (Ok(_), false) => {
                    ok = true;
                    m.cursor = state.iter().map(|(a, s)| (env.keys[*a].verifying_key(), *s)).collect();
                    m.reset_since_read = true;
                    ctx::probe("cursor_replaced_by_replay");
                }
                (Ok(_), true) => violation("foreign-cursor-accepted", "Acked::nacked_log_ranges", format!("act{me} {} returned Ok", op.label())),
                (Err(Rejection::InvalidName), true) => {}
                (Err(e), _) => violation("ack-failed", "store error in nacked_log_ranges", format!("act{me} {}: {e:?}", op.label())),
            }
            shown = format!("{:?}", r.map(|x| x.len()));
        }
        (op, out) => {
            shown = format!("{out:?}");
            let _ = op;
        }
    }
    ev!("act{me}: {} -> {shown}; model {}", op.label(), env.show(&m.cursor));
    m.completed.push((me, op, ok));
    m.release(me);
}

async fn activity(me: usize, acked: Acked, model: Rc<RefCell<Model>>, env: Rc<Env>, ops: Vec<OpS>) {
    for (k, op) in ops.into_iter().enumerate() {
        if k > 0 {
            // Scheduling point between two acks of one activity.
            stepexec::gate().await;
        }
        model.borrow_mut().attempt(me, &op);
        let out = match &op {
            OpS::Ack { author, foreign, seq } => {
                let h = env.header(*author, *foreign, *seq);
                Outcome::Unit(acked.ack(&h).await.map_err(rejection))
            }
            OpS::Nacked => Outcome::Ranges(acked.nacked_log_ranges(StreamFrom::Frontier).await.map_err(rejection)),
            OpS::ResetStart => Outcome::Ranges(acked.nacked_log_ranges(StreamFrom::Start).await.map_err(rejection)),
            OpS::ResetTo { state, wrong_name } => {
                let st: Heights = state.iter().map(|(a, s)| (env.keys[*a].verifying_key(), *s)).collect();
                let name = if *wrong_name { format!("{}-other", env.name) } else { env.name.clone() };
                let c = Cursor::new(name, env.log_heights(&st));
                Outcome::Ranges(acked.nacked_log_ranges(StreamFrom::Cursor(c)).await.map_err(rejection))
            }
        };
        complete(&model, &env, me, op, out);
    }
}

fn draw_script(n_authors: usize) -> Vec<OpS> {
    let n = ctx::range("ops", 2, 5);
    (0..n).map(|_| draw_op(n_authors)).collect()
}

fn draw_op(n_authors: usize) -> OpS {
    match ctx::choose("op.kind", 18) {
        k @ 0..=13 => OpS::Ack { author: ctx::choose("ack.author", n_authors), foreign: k >= 11, seq: ctx::choose("ack.seq", 8) as u32 },
        14 | 15 => OpS::Nacked,
        16 => OpS::ResetStart,
        _ => {
            let wrong_name = ctx::chance("reset.wrong_name", 1, 2);
            let mut state = vec![];
            for a in 0..n_authors {
                if ctx::chance("reset.has", 1, 2) {
                    state.push((a, ctx::choose("reset.seq", 8) as u32));
                }
            }
            OpS::ResetTo { state, wrong_name }
        }
    }
}

/// In-memory `Cursor::advance`: the same multiset of advances in two seeded orders.
fn advance_orders(env: &Env) {
    let n = ctx::range("adv.n", 3, 14);
    let mut items: Vec<(usize, u64, u32)> = (0..n).map(|_| (ctx::choose("adv.author", env.keys.len()), ctx::choose("adv.log", 3) as u64, ctx::choose("adv.h", 10) as u32)).collect();
    // Repeat a few, so that equal heights and re-advances are in.
    let extra = ctx::choose("adv.repeat", 3);
    for i in 0..extra.min(items.len()) {
        items.push(items[i]);
    }
    let mut expect: BTreeMap<VerifyingKey, BTreeMap<u64, u32>> = BTreeMap::new();
    for (a, l, h) in &items {
        let e = expect.entry(env.keys[*a].verifying_key()).or_default().entry(*l).or_insert(*h);
        *e = (*e).max(*h);
    }
    let mut order_a = items.clone();
    let mut order_b = items.clone();
    ctx::shuffle("adv.order_a", &mut order_a);
    ctx::shuffle("adv.order_b", &mut order_b);
    let apply = |order: &[(usize, u64, u32)]| {
        let mut c: Cursor<VerifyingKey, u64> = Cursor::new("side", Default::default());
        for (a, l, h) in order {
            c.advance(env.keys[*a].verifying_key(), *l, *h);
        }
        c
    };
    let (ca, cb) = (apply(&order_a), apply(&order_b));
    let show = |o: &[(usize, u64, u32)]| o.iter().map(|(a, l, h)| format!("a{a}:{l}->{h}")).collect::<Vec<_>>().join(" ");
    ev!("Cursor::advance side check: order A [{}] | order B [{}]", show(&order_a), show(&order_b));
    if order_a != order_b {
        ctx::probe("advance_two_different_orders");
    }
    if ca != cb {
        violation("advance-order-dependent", "Cursor::advance", format!("order A gives {:?}, order B gives {:?}", ca.state(), cb.state()));
    }
    if ca.state() != &expect {
        violation("advance-not-pointwise-max", "Cursor::advance", format!("state {:?}, pointwise maximum {:?}", ca.state(), expect));
    }
}

async fn populate(store: &SqliteStore, env: &Env) -> Result<(), String> {
    let log = LogId::from_topic(env.own);
    let permit = store.begin().await.map_err(|e| e.to_string())?;
    for key in &env.keys {
        let Some(height) = env.local.get(&key.verifying_key()) else { continue };
        let mut backlink: Option<Hash> = None;
        for seq in 0..=*height {
            let mut h = env.header(0, false, seq);
            h.verifying_key = key.verifying_key();
            h.backlink = backlink;
            h.signature = None;
            h.sign(key);
            let op = Operation { hash: h.hash(), header: h, body: None };
            backlink = Some(op.hash);
            <SqliteStore as OperationStore<Operation, Hash>>::insert_operation(store, &op.hash, &op, &log).await.map_err(|e| e.to_string())?;
        }
        <SqliteStore as TopicStore<Topic, VerifyingKey, LogId>>::associate(store, &env.own, &key.verifying_key(), &log).await.map_err(|e| e.to_string())?;
    }
    store.commit(permit).await.map_err(|e| e.to_string())
}

/// A store call the harness makes itself. It can only block when an activity that the model says
/// is parked elsewhere sits on the store's transaction permit or on a pool connection, i.e. when
/// the critical section of `Acked` is not exclusive; never wait for that forever.
async fn bounded<T>(site: &'static str, fut: impl Future<Output = T>) -> Option<T> {
    match tokio::time::timeout(Duration::from_secs(10), fut).await {
        Ok(v) => Some(v),
        Err(_) => {
            violation("store-call-of-the-harness-blocked", site, "no answer within 10 s: an activity that should be parked on the Acked semaphore holds the store's transaction permit or a pool connection".into());
            None
        }
    }
}

#[derive(Clone, Copy, PartialEq, Eq, Debug)]
enum St {
    Ready,
    Queued,
    HolderBlocked,
    Done,
    Cancelled,
}

#[derive(PartialEq, Eq, Debug)]
enum PhaseEnd {
    Quiescent,
    Restart,
    Abort,
}

struct Checker {
    prev: Heights,
    /// CBOR of the cursor row as of the previous look (None = could not look).
    prev_row: Option<Option<Vec<u8>>>,
}

impl Checker {
    /// Look at the persisted cursor and compare it with the previous look and with the model.
    async fn look(&mut self, sqlite: &SqliteStore, acked: &Acked, model: &Rc<RefCell<Model>>, env: &Env, what: &str) -> bool {
        let Some(cur) = bounded("Acked::cursor", acked.cursor()).await else { return false };
        let cur = match cur {
            Ok(c) => c,
            Err(e) => {
                violation("cursor-unreadable", "Acked::cursor", format!("{what}: {e}"));
                return false;
            }
        };
        let Some(row) = bounded("CursorStore::get_cursor", async { let r: Result<Option<Cursor<VerifyingKey, LogId>>, _> = sqlite.get_cursor(&env.name).await; r }).await else { return false };
        let row = match row {
            Ok(r) => r.map(|c| encode_cbor(&c).unwrap_or_default()),
            Err(e) => {
                violation("cursor-unreadable", "CursorStore::get_cursor", format!("{what}: {e}"));
                return false;
            }
        };
        let log = LogId::from_topic(env.own);
        let mut now: Heights = BTreeMap::new();
        for (a, logs) in cur.state() {
            for (l, s) in logs {
                if *l != log {
                    violation("foreign-log-in-cursor", "Acked::ack", format!("{what}: the persisted cursor holds a height for a log that is not the topic's"));
                } else {
                    now.insert(*a, *s);
                }
            }
        }
        let mut m = model.borrow_mut();
        let completed = std::mem::take(&mut m.completed);
        let reset = std::mem::replace(&mut m.reset_since_read, false);
        // Forward only (a documented replay reset re-bases the comparison).
        if !reset {
            for (a, p) in &self.prev {
                if now.get(a).is_none_or(|n| n < p) {
                    let only_acks = completed.iter().all(|(_, op, _)| matches!(op, OpS::Ack { .. }));
                    violation("cursor-moved-backwards", if only_acks { "Acked::ack (read-modify-write of the cursor row)" } else { "Acked" }, format!("{what}: persisted cursor went from {} to {}; completed since the last look: [{}]", env.show(&self.prev), env.show(&now), completed.iter().map(|(a, op, _)| format!("act{a} {}", op.label())).collect::<Vec<_>>().join(", ")));
                    break;
                }
            }
        }
        // Rejected operations leave the row byte-identical.
        if let Some(prev_row) = &self.prev_row {
            if !completed.is_empty() && completed.iter().all(|(_, op, ok)| !ok && !op.writes()) && *prev_row != row {
                let foreign = completed.iter().any(|(_, op, _)| matches!(op, OpS::Ack { foreign: true, .. }));
                violation("rejected-ack-changed-cursor", if foreign { "Acked::ack of a foreign-topic header" } else { "Acked::nacked_log_ranges with a foreign cursor" }, format!("{what}: cursor row changed ({} -> {} bytes) although only [{}] completed", prev_row.as_ref().map(|r| r.len()).unwrap_or(0), row.as_ref().map(|r| r.len()).unwrap_or(0), completed.iter().map(|(a, op, _)| format!("act{a} {}", op.label())).collect::<Vec<_>>().join(", ")));
            } else if completed.iter().any(|(_, op, ok)| !ok && !op.writes()) && completed.iter().all(|(_, op, ok)| !ok && !op.writes()) {
                ctx::probe("cursor_row_identical_after_rejection");
            }
        }
        // Equal to the model whenever no ack is in flight.
        if m.holder.is_none() && now != m.cursor {
            let missing = m.cursor.iter().any(|(a, s)| now.get(a).is_none_or(|n| n < s));
            let extra = now.iter().any(|(a, s)| m.cursor.get(a).is_none_or(|c| s > c));
            let site = match (missing, extra) {
                (true, false) => "an acknowledged height is missing from the persisted cursor",
                (false, true) => "the persisted cursor holds a height that was never acknowledged",
                _ => "persisted cursor differs in both directions",
            };
            violation("cursor-differs-from-model", site, format!("{what}: persisted {}, pointwise max of the successful acks {}", env.show(&now), env.show(&m.cursor)));
        }
        self.prev = now;
        self.prev_row = Some(row);
        true
    }
}

#[allow(clippy::too_many_arguments)]
async fn run_phase(phase: usize, sqlite: &SqliteStore, acked: &Acked, model: &Rc<RefCell<Model>>, env: &Rc<Env>, scripts: Vec<Vec<OpS>>, file_db: bool, faults: bool, restart_at: Option<u64>, chk: &mut Checker) -> PhaseEnd {
    let n = scripts.len();
    let mut ex = StepExec::new();
    ex.watchdog = Duration::from_secs(60);
    // Every park of this scenario is classified by the model (hint); what remains are waits for
    // sqlx workers, which under machine load can take long. The fallback is only a watchdog here.
    ex.fallback = Duration::from_secs(30);
    for (a, ops) in scripts.into_iter().enumerate() {
        let id = ex.add(&format!("act{a}"), Policy::ForeignDefault, activity(a, acked.clone(), model.clone(), env.clone(), ops));
        assert_eq!(id, a);
        let m = model.clone();
        ex.set_hint(a, move || m.borrow().blocked(a));
    }
    let mut st = vec![St::Ready; n];
    let mut need_wake = vec![false; n];
    // Suspended inside its critical section: first in line for the store's transaction permit (file
    // database) or for the only pool connection (in-memory database) until it is polled again, so
    // the harness itself must not ask for either in the meantime.
    let mut inside = vec![false; n];
    let mut t_permit = None;
    let mut t_budget = ctx::choose("t.budget", 4);
    let mut cancel_budget = if faults { ctx::choose("cancel.budget", 3) } else { 0 };
    let mut iter = 0u64;
    let end = loop {
        iter += 1;
        if iter > 400 {
            violation("ack-never-completes", "step budget exhausted", format!("phase {phase}: statuses {st:?}"));
            break PhaseEnd::Abort;
        }
        if restart_at == Some(iter) {
            break PhaseEnd::Restart;
        }
        let ready: Vec<usize> = (0..n).filter(|i| st[*i] == St::Ready).collect();
        let blocked: Vec<usize> = (0..n).filter(|i| matches!(st[*i], St::Queued | St::HolderBlocked)).collect();
        if ready.is_empty() && blocked.is_empty() {
            break PhaseEnd::Quiescent;
        }
        let what: String;
        if cancel_budget > 0 && ctx::chance("cancel", 1, if blocked.is_empty() { 8 } else { 3 }) {
            // Fault: drop an activity right where it is suspended.
            cancel_budget -= 1;
            // Mostly an activity that is parked inside `ack`; otherwise anyone.
            let mut cands = blocked.clone();
            if blocked.is_empty() || !ctx::chance("cancel.parked_one", 3, 4) {
                cands.extend(ready.iter().copied());
            }
            let a = cands[ctx::choose("cancel.which", cands.len())];
            let was = st[a];
            let holder = model.borrow().holder == Some(a);
            let op = model.borrow().cur_op.get(&a).map(|o| o.label());
            ex.cancel(a);
            model.borrow_mut().release(a);
            st[a] = St::Cancelled;
            need_wake[a] = false;
            inside[a] = false;
            ctx::fault("cancel_at");
            match was {
                St::Queued => ctx::probe("cancel_while_parked_on_acked_semaphore"),
                St::HolderBlocked => ctx::probe("cancel_while_holding_acked_semaphore"),
                _ if holder => ctx::probe("cancel_after_being_handed_the_semaphore"),
                _ => {}
            }
            what = format!("act{a} cancelled ({})", match (was, &op) {
                (St::Queued, Some(o)) => format!("parked on the Acked semaphore in {o}"),
                (St::HolderBlocked, Some(o)) => format!("holding the Acked semaphore in {o}, suspended behind the open store transaction"),
                (_, Some(o)) if holder => format!("just handed the Acked semaphore for {o}"),
                _ => "at the gate between two operations".to_string(),
            });
            ev!("{what}");
        } else if t_permit.is_some() && (ready.is_empty() || ctx::chance("t.release", 1, 3)) {
            let permit = t_permit.take().unwrap();
            let how = ctx::choose("t.end", 3);
            let r = bounded("other component's commit / rollback", async {
                match how {
                    0 => sqlite.commit(permit).await.map_err(|e| e.to_string()),
                    1 => sqlite.rollback(permit).await.map_err(|e| e.to_string()),
                    _ => {
                        drop(permit);
                        Ok(())
                    }
                }
            })
            .await;
            let Some(r) = r else { break PhaseEnd::Abort };
            if let Err(e) = r {
                violation("store-transaction-failed", "other component's transaction", e);
                break PhaseEnd::Abort;
            }
            model.borrow_mut().t_holding = false;
            for a in 0..n {
                if st[a] == St::HolderBlocked {
                    st[a] = St::Ready;
                    need_wake[a] = true;
                }
            }
            what = format!("other component's store transaction ended ({})", ["commit", "rollback", "permit dropped"][how]);
            ev!("{what}");
        } else if t_permit.is_none() && t_budget > 0 && !inside.iter().any(|x| *x) && ctx::chance("t.begin", 1, 3) {
            t_budget -= 1;
            let Some(began) = bounded("other component's SqliteStore::begin", sqlite.begin()).await else { break PhaseEnd::Abort };
            match began {
                Ok(p) => t_permit = Some(p),
                Err(e) => {
                    violation("store-transaction-failed", "other component's transaction", e.to_string());
                    break PhaseEnd::Abort;
                }
            }
            let writes = ctx::chance("t.writes", 1, 2);
            if writes {
                let other: Topic = topic(9);
                if let Err(e) = <SqliteStore as TopicStore<Topic, VerifyingKey, LogId>>::associate(sqlite, &other, &env.keys[0].verifying_key(), &LogId::from_topic(other)).await {
                    violation("store-transaction-failed", "other component's transaction", e.to_string());
                    break PhaseEnd::Abort;
                }
            }
            model.borrow_mut().t_holding = true;
            what = format!("other component opens a store transaction{}", if writes { " and writes" } else { "" });
            ev!("{what}");
        } else if !ready.is_empty() {
            let a = ready[ctx::choose("sched", ready.len())];
            if need_wake[a] {
                // Its blocker is gone: the wake is on its way (synchronously from a tokio
                // primitive, or from an sqlx worker / a runtime helper task).
                if !ex.wait_for_wake(a).await {
                    violation("ack-never-completes", "activity not woken after its blocker was released", format!("phase {phase}: act{a} op {:?}", model.borrow().cur_op.get(&a).map(|o| o.label())));
                    break PhaseEnd::Abort;
                }
                need_wake[a] = false;
            }
            inside[a] = false;
            match ex.run_activity(a).await {
                Ok(Step::Ran { finished: true, .. }) => st[a] = St::Done,
                Ok(Step::Ran { finished: false, .. }) => {
                    let m = model.borrow();
                    if m.queue.contains(&a) {
                        st[a] = St::Queued;
                        ctx::probe("ack_parked_on_acked_semaphore");
                        ev!("act{a} parks on the Acked semaphore in {} (held by act{:?})", m.cur_op.get(&a).map(|o| o.label()).unwrap_or_default(), m.holder.unwrap_or(usize::MAX));
                    } else if m.holder == Some(a) {
                        if m.t_holding {
                            st[a] = St::HolderBlocked;
                            inside[a] = true;
                            ctx::probe("ack_suspended_inside_critical_section");
                            ev!("act{a} holds the Acked semaphore in {} and is suspended behind the open store transaction", m.cur_op.get(&a).map(|o| o.label()).unwrap_or_default());
                        } else {
                            violation("ack-never-completes", "operation pending although nothing blocks it", format!("phase {phase}: act{a} {:?}", m.cur_op.get(&a).map(|o| o.label())));
                            break PhaseEnd::Abort;
                        }
                    }
                    // else: at the gate between two operations.
                }
                Ok(Step::Cancelled { .. }) | Ok(Step::Quiescent) => {}
                Err(s) => {
                    violation("ack-never-completes", "store call stalled (watchdog)", s.name);
                    break PhaseEnd::Abort;
                }
            }
            what = format!("step of act{a}");
        } else {
            violation("ack-never-completes", "activities parked on the Acked semaphore with no holder making progress", format!("phase {phase}: statuses {st:?}, model holder {:?} queue {:?}", model.borrow().holder, model.borrow().queue));
            break PhaseEnd::Abort;
        }
        // Whoever was handed the semaphore in this step is ready again.
        {
            let m = model.borrow();
            for a in 0..n {
                if st[a] == St::Queued && m.holder == Some(a) {
                    st[a] = St::Ready;
                    need_wake[a] = true;
                }
            }
        }
        // Look at the persisted cursor (not possible while the only connection is taken).
        if file_db || (t_permit.is_none() && !inside.iter().any(|x| *x)) {
            if !chk.look(sqlite, acked, model, env, &what).await {
                break PhaseEnd::Abort;
            }
        } else {
            chk.prev_row = None;
        }
        if ctx::has_violation() {
            break PhaseEnd::Abort;
        }
    };
    let in_flight = model.borrow().holder.is_some() || !model.borrow().queue.is_empty();
    if end == PhaseEnd::Restart {
        ctx::fault("dirty_restart");
        if in_flight {
            ctx::probe("restart_with_ack_in_flight");
        }
        ev!("every handle dropped without shutdown (acks in flight: {in_flight}, store transaction open: {})", t_permit.is_some());
    }
    if end == PhaseEnd::Quiescent {
        for a in 0..n {
            if st[a] != St::Done && st[a] != St::Cancelled {
                violation("ack-never-completes", "activity unfinished at quiescence", format!("phase {phase}: act{a} {:?}", st[a]));
            }
        }
    }
    // Dropping the executor drops whatever is still suspended; the model forgets it.
    drop(ex);
    {
        let mut m = model.borrow_mut();
        m.holder = None;
        m.queue.clear();
        m.cur_op.clear();
        m.t_holding = false;
    }
    if let Some(p) = t_permit.take() {
        if end == PhaseEnd::Restart {
            drop(p);
        } else {
            let _ = bounded("other component's commit / rollback", sqlite.rollback(p)).await;
        }
    }
    end
}

pub struct C07Prop;
pub static C07: C07Prop = C07Prop;

impl Property for C07Prop {
    fn id(&self) -> &'static str {
        "C07"
    }
    fn budget(&self, tier: Tier) -> Budget {
        match tier {
            Tier::Quick => Budget { runs: 8_000, wall_cap_s: 35 },
            Tier::Thorough => Budget { runs: 100_000, wall_cap_s: 340 },
        }
    }
    fn modes(&self) -> u32 {
        4
    }
    fn mode_name(&self, mode: u32) -> &'static str {
        match mode {
            0 => "in-memory pool (1 connection), no cancellation (fault-free)",
            1 => "in-memory pool (1 connection), ack futures cancelled while parked / at a gate",
            2 => "file database (4 connections), no cancellation (fault-free)",
            _ => "file database (4 connections), ack futures cancelled + every handle dropped and the database reopened",
        }
    }
    fn rule(&self) -> &'static str {
        "one run = 2-4 concurrent activities on clones of one Acked, each 2-5 operations (ack of a header of one of 2-4 authors with seq 0-7 in the own topic's log or in a foreign topic's log; nacked_log_ranges from Frontier / Start / a given cursor with the right or a wrong name) with a scheduling point between operations, while another component opens 0-3 store transactions that suspend an ack inside its critical section; faulty modes drop activities where they are suspended and (file database) drop every handle and reopen; after every step the persisted cursor is compared with the previous one and with the pointwise max of the successful acks; plus Cursor::advance over 3-16 advances in two seeded orders; non-trivial = every run (at least two activities); distinct = distinct trace fingerprint (scripts, schedule, outcomes)"
    }
    fn components_real(&self) -> Vec<&'static str> {
        vec!["p2panda_core::Cursor::{advance, compare, state}", "p2panda::streams::acked::Acked::{ack, cursor, nacked_log_ranges, replace_cursor} incl. its tokio Semaphore(1)", "p2panda::operation::{Extensions, LogId::from_topic}", "p2panda_store SqliteStore: CursorStore, TopicStore, LogStore, begin / commit / rollback / dropped permit", "sqlx SQLite pool (1 connection in memory, 4 connections on a file)"]
    }
    fn components_stub(&self) -> Vec<&'static str> {
        vec!["the callers of ack (stream task, ProcessedOperation::ack, StreamSubscription::ack) are harness scripts", "the other component holding a store transaction (ingest / forge) is the harness calling SqliteStore::begin and commit / rollback / dropping the permit"]
    }
    fn assumptions(&self) -> Vec<&'static str> {
        vec!["an ack can be suspended (and cancelled) only where it parks: on the Acked semaphore, in SqliteStore::begin, or waiting for the only pool connection; cancellation in the middle of a single SQLite call is not part of this check", "nacked_log_ranges(Start | Cursor) replaces the cursor by design; the forward-only comparison is re-based at such a reset", "two Acked instances sharing one cursor name are documented as unsupported and not generated"]
    }
    fn expected_probes(&self) -> Vec<&'static str> {
        vec![
            "ack_parked_on_acked_semaphore",
            "ack_suspended_inside_critical_section",
            "lower_or_equal_seq_acked_after_higher",
            "foreign_topic_rejected",
            "cursor_row_identical_after_rejection",
            "cancel_while_parked_on_acked_semaphore",
            "cancel_while_holding_acked_semaphore",
            "restart_with_ack_in_flight",
            "cursor_replaced_by_replay",
            "advance_two_different_orders",
        ]
    }
    fn run(&self) {
        let mode = ctx::mode();
        let file_db = mode >= 2;
        let faults = mode % 2 == 1;
        ctx::mark_nontrivial();
        let n_authors = ctx::range("authors", 2, 4);
        let keys: Vec<SigningKey> = (0..n_authors as u64).map(signing_key).collect();
        let own = topic(1);
        let local: Heights = keys.iter().filter_map(|k| if ctx::chance("stored", 3, 4) { Some((k.verifying_key(), ctx::choose("stored.height", 6) as u32)) } else { None }).collect();
        let env = Rc::new(Env { keys, own, foreign: topic(2), name: own.to_string(), local });
        advance_orders(&env);

        let n_phases = if file_db && faults && ctx::chance("restart", 1, 2) { 2 } else { 1 };
        let mut phases: Vec<Vec<Vec<OpS>>> = vec![];
        for p in 0..n_phases {
            let n_acts = ctx::range("activities", 2, 4);
            let scripts: Vec<Vec<OpS>> = (0..n_acts).map(|_| draw_script(n_authors)).collect();
            for (a, s) in scripts.iter().enumerate() {
                ev!("phase {p} act{a}: {}", s.iter().map(|o| o.label()).collect::<Vec<_>>().join(", "));
            }
            phases.push(scripts);
        }
        let restart_at = if n_phases == 2 { Some(ctx::range("restart.at", 2, 30) as u64) } else { None };
        ev!("stored log heights {}; {}", env.show(&env.local), if file_db { "file database, 4 connections" } else { "in-memory database, 1 connection" });

        let path = format!("/dev/shm/p2sim-c07-{}-{:x}.sqlite", std::process::id(), ctx::seed());
        struct Cleanup(Option<String>);
        impl Drop for Cleanup {
            fn drop(&mut self) {
                if let Some(p) = &self.0 {
                    for s in ["", "-wal", "-shm", "-journal"] {
                        let _ = std::fs::remove_file(format!("{p}{s}"));
                    }
                }
            }
        }
        let _cleanup = Cleanup(if file_db { Some(path.clone()) } else { None });

        stepexec::block_on(async move {
            let open = || async {
                if file_db { sqlite_file(&path, 4).await } else { sqlite_memory().await }
            };
            if file_db {
                let _ = std::fs::remove_file(&path);
            }
            let mut sqlite = open().await;
            if let Err(e) = populate(&sqlite, &env).await {
                violation("store-transaction-failed", "populating the store", e);
                sqlite.pool().close().await;
                return;
            }
            let model = Rc::new(RefCell::new(Model { one_conn: !file_db, ..Default::default() }));
            let mut chk = Checker { prev: BTreeMap::new(), prev_row: None };
            let mut old_pools = vec![];
            let n_phases = phases.len();
            for (p, scripts) in phases.into_iter().enumerate() {
                let acked = Acked::new(sqlite.clone(), env.own);
                if !chk.look(&sqlite, &acked, &model, &env, if p == 0 { "fresh database" } else { "after dropping every handle and reopening the database" }).await {
                    break;
                }
                if ctx::has_violation() {
                    break;
                }
                let end = run_phase(p, &sqlite, &acked, &model, &env, scripts, file_db, faults, if p + 1 < n_phases { restart_at } else { None }, &mut chk).await;
                drop(acked);
                match end {
                    PhaseEnd::Abort => break,
                    PhaseEnd::Restart => {
                        // Reopen while the old pool is still winding down (it is closed at the
                        // very end only to give its threads back).
                        let new = open().await;
                        old_pools.push(std::mem::replace(&mut sqlite, new));
                    }
                    PhaseEnd::Quiescent => {
                        let acked = Acked::new(sqlite.clone(), env.own);
                        let _ = chk.look(&sqlite, &acked, &model, &env, "at quiescence").await;
                        if end == PhaseEnd::Quiescent && p + 1 < n_phases {
                            // The restart point was not reached: restart now, between phases.
                            ctx::fault("dirty_restart");
                            ev!("every handle dropped without shutdown (nothing in flight)");
                            let new = open().await;
                            old_pools.push(std::mem::replace(&mut sqlite, new));
                        }
                    }
                }
            }
            let m = model.borrow();
            ev!("final model {}; successful own-topic acks {}", env.show(&m.cursor), m.acks_ok);
            drop(m);
            for o in old_pools {
                let _ = tokio::time::timeout(Duration::from_secs(10), o.pool().close()).await;
            }
            let _ = tokio::time::timeout(Duration::from_secs(10), sqlite.pool().close()).await;
        });
    }
}
