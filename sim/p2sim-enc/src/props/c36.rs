//! C36 — Latest group secret is chosen deterministically and new secrets are newer.
//!
//! World: 2..4 replicas, each with a real `SecretBundleState`. The same secrets (timestamps drawn
//! from a tiny range so that they collide) reach the replicas through different operations and in
//! different orders: `insert` one by one, `from_secrets` + `extend` in batches, replica-to-replica
//! merges, duplicates, removals followed by re-insertion, serialise + reload. Any replica can
//! `generate` a new secret at any time with the wall clock behind, at, or ahead of its latest.
//!
//! Oracle (a `BTreeMap` per replica mirrors the content): after every operation `latest()` is the
//! maximum by (timestamp, id) of the replica's content; replicas with equal content agree; a
//! generated secret is strictly greater by (timestamp, id) than the bundle's latest at that moment.

use std::collections::BTreeMap;

use p2panda_encryption::Rng;
use p2panda_encryption::data_scheme::group_secret::{GroupSecret, GroupSecretId, SecretBundle, SecretBundleState};
use simcore::libc_seams::{self, EPOCH_US};
use simcore::{Budget, Property, Tier, ctx, ev, violation};

use super::util::{MAX_CLOCK_S, hex4, now_s, seeded_bytes, seeded_rng, set_clock_s};

pub struct C36Prop;
pub static C36: C36Prop = C36Prop;

const EPOCH_S: u64 = EPOCH_US / 1_000_000;

struct Replica {
    name: char,
    y: Option<SecretBundleState>,
    /// Model of the content: id → timestamp.
    model: BTreeMap<GroupSecretId, u64>,
    /// Indices into the world's secret list this replica has not received yet, in arrival order.
    inbox: Vec<usize>,
    rng: Rng,
}

struct World {
    secrets: Vec<GroupSecret>,
    replicas: Vec<Replica>,
    failed: bool,
}

fn label(s: &GroupSecret) -> String {
    format!("{}@{}", hex4(&s.id()), s.timestamp())
}

fn model_max(model: &BTreeMap<GroupSecretId, u64>) -> Option<(u64, GroupSecretId)> {
    model.iter().map(|(id, ts)| (*ts, *id)).max()
}

impl World {
    /// Invariant after every operation on replica `r`.
    fn check_latest(&mut self, r: usize, op: &str) {
        let rep = &self.replicas[r];
        let Some(y) = rep.y.as_ref() else { return };
        let want = model_max(&rep.model);
        let got = y.latest().map(|s| (s.timestamp(), s.id()));
        if y.len() != rep.model.len() {
            violation("content-mismatch", "bundle-length", format!("replica {} after {op}: bundle holds {} secrets, {} were put in", rep.name, y.len(), rep.model.len()));
            self.failed = true;
            return;
        }
        if let Some((ts, _)) = want {
            if rep.model.values().filter(|t| **t == ts).count() >= 2 {
                ctx::probe("timestamp_collision");
            }
        }
        if got == want {
            return;
        }
        let fmt = |x: &Option<(u64, GroupSecretId)>| x.map(|(ts, id)| format!("{}@{ts}", hex4(&id))).unwrap_or_else(|| "none".into());
        let site = match (&got, &want) {
            (Some((gts, gid)), Some((wts, _))) if rep.model.get(gid) == Some(gts) => {
                if gts == wts { "wrong-id-among-equal-timestamps" } else { "smaller-timestamp-chosen" }
            }
            (None, Some(_)) => "none-although-not-empty",
            _ => "not-a-member-of-the-bundle",
        };
        violation(
            "latest-not-max",
            site,
            format!("replica {} after {op}: latest() = {}, maximum by (timestamp, id) of its {} secrets = {}", rep.name, fmt(&got), rep.model.len(), fmt(&want)),
        );
        self.failed = true;
    }

    fn apply_insert(&mut self, r: usize, si: usize, op: &str) {
        let s = self.secrets[si].clone();
        let rep = &mut self.replicas[r];
        let Some(y) = rep.y.take() else { return };
        rep.y = Some(SecretBundle::insert(y, s.clone()));
        rep.model.insert(s.id(), s.timestamp());
        self.check_latest(r, op);
    }

    /// Every replica that does not hold secret `si` yet gets it queued.
    fn publish(&mut self, si: usize, except: usize) {
        for (i, rep) in self.replicas.iter_mut().enumerate() {
            if i != except {
                rep.inbox.push(si);
            }
        }
    }
}

/// Draws a timestamp for an initial secret; returns it with the fault kind it stands for (counted
/// by the caller only when the secret is really used).
fn initial_timestamp(faulty: bool) -> (u64, Option<&'static str>) {
    // A tiny range, so that several secrets share a timestamp and the id has to break the tie.
    let off = ctx::choose("ts", 4) as u64;
    let base = EPOCH_S - 50 + off;
    if !faulty {
        return (base, None);
    }
    match ctx::choose("ts.odd", 64) {
        0..=53 => (base, None),
        54 | 55 => (0, Some("timestamp.zero")),
        56..=59 => (EPOCH_S + 5_000 + off, Some("timestamp.far_future")),
        60 | 61 => (1u64 << 40, Some("timestamp.far_future")),
        62 => (u64::MAX - 1, Some("timestamp.far_future")),
        _ => (u64::MAX, Some("timestamp.u64_max")),
    }
}

impl Property for C36Prop {
    fn id(&self) -> &'static str {
        "C36"
    }
    fn budget(&self, tier: Tier) -> Budget {
        match tier {
            Tier::Quick => Budget { runs: 150_000, wall_cap_s: 35 },
            Tier::Thorough => Budget { runs: 1_500_000, wall_cap_s: 330 },
        }
    }
    fn modes(&self) -> u32 {
        2
    }
    fn mode_name(&self, mode: u32) -> &'static str {
        match mode {
            0 => "orders-clock-ahead",
            _ => "orders-clock-faults",
        }
    }
    fn rule(&self) -> &'static str {
        "one run = 2..4 replicas, 1..8 initial secrets with timestamps from a 4-second range (collisions), up to 40 world steps chosen by the stream: insert next / any queued secret, from_secrets+extend of a batch, replica-to-replica extend, generate (+ local insert, publish to the others), and in the fault mode duplicate insert, remove + re-queue, CBOR reload, wall clock behind / equal / ahead of the latest at generate, timestamps 0 / far future / u64::MAX-1 / u64::MAX; then all queues are drained; non-trivial = two replicas received at least two secrets in different orders, or a generate happened, or a fault fired; distinct = distinct trace"
    }
    fn components_real(&self) -> Vec<&'static str> {
        vec![
            "p2panda_encryption::data_scheme::group_secret::SecretBundle::{init, from_secrets, insert, extend, remove, generate}",
            "p2panda_encryption::data_scheme::group_secret::find_latest (through every mutating operation)",
            "p2panda_encryption::data_scheme::group_secret::SecretBundleState (Serialize / Deserialize through p2panda_core::cbor)",
            "p2panda_encryption::data_scheme::group_secret::GroupSecret::{from_rng, id, timestamp} (SystemTime::now through the CLOCK_REALTIME seam)",
        ]
    }
    fn components_stub(&self) -> Vec<&'static str> {
        vec!["distribution of secrets between members (DCGKA direct messages in the real system): harness queues, any order", "wall clock: CLOCK_REALTIME seam", "Rng: the crate's ChaCha Rng seeded from the run seed"]
    }
    fn assumptions(&self) -> Vec<&'static str> {
        vec![
            "secret ids are unique within a run (ids are SHA-256 of the key bytes; the same key bytes never appear with two different timestamps)",
            "'strictly later' is read in the same (timestamp, id) order that defines 'latest'",
        ]
    }
    fn expected_probes(&self) -> Vec<&'static str> {
        vec![
            "timestamp_collision",
            "clock_behind_latest_at_generate",
            "clock_equal_latest_at_generate",
            "clock_ahead_at_generate",
            "generate_on_empty_bundle",
            "concurrent_generate_same_timestamp",
            "merge_via_extend",
            "batch_via_from_secrets",
            "latest_removed",
            "reload_roundtrip",
            "different_orders_same_content",
            "latest_timestamp_u64_max_at_generate",
        ]
    }

    fn run(&self) {
        let faulty = ctx::mode() == 1;
        let nrep = ctx::range("replicas", 2, 4);
        let nsec = ctx::range("secrets", 1, 8);

        // Guard: the crate's clock reads must follow the seam, or the oracle below means nothing.
        {
            let probe = SecretBundle::generate(&SecretBundle::init(), &seeded_rng(999));
            match probe {
                Ok(s) => assert_eq!(s.timestamp(), EPOCH_S, "SystemTime::now() in p2panda-encryption does not follow the CLOCK_REALTIME seam"),
                Err(e) => panic!("generate on an empty bundle failed: {e}"),
            }
        }

        let mut w = World { secrets: Vec::new(), replicas: Vec::new(), failed: false };
        // Always the same number of draws, whatever `nsec` is, so that the shrinker can lower the
        // number of secrets without shifting the rest of the choice stream.
        let stamps: Vec<(u64, Option<&'static str>)> = (0..8).map(|_| initial_timestamp(faulty)).collect();
        for (i, (ts, fault)) in stamps.iter().take(nsec).enumerate() {
            if let Some(kind) = fault {
                ctx::fault(*kind);
            }
            w.secrets.push(GroupSecret::new(seeded_bytes(10 + i as u64), *ts));
        }
        ev!("secrets: {}", w.secrets.iter().map(label).collect::<Vec<_>>().join(" "));
        for r in 0..nrep {
            // Every replica has all initial secrets queued; which one it takes next is decided step
            // by step (0 = the next in creation order), so the orders differ between replicas.
            let inbox: Vec<usize> = (0..nsec).collect();
            w.replicas.push(Replica { name: (b'A' + r as u8) as char, y: Some(SecretBundle::init()), model: BTreeMap::new(), inbox, rng: seeded_rng(r as u64) });
        }
        let mut receive_orders: Vec<Vec<usize>> = vec![Vec::new(); nrep];
        let mut generated = 0usize;

        let steps = ctx::range("steps", 0, 40);
        let mut step = 0;
        let mut draining = false;
        loop {
            if w.failed {
                return;
            }
            if step >= steps {
                draining = true;
            }
            step += 1;
            if draining && w.replicas.iter().all(|r| r.inbox.is_empty()) {
                break;
            }
            let r = ctx::choose("replica", nrep);
            let name = w.replicas[r].name;
            let nact = if draining { 1 } else if faulty { 7 } else { 4 };
            let act = ctx::choose("action", nact);
            match act {
                // Receive one queued secret (index 0 = the next in this replica's arrival order).
                0 => {
                    let r = if w.replicas[r].inbox.is_empty() {
                        match (0..nrep).find(|i| !w.replicas[*i].inbox.is_empty()) {
                            Some(i) => i,
                            None => continue,
                        }
                    } else {
                        r
                    };
                    let name = w.replicas[r].name;
                    let k = ctx::choose("which", w.replicas[r].inbox.len());
                    let si = w.replicas[r].inbox.remove(k);
                    receive_orders[r].push(si);
                    ev!("{name}: insert {}", label(&w.secrets[si]));
                    w.apply_insert(r, si, "insert");
                }
                // Receive a batch: from_secrets(batch) then extend.
                1 => {
                    let avail = w.replicas[r].inbox.len();
                    if avail == 0 {
                        continue;
                    }
                    let k = ctx::range("batch", 1, avail.min(4));
                    let from = ctx::choose("batch.from", avail - k + 1);
                    let batch: Vec<usize> = w.replicas[r].inbox.drain(from..from + k).collect();
                    let list: Vec<GroupSecret> = batch.iter().map(|i| w.secrets[*i].clone()).collect();
                    ev!("{name}: extend with from_secrets([{}])", list.iter().map(label).collect::<Vec<_>>().join(", "));
                    receive_orders[r].extend(batch.iter().copied());
                    let other = SecretBundle::from_secrets(list.clone());
                    // The batch on its own must already pick its maximum.
                    let want = list.iter().map(|s| (s.timestamp(), s.id())).max();
                    let got = other.latest().map(|s| (s.timestamp(), s.id()));
                    if got != want {
                        violation("latest-not-max", "from_secrets", format!("from_secrets of {} secrets: latest() = {:?}, expected {:?}", list.len(), got.map(|g| (hex4(&g.1), g.0)), want.map(|g| (hex4(&g.1), g.0))));
                        return;
                    }
                    ctx::probe("batch_via_from_secrets");
                    let rep = &mut w.replicas[r];
                    let Some(y) = rep.y.take() else { return };
                    rep.y = Some(SecretBundle::extend(y, other));
                    for s in &list {
                        rep.model.insert(s.id(), s.timestamp());
                    }
                    w.check_latest(r, "extend(from_secrets)");
                }
                // Merge another replica's whole bundle into this one.
                2 => {
                    let o = (r + 1 + ctx::choose("other", nrep - 1)) % nrep;
                    let Some(other) = w.replicas[o].y.clone() else { return };
                    let other_model = w.replicas[o].model.clone();
                    ev!("{name}: extend with the bundle of {} ({} secrets)", w.replicas[o].name, other.len());
                    let secrets = &w.secrets;
                    let rep = &mut w.replicas[r];
                    let Some(y) = rep.y.take() else { return };
                    rep.y = Some(SecretBundle::extend(y, other));
                    for (id, ts) in other_model {
                        rep.model.insert(id, ts);
                    }
                    let model = &rep.model;
                    rep.inbox.retain(|si| !model.contains_key(&secrets[*si].id()));
                    ctx::probe("merge_via_extend");
                    w.check_latest(r, "extend(replica)");
                }
                // Generate a new secret here, insert it locally, publish it.
                3 => {
                    if generated >= 6 {
                        continue;
                    }
                    let Some(y) = w.replicas[r].y.as_ref() else { return };
                    let latest = y.latest().map(|s| (s.timestamp(), s.id()));
                    // Where the wall clock stands relative to the latest timestamp.
                    let pos = if faulty { ctx::choose("clock", 3) } else { 0 };
                    let frac = ctx::choose("clock.frac", 4) as u64 * 250_000;
                    let site;
                    match latest {
                        None => {
                            // Nothing to be behind of: let time pass a little.
                            libc_seams::advance_wall_us(frac);
                            site = "empty-bundle";
                            ctx::probe("generate_on_empty_bundle");
                        }
                        Some((lts, _)) => {
                            let want_s = match pos {
                                0 => lts.saturating_add(1 + ctx::choose("clock.ahead", 3) as u64).max(now_s()),
                                1 => lts,
                                _ => lts.saturating_sub(1 + ctx::choose("clock.behind", 100) as u64),
                            };
                            if want_s <= MAX_CLOCK_S {
                                if want_s < now_s() {
                                    ctx::fault("clock.jump_back");
                                }
                                set_clock_s(want_s, frac);
                            }
                            let now = now_s();
                            site = if lts == u64::MAX {
                                ctx::probe("latest_timestamp_u64_max_at_generate");
                                "latest-timestamp-u64-max"
                            } else if now < lts {
                                ctx::probe("clock_behind_latest_at_generate");
                                "clock-behind-latest"
                            } else if now == lts {
                                ctx::fault("clock.freeze");
                                ctx::probe("clock_equal_latest_at_generate");
                                "clock-equal-latest"
                            } else {
                                ctx::probe("clock_ahead_at_generate");
                                "clock-ahead-of-latest"
                            };
                        }
                    }
                    let rep = &w.replicas[r];
                    let Some(y) = rep.y.as_ref() else { return };
                    let new = match SecretBundle::generate(y, &rep.rng) {
                        Ok(s) => s,
                        Err(e) if site == "latest-timestamp-u64-max" => {
                            // No later timestamp exists; refusing to generate is the one way to keep
                            // "every generated secret is later than the latest" true here.
                            ctx::probe("generate_refused_at_u64_max");
                            ev!("{name}: generate refused at clock {} s ({site}): {e}", now_s());
                            continue;
                        }
                        Err(e) => {
                            violation("generate-failed", site, format!("replica {name}: generate returned {e} with clock {} s", now_s()));
                            return;
                        }
                    };
                    generated += 1;
                    ctx::mark_nontrivial();
                    ev!("{name}: generate at clock {} s ({site}; latest {}) -> {}", now_s(), latest.map(|(ts, id)| format!("{}@{ts}", hex4(&id))).unwrap_or_else(|| "none".into()), label(&new));
                    if let Some(l) = latest {
                        if (new.timestamp(), new.id()) <= l {
                            violation("generated-not-later", site, format!("replica {name}: generated {} is not later than the bundle's latest {}@{} (clock {} s)", label(&new), hex4(&l.1), l.0, now_s()));
                            return;
                        }
                    }
                    if w.secrets.iter().any(|s| s.timestamp() == new.timestamp() && s.id() != new.id() && !w.replicas[r].model.contains_key(&s.id())) {
                        ctx::probe("concurrent_generate_same_timestamp");
                    }
                    let si = w.secrets.len();
                    w.secrets.push(new);
                    receive_orders[r].push(si);
                    w.apply_insert(r, si, "insert(generated)");
                    w.publish(si, r);
                }
                // Fault: the same secret arrives again.
                4 => {
                    let held: Vec<usize> = (0..w.secrets.len()).filter(|i| w.replicas[r].model.contains_key(&w.secrets[*i].id())).collect();
                    if held.is_empty() {
                        continue;
                    }
                    let si = *ctx::pick("dup.which", &held);
                    ctx::fault("duplicate");
                    ev!("{name}: duplicate insert {}", label(&w.secrets[si]));
                    w.apply_insert(r, si, "insert(duplicate)");
                }
                // Fault: a secret is removed (forward secrecy housekeeping) and arrives again later.
                5 => {
                    let held: Vec<usize> = (0..w.secrets.len()).filter(|i| w.replicas[r].model.contains_key(&w.secrets[*i].id())).collect();
                    if held.is_empty() {
                        continue;
                    }
                    let latest_id = w.replicas[r].y.as_ref().and_then(|y| y.latest()).map(|s| s.id());
                    // 0 = the current latest (the interesting one), otherwise any.
                    let si = if ctx::choose("rm.latest", 2) == 0 {
                        held.iter().copied().find(|i| Some(w.secrets[*i].id()) == latest_id).unwrap_or(held[0])
                    } else {
                        *ctx::pick("rm.which", &held)
                    };
                    let id = w.secrets[si].id();
                    if Some(id) == latest_id {
                        ctx::probe("latest_removed");
                    }
                    ctx::fault("remove_then_redeliver");
                    ev!("{name}: remove {} (queued for re-delivery)", label(&w.secrets[si]));
                    let rep = &mut w.replicas[r];
                    let Some(y) = rep.y.take() else { return };
                    let (y, removed) = SecretBundle::remove(y, &id);
                    rep.y = Some(y);
                    if removed.as_ref().map(|s| s.id()) != Some(id) {
                        violation("content-mismatch", "remove", format!("replica {name}: remove of a held secret returned {:?}", removed.map(|s| label(&s))));
                        return;
                    }
                    rep.model.remove(&id);
                    rep.inbox.push(si);
                    w.check_latest(r, "remove");
                }
                // Fault: restart — serialise the bundle, load it again (from_secrets in whatever order).
                _ => {
                    let rep = &mut w.replicas[r];
                    let Some(y) = rep.y.take() else { return };
                    match p2panda_core::cbor::encode_cbor(&y) {
                        Ok(bytes) => match p2panda_core::cbor::decode_cbor::<SecretBundleState, _>(&bytes[..]) {
                            Ok(y2) => {
                                ctx::fault("restart");
                                ctx::probe("reload_roundtrip");
                                ev!("{name}: restart — bundle of {} secrets reloaded from {} bytes", y2.len(), bytes.len());
                                rep.y = Some(y2);
                                w.check_latest(r, "reload");
                            }
                            Err(e) => {
                                ev!("{name}: reload failed to decode ({e}); keeping the state in memory");
                                rep.y = Some(y);
                            }
                        },
                        Err(e) => {
                            ev!("{name}: reload failed to encode ({e}); keeping the state in memory");
                            rep.y = Some(y);
                        }
                    }
                }
            }
        }
        if w.failed {
            return;
        }

        // Everything has been delivered everywhere: same content ⇒ same latest.
        let mut distinct_orders = false;
        for a in 0..nrep {
            for b in a + 1..nrep {
                let (ra, rb) = (&w.replicas[a], &w.replicas[b]);
                if ra.model != rb.model {
                    continue;
                }
                if receive_orders[a] != receive_orders[b] && ra.model.len() >= 2 {
                    distinct_orders = true;
                }
                let la = ra.y.as_ref().and_then(|y| y.latest()).map(|s| (s.timestamp(), s.id()));
                let lb = rb.y.as_ref().and_then(|y| y.latest()).map(|s| (s.timestamp(), s.id()));
                if la != lb {
                    violation("replicas-diverge", "same-content-different-latest", format!("replicas {} and {} hold the same {} secrets but latest() differs: {:?} vs {:?}", ra.name, rb.name, ra.model.len(), la.map(|x| (hex4(&x.1), x.0)), lb.map(|x| (hex4(&x.1), x.0))));
                    return;
                }
            }
        }
        if distinct_orders {
            ctx::probe("different_orders_same_content");
            ctx::mark_nontrivial();
        }
        let l = w.replicas[0].y.as_ref().and_then(|y| y.latest()).map(label).unwrap_or_else(|| "none".into());
        ev!("end: {} secrets in the world, {generated} generated; latest on A = {l}; sizes {:?}", w.secrets.len(), w.replicas.iter().map(|r| r.model.len()).collect::<Vec<_>>());
    }
}
