//! Two replicas running real `LogSync` / `TopicLogSync` sessions against each other over
//! `SimDuplex`, on either engine. Shared by C19, C20, C21 (and parts of C22).

use std::cell::RefCell;
use std::collections::{BTreeMap, BTreeSet};
use std::rc::Rc;

use p2panda_core::cbor::decode_cbor;
use p2panda_core::{Hash, Header, Operation, SeqNum, Topic, VerifyingKey};
use p2panda_store::SqliteStore;
use p2panda_store::logs::LogStore;
use p2panda_sync::protocols::{LogSync, LogSyncEvent, LogSyncMessage, Logs, TopicLogSync, TopicLogSyncEvent, TopicLogSyncMessage};
use p2panda_sync::traits::Protocol;
use simcore::duplex::{Engine, Link, LinkConfig, SimSink, SimStream, link};
use simcore::stepexec::{Policy, StepExec};
use simcore::{ctx, des, ev, stepexec};
use simworld::gated::{Gate, GatedStore};
use simworld::logworld::{LogIdT, LogView, LogWorld, Op, SimExt, WorldParams, draw_view, op_label, short, short_key, view_ops};
use simworld::memstore::{MemError, MemHooks, MemStore};
use simworld::populate::{populate, sqlite_memory};
use tokio::sync::broadcast;

pub use simworld::syncwire::{Evt, ToWire, Wire, from_log_event, from_topic_event};

// ------------------------------------------------------------------------------------------------
// Configuration and outcome
// ------------------------------------------------------------------------------------------------

#[derive(Clone, Copy, Debug, PartialEq, Eq)]
pub enum Kind {
    Log,
    Topic,
}

#[derive(Clone, Debug)]
pub struct Interference {
    /// 0 = A, 1 = B
    pub side: usize,
    pub author: VerifyingKey,
    pub log: LogIdT,
    /// prune_entries(until)
    pub until: SeqNum,
    /// StepExec: gates to pass before acting. DES: microseconds to sleep before acting.
    pub delay: u64,
}

#[derive(Clone, Debug)]
pub struct SyncCfg {
    pub engine: Engine,
    pub kind: Kind,
    pub capacity: usize,
    pub world: WorldParams,
    pub interference: bool,
    pub dedup_capacity: usize,
    /// Some logs held in the store are not associated with the topic / not in the session scope.
    pub partial_scope: bool,
}

pub struct Side {
    pub name: &'static str,
    pub view: Vec<LogView>,
    pub ops: Vec<Op>,
    /// Session scope (what `resolve(topic)` returns / what is passed to `LogSync::new`).
    pub scope: Logs<LogIdT>,
    pub sent: Vec<Wire>,
    pub events: Vec<Evt>,
    pub result: Option<Result<(), String>>,
    pub blocked_in_send: bool,
    pub blocked_in_recv: bool,
}

pub struct Outcome {
    pub world: LogWorld,
    pub sides: [Side; 2],
    pub hang: bool,
    pub stall: Option<String>,
    pub interference: Option<Interference>,
    pub interference_applied: bool,
    pub heights_after: Option<[BTreeMap<(VerifyingKey, LogIdT), SeqNum>; 2]>,
    pub ingest_errors: Vec<String>,
    pub max_queue: usize,
}

fn scope_of(world: &LogWorld, view: &[LogView], partial: bool) -> Logs<LogIdT> {
    let mut scope: Logs<LogIdT> = BTreeMap::new();
    for v in view {
        if v.is_empty() {
            continue;
        }
        if partial && ctx::chance("scope.omit", 1, 5) {
            continue;
        }
        let l = &world.logs[v.log_index];
        let e = scope.entry(l.author).or_default();
        if !e.contains(&l.log_id) {
            e.push(l.log_id);
        }
    }
    scope
}

fn draw_interference(world: &LogWorld, sides: &[Side; 2], engine: Engine) -> Option<Interference> {
    let side = ctx::choose("interf.side", 2);
    let cands: Vec<&LogView> = sides[side].view.iter().filter(|v| !v.is_empty()).collect();
    if cands.is_empty() {
        return None;
    }
    let v = *ctx::pick("interf.log", &cands);
    let l = &world.logs[v.log_index];
    // until ∈ (from, upto]: upto = remove everything.
    let until = if ctx::chance("interf.all", 1, 2) { v.upto_exclusive } else { v.from + 1 + ctx::choose("interf.until", (v.upto_exclusive - v.from) as usize) as u32 };
    let delay = match engine {
        Engine::Step => ctx::choose("interf.delay", 14) as u64,
        Engine::Des => *ctx::pick("interf.delay", &[0u64, 50, 150, 400, 1_000, 2_500, 6_000, 15_000, 40_000, 100_000]),
    };
    Some(Interference { side, author: l.author, log: l.log_id, until, delay })
}

pub fn topic0() -> Topic {
    simworld::logworld::topic(0)
}

// ------------------------------------------------------------------------------------------------
// DES hooks for MemStore
// ------------------------------------------------------------------------------------------------

#[derive(Clone)]
pub struct DesHooks {
    pub latency: bool,
}

impl MemHooks for DesHooks {
    async fn point(&self, _method: &'static str) -> Result<(), MemError> {
        if self.latency {
            des::delay("store.latency", &[0, 0, 200, 1_000, 5_000]).await;
        }
        Ok(())
    }
}

// ------------------------------------------------------------------------------------------------
// StepExec gate for SQLite
// ------------------------------------------------------------------------------------------------

#[derive(Clone)]
pub struct StepGate {
    pub den: usize,
}

impl Gate for StepGate {
    async fn before(&self, _method: &'static str) -> Result<(), String> {
        if self.den > 0 {
            stepexec::preempt("store.gate", self.den).await;
        }
        Ok(())
    }
}

// ------------------------------------------------------------------------------------------------
// Running a pair of sessions
// ------------------------------------------------------------------------------------------------

struct PairLinks<M> {
    ab: Link<M>,
    ba: Link<M>,
}

fn link_cfg(cfg: &SyncCfg) -> LinkConfig {
    let mut lc = LinkConfig::new(cfg.engine);
    lc.capacity = cfg.capacity;
    if cfg.engine == Engine::Des {
        lc.latency_us = vec![0, 100, 1_000, 10_000, 60_000];
        lc.preempt_den = 0;
    } else {
        lc.preempt_den = 3;
    }
    lc
}

type SessFut = std::pin::Pin<Box<dyn Future<Output = Result<(), String>>>>;

/// Build the two session futures (boxed) for a given store type; the event collectors are
/// returned as closures draining broadcast receivers.
fn make_sessions<S, M>(
    cfg: &SyncCfg,
    stores: [S; 2],
    scopes: [Logs<LogIdT>; 2],
    a: (SimSink<M>, SimStream<M>),
    b: (SimSink<M>, SimStream<M>),
) -> ([SessFut; 2], Box<dyn FnMut() -> [Vec<Evt>; 2]>)
where
    M: 'static,
    S: 'static,
    (): SessionBuilder<S, M>,
{
    <() as SessionBuilder<S, M>>::build(cfg, stores, scopes, a, b)
}

/// Type-directed construction of the session pair: `M` selects LogSync vs TopicLogSync.
pub trait SessionBuilder<S, M> {
    fn build(
        cfg: &SyncCfg,
        stores: [S; 2],
        scopes: [Logs<LogIdT>; 2],
        a: (SimSink<M>, SimStream<M>),
        b: (SimSink<M>, SimStream<M>),
    ) -> ([SessFut; 2], Box<dyn FnMut() -> [Vec<Evt>; 2]>);
}

impl<S> SessionBuilder<S, LogSyncMessage<LogIdT>> for ()
where
    S: LogStore<Operation<SimExt>, VerifyingKey, LogIdT, SeqNum, Hash> + Clone + Send + 'static,
{
    fn build(
        cfg: &SyncCfg,
        stores: [S; 2],
        scopes: [Logs<LogIdT>; 2],
        a: (SimSink<LogSyncMessage<LogIdT>>, SimStream<LogSyncMessage<LogIdT>>),
        b: (SimSink<LogSyncMessage<LogIdT>>, SimStream<LogSyncMessage<LogIdT>>),
    ) -> ([SessFut; 2], Box<dyn FnMut() -> [Vec<Evt>; 2]>) {
        let [sa, sb] = stores;
        let [ca, cb] = scopes;
        let (etx_a, mut erx_a) = broadcast::channel::<LogSyncEvent<SimExt>>(8192);
        let (etx_b, mut erx_b) = broadcast::channel::<LogSyncEvent<SimExt>>(8192);
        let pa: LogSync<LogIdT, SimExt, S, LogSyncEvent<SimExt>> = LogSync::new_with_capacity(sa, ca, etx_a, cfg.dedup_capacity);
        let pb: LogSync<LogIdT, SimExt, S, LogSyncEvent<SimExt>> = LogSync::new_with_capacity(sb, cb, etx_b, cfg.dedup_capacity);
        let (mut a_tx, mut a_rx) = a;
        let (mut b_tx, mut b_rx) = b;
        let fa: SessFut = Box::pin(async move { pa.run(&mut a_tx, &mut a_rx).await.map(|_| ()).map_err(|e| e.to_string()) });
        let fb: SessFut = Box::pin(async move { pb.run(&mut b_tx, &mut b_rx).await.map(|_| ()).map_err(|e| e.to_string()) });
        let drain = Box::new(move || {
            let mut va = vec![];
            while let Ok(e) = erx_a.try_recv() {
                va.push(from_log_event(e));
            }
            let mut vb = vec![];
            while let Ok(e) = erx_b.try_recv() {
                vb.push(from_log_event(e));
            }
            [va, vb]
        });
        ([fa, fb], drain)
    }
}

impl<S> SessionBuilder<S, TopicLogSyncMessage<LogIdT, SimExt>> for ()
where
    S: LogStore<Operation<SimExt>, VerifyingKey, LogIdT, SeqNum, Hash>
        + p2panda_store::topics::TopicStore<Topic, VerifyingKey, LogIdT>
        + Clone
        + Send
        + 'static,
{
    fn build(
        cfg: &SyncCfg,
        stores: [S; 2],
        _scopes: [Logs<LogIdT>; 2],
        a: (SimSink<TopicLogSyncMessage<LogIdT, SimExt>>, SimStream<TopicLogSyncMessage<LogIdT, SimExt>>),
        b: (SimSink<TopicLogSyncMessage<LogIdT, SimExt>>, SimStream<TopicLogSyncMessage<LogIdT, SimExt>>),
    ) -> ([SessFut; 2], Box<dyn FnMut() -> [Vec<Evt>; 2]>) {
        let [sa, sb] = stores;
        let (etx_a, mut erx_a) = broadcast::channel::<TopicLogSyncEvent<SimExt>>(8192);
        let (etx_b, mut erx_b) = broadcast::channel::<TopicLogSyncEvent<SimExt>>(8192);
        let pa: TopicLogSync<Topic, S, LogIdT, SimExt> = TopicLogSync::new_with_capacity(topic0(), sa, None, etx_a, cfg.dedup_capacity);
        let pb: TopicLogSync<Topic, S, LogIdT, SimExt> = TopicLogSync::new_with_capacity(topic0(), sb, None, etx_b, cfg.dedup_capacity);
        let (mut a_tx, mut a_rx) = a;
        let (mut b_tx, mut b_rx) = b;
        let fa: SessFut = Box::pin(async move { pa.run(&mut a_tx, &mut a_rx).await.map_err(|e| e.to_string()) });
        let fb: SessFut = Box::pin(async move { pb.run(&mut b_tx, &mut b_rx).await.map_err(|e| e.to_string()) });
        let drain = Box::new(move || {
            let mut va = vec![];
            while let Ok(e) = erx_a.try_recv() {
                va.push(from_topic_event(e));
            }
            let mut vb = vec![];
            while let Ok(e) = erx_b.try_recv() {
                vb.push(from_topic_event(e));
            }
            [va, vb]
        });
        ([fa, fb], drain)
    }
}

fn new_side(name: &'static str, world: &LogWorld, view: Vec<LogView>, partial: bool) -> Side {
    let ops = view_ops(world, &view);
    let scope = scope_of(world, &view, partial);
    Side { name, view, ops, scope, sent: vec![], events: vec![], result: None, blocked_in_send: false, blocked_in_recv: false }
}

fn log_setup(world: &LogWorld, sides: &[Side; 2]) {
    ev!("world: {} authors, {} logs, {} ops", world.keys.len(), world.logs.len(), world.total_ops());
    for s in sides {
        let desc: Vec<String> = s
            .view
            .iter()
            .filter(|v| !v.is_empty())
            .map(|v| {
                let l = &world.logs[v.log_index];
                let inscope = s.scope.get(&l.author).map(|x| x.contains(&l.log_id)).unwrap_or(false);
                format!("{}:{}[{}..{}){}", short_key(&l.author), l.log_id, v.from, v.upto_exclusive, if inscope { "" } else { "(out of scope)" })
            })
            .collect();
        ev!("replica {} holds {}", s.name, if desc.is_empty() { "nothing".to_string() } else { desc.join(" ") });
    }
}

/// Ingest what each side received (real `ingest_operation`) and read back heights.
async fn ingest_and_heights<S>(stores: &[S; 2], sides: &[Side; 2], world: &LogWorld) -> ([BTreeMap<(VerifyingKey, LogIdT), SeqNum>; 2], Vec<String>)
where
    S: p2panda_store::Transaction
        + p2panda_store::operations::OperationStore<Operation<SimExt>, Hash>
        + LogStore<Operation<SimExt>, VerifyingKey, LogIdT, SeqNum, Hash>
        + p2panda_store::topics::TopicStore<Topic, VerifyingKey, LogIdT>,
    <S as LogStore<Operation<SimExt>, VerifyingKey, LogIdT, SeqNum, Hash>>::Error: std::fmt::Debug,
{
    let by_hash = world.by_hash();
    let mut errs = vec![];
    for (i, s) in sides.iter().enumerate() {
        for e in &s.events {
            if let Evt::Op { hash, .. } = e {
                if let Some(op) = by_hash.get(hash) {
                    let r = p2panda_stream::ingest::ingest_operation(&stores[i], op, &op.header.extensions.log_id, &topic0(), op.header.extensions.prune).await;
                    if let Err(err) = r {
                        errs.push(format!("{}: ingest {} failed: {err}", s.name, op_label(op)));
                    }
                }
            }
        }
    }
    let mut all: BTreeMap<VerifyingKey, Vec<LogIdT>> = BTreeMap::new();
    for l in &world.logs {
        let e = all.entry(l.author).or_default();
        if !e.contains(&l.log_id) {
            e.push(l.log_id);
        }
    }
    let ha = simworld::populate::heights(&stores[0], &all).await;
    let hb = simworld::populate::heights(&stores[1], &all).await;
    ([ha, hb], errs)
}

fn setup_world(cfg: &SyncCfg) -> (LogWorld, [Side; 2], Option<Interference>) {
    let world = LogWorld::generate(&cfg.world);
    let va = draw_view(&world, true);
    let vb = draw_view(&world, true);
    let sides = [new_side("A", &world, va, cfg.partial_scope), new_side("B", &world, vb, cfg.partial_scope)];
    log_setup(&world, &sides);
    let interference = if cfg.interference { draw_interference(&world, &sides, cfg.engine) } else { None };
    if let Some(i) = &interference {
        ev!("planned interference: side {} prune {}:{} until {} (delay {})", ["A", "B"][i.side], short_key(&i.author), i.log, i.until, i.delay);
    }
    (world, sides, interference)
}

fn in_scope(side: &Side, op: &Op) -> bool {
    side.scope.get(&op.header.verifying_key).map(|l| l.contains(&op.header.extensions.log_id)).unwrap_or(false)
}

pub fn run_sync<M>(cfg: &SyncCfg) -> Outcome
where
    M: ToWire + Clone + Unpin + 'static,
    (): SessionBuilder<MemStore<DesHooks>, M>,
    (): SessionBuilder<GatedStore<SqliteStore, StepGate>, M>,
{
    match cfg.engine {
        Engine::Des => run_des::<M>(cfg),
        Engine::Step => run_step::<M>(cfg),
    }
}

fn finish_sides<M: ToWire + Clone>(sides: &mut [Side; 2], links: &PairLinks<M>, events: [Vec<Evt>; 2], results: [Option<Result<(), String>>; 2]) -> usize {
    let [ea, eb] = events;
    let [ra, rb] = results;
    let ab = links.ab.borrow();
    let ba = links.ba.borrow();
    sides[0].sent = ab.transcript.iter().map(|m| m.to_wire()).collect();
    sides[1].sent = ba.transcript.iter().map(|m| m.to_wire()).collect();
    sides[0].events = ea;
    sides[1].events = eb;
    sides[0].result = ra;
    sides[1].result = rb;
    sides[0].blocked_in_send = ab.tx_blocked_full;
    sides[1].blocked_in_send = ba.tx_blocked_full;
    sides[0].blocked_in_recv = ba.rx_blocked_empty;
    sides[1].blocked_in_recv = ab.rx_blocked_empty;
    for (s, l) in [(0usize, &ab), (1usize, &ba)] {
        ev!("{} sent: {}", sides[s].name, l.transcript.iter().map(|m| m.to_wire().label()).collect::<Vec<_>>().join(" "));
    }
    for s in sides.iter() {
        ev!("{} events: {}", s.name, s.events.iter().map(|e| e.label()).collect::<Vec<_>>().join(" "));
        ev!("{} result: {:?}", s.name, s.result);
    }
    ab.max_queue.max(ba.max_queue)
}

fn run_des<M>(cfg: &SyncCfg) -> Outcome
where
    M: ToWire + Clone + Unpin + 'static,
    (): SessionBuilder<MemStore<DesHooks>, M>,
{
    let (world, mut sides, interference) = setup_world(cfg);
    let cfg2 = cfg.clone();
    let interf2 = interference.clone();
    let world2 = world.clone();
    let sides_ref = &mut sides;
    let mut hang = false;
    let mut applied = false;
    let mut heights_after = None;
    let mut ingest_errors = vec![];
    let mut max_queue = 0;
    let links_out: Rc<RefCell<Option<PairLinks<M>>>> = Rc::new(RefCell::new(None));
    let links_out2 = links_out.clone();
    let shared: Rc<RefCell<(Option<Result<(), String>>, Option<Result<(), String>>)>> = Rc::new(RefCell::new((None, None)));
    let shared2 = shared.clone();
    let drain_slot: Rc<RefCell<Option<Box<dyn FnMut() -> [Vec<Evt>; 2]>>>> = Rc::new(RefCell::new(None));
    let drain_slot2 = drain_slot.clone();
    let applied_flag = Rc::new(std::cell::Cell::new(false));
    let applied_flag2 = applied_flag.clone();
    let stores_slot: Rc<RefCell<Option<[MemStore<DesHooks>; 2]>>> = Rc::new(RefCell::new(None));
    let stores_slot2 = stores_slot.clone();
    let ops_a = sides_ref[0].ops.clone();
    let ops_b = sides_ref[1].ops.clone();
    let scope_a = sides_ref[0].scope.clone();
    let scope_b = sides_ref[1].scope.clone();

    let r = des::run(move || async move {
        let hooks = DesHooks { latency: true };
        let sa = MemStore::with_hooks(DesHooks { latency: false });
        let sb = MemStore::with_hooks(DesHooks { latency: false });
        let t = topic0();
        let sca = scope_a.clone();
        let scb = scope_b.clone();
        populate(&sa, &ops_a, &t, |o| sca.get(&o.header.verifying_key).map(|l| l.contains(&o.header.extensions.log_id)).unwrap_or(false)).await;
        populate(&sb, &ops_b, &t, |o| scb.get(&o.header.verifying_key).map(|l| l.contains(&o.header.extensions.log_id)).unwrap_or(false)).await;
        // Same tables, now with latency hooks.
        let sa = MemStore { inner: sa.inner.clone(), sem: sa.sem.clone(), hooks: hooks.clone() };
        let sb = MemStore { inner: sb.inner.clone(), sem: sb.sem.clone(), hooks: hooks.clone() };
        *stores_slot2.borrow_mut() = Some([sa.clone(), sb.clone()]);

        let lc = link_cfg(&cfg2);
        let (a_tx, b_rx) = link::<M>("a->b", lc.clone());
        let (b_tx, a_rx) = link::<M>("b->a", lc);
        *links_out2.borrow_mut() = Some(PairLinks { ab: a_tx.link.clone(), ba: b_tx.link.clone() });
        let ([fa, fb], drain) = make_sessions::<MemStore<DesHooks>, M>(&cfg2, [sa.clone(), sb.clone()], [scope_a, scope_b], (a_tx, a_rx), (b_tx, b_rx));
        *drain_slot2.borrow_mut() = Some(drain);
        let sh_a = shared2.clone();
        let sh_b = shared2.clone();
        let ha = des::spawn(async move {
            let r = fa.await;
            sh_a.borrow_mut().0 = Some(r);
        });
        let hb = des::spawn(async move {
            let r = fb.await;
            sh_b.borrow_mut().1 = Some(r);
        });
        if let Some(i) = interf2 {
            let store = [sa.clone(), sb.clone()][i.side].clone();
            let flag = applied_flag2.clone();
            des::spawn(async move {
                tokio::time::sleep(std::time::Duration::from_micros(i.delay)).await;
                let n = <MemStore<DesHooks> as LogStore<Operation<SimExt>, VerifyingKey, LogIdT, SeqNum, Hash>>::prune_entries(&store, &i.author, &i.log, &i.until).await.unwrap_or(0);
                if n > 0 {
                    ctx::fault("concurrent_prune");
                    flag.set(true);
                }
                ev!("interference applied at t={}us: pruned {} entries", des::now_us(), n);
            });
        }
        let _ = ha.await;
        let _ = hb.await;
    });
    if r.is_err() {
        hang = true;
    }
    applied |= applied_flag.get();
    let links = links_out.borrow_mut().take();
    let results = {
        let s = shared.borrow();
        [s.0.clone(), s.1.clone()]
    };
    let events = match drain_slot.borrow_mut().as_mut() {
        Some(d) => d(),
        None => [vec![], vec![]],
    };
    if let Some(links) = &links {
        max_queue = finish_sides(sides_ref, links, events, results);
    }
    // Post-phase: ingest what was received and compare heights (only for completed sessions).
    if !hang && sides[0].result == Some(Ok(())) && sides[1].result == Some(Ok(())) {
        if let Some(stores) = stores_slot.borrow_mut().take() {
            let stores = [
                MemStore { inner: stores[0].inner.clone(), sem: stores[0].sem.clone(), hooks: DesHooks { latency: false } },
                MemStore { inner: stores[1].inner.clone(), sem: stores[1].sem.clone(), hooks: DesHooks { latency: false } },
            ];
            let sides_r = &sides;
            let world_r = &world2;
            if let Ok((h, e)) = des::run(move || async move { ingest_and_heights(&stores, sides_r, world_r).await }) {
                heights_after = Some(h);
                ingest_errors = e;
            }
        }
    }
    Outcome { world, sides, hang, stall: None, interference, interference_applied: applied, heights_after, ingest_errors, max_queue }
}

fn run_step<M>(cfg: &SyncCfg) -> Outcome
where
    M: ToWire + Clone + Unpin + 'static,
    (): SessionBuilder<GatedStore<SqliteStore, StepGate>, M>,
{
    let (world, mut sides, interference) = setup_world(cfg);
    let cfg2 = cfg.clone();
    let interf2 = interference.clone();
    let world2 = world.clone();
    let (hang, stall, applied, heights_after, ingest_errors, max_queue) = stepexec::block_on(async {
        let sa = sqlite_memory().await;
        let sb = sqlite_memory().await;
        let t = topic0();
        {
            let sca = &sides[0].scope;
            let scb = &sides[1].scope;
            populate(&sa, &sides[0].ops, &t, |o| sca.get(&o.header.verifying_key).map(|l| l.contains(&o.header.extensions.log_id)).unwrap_or(false)).await;
            populate(&sb, &sides[1].ops, &t, |o| scb.get(&o.header.verifying_key).map(|l| l.contains(&o.header.extensions.log_id)).unwrap_or(false)).await;
        }
        let ga = GatedStore::new(sa.clone(), StepGate { den: 2 });
        let gb = GatedStore::new(sb.clone(), StepGate { den: 2 });
        let lc = link_cfg(&cfg2);
        let (a_tx, b_rx) = link::<M>("a->b", lc.clone());
        let (b_tx, a_rx) = link::<M>("b->a", lc);
        let links = PairLinks { ab: a_tx.link.clone(), ba: b_tx.link.clone() };
        let ([fa, fb], mut drain) = make_sessions::<GatedStore<SqliteStore, StepGate>, M>(&cfg2, [ga, gb], [sides[0].scope.clone(), sides[1].scope.clone()], (a_tx, a_rx), (b_tx, b_rx));
        let res: Rc<RefCell<[Option<Result<(), String>>; 2]>> = Rc::new(RefCell::new([None, None]));
        let mut ex = StepExec::new();
        let r0 = res.clone();
        let r1 = res.clone();
        ex.add("A", Policy::Gated, async move {
            let r = fa.await;
            r0.borrow_mut()[0] = Some(r);
        });
        ex.add("B", Policy::Gated, async move {
            let r = fb.await;
            r1.borrow_mut()[1] = Some(r);
        });
        let applied = Rc::new(std::cell::Cell::new(false));
        if let Some(i) = interf2 {
            let store = [sa.clone(), sb.clone()][i.side].clone();
            let flag = applied.clone();
            ex.add("pruner", Policy::ForeignDefault, async move {
                for _ in 0..i.delay {
                    stepexec::gate().await;
                }
                let n = <SqliteStore as LogStore<Operation<SimExt>, VerifyingKey, LogIdT, SeqNum, Hash>>::prune_entries(&store, &i.author, &i.log, &i.until).await.unwrap_or(0);
                if n > 0 {
                    ctx::fault("concurrent_prune");
                    flag.set(true);
                }
                ev!("interference applied: pruned {} entries", n);
            });
        }
        let mut stall = None;
        let mut steps = 0u64;
        loop {
            match ex.step().await {
                Ok(stepexec::Step::Quiescent) => break,
                Ok(stepexec::Step::Ran { .. }) | Ok(stepexec::Step::Cancelled { .. }) => {
                    steps += 1;
                    if steps > 200_000 {
                        stall = Some("step budget exhausted".to_string());
                        break;
                    }
                }
                Err(s) => {
                    stall = Some(format!("foreign-wait watchdog in activity {}", s.name));
                    break;
                }
            }
        }
        let hang = stall.is_none() && (ex.is_alive(0) || ex.is_alive(1));
        let events = drain();
        let results = res.borrow().clone();
        let max_queue = finish_sides(&mut sides, &links, events, results);
        drop(ex);
        let mut heights_after = None;
        let mut ingest_errors = vec![];
        if !hang && stall.is_none() && sides[0].result == Some(Ok(())) && sides[1].result == Some(Ok(())) {
            let (h, e) = ingest_and_heights(&[sa.clone(), sb.clone()], &sides, &world2).await;
            heights_after = Some(h);
            ingest_errors = e;
        }
        sa.pool().close().await;
        sb.pool().close().await;
        (hang, stall, applied.get(), heights_after, ingest_errors, max_queue)
    });
    Outcome { world, sides, hang, stall, interference, interference_applied: applied, heights_after, ingest_errors, max_queue }
}

// ------------------------------------------------------------------------------------------------
// Oracles shared by C19 / C20 / C21
// ------------------------------------------------------------------------------------------------

/// What `receiver` must be sent by `sender` according to C19.
pub fn expected_received(sender: &Side, receiver: &Side) -> Vec<(Hash, VerifyingKey, LogIdT, SeqNum)> {
    // Receiver's Have = heights of its in-scope logs.
    let mut have: BTreeMap<(VerifyingKey, LogIdT), SeqNum> = BTreeMap::new();
    for o in &receiver.ops {
        if in_scope(receiver, o) {
            let e = have.entry((o.header.verifying_key, o.header.extensions.log_id)).or_insert(0);
            *e = (*e).max(o.header.seq_num);
        }
    }
    let mut out = vec![];
    for o in &sender.ops {
        if !in_scope(sender, o) {
            continue;
        }
        let k = (o.header.verifying_key, o.header.extensions.log_id);
        let wanted = match have.get(&k) {
            None => true,
            Some(h) => o.header.seq_num > *h,
        };
        if wanted {
            out.push((o.hash, k.0, k.1, o.header.seq_num));
        }
    }
    out
}

/// C20 grammar of one side's sync-phase transcript. Returns Err(clause, detail).
pub fn check_grammar(sent: &[Wire], completed: bool) -> Result<(), (&'static str, String)> {
    let sync: Vec<&Wire> = sent.iter().filter(|w| !matches!(w, Wire::Live { .. } | Wire::Close)).collect();
    let labels = || sync.iter().map(|w| w.label()).collect::<Vec<_>>().join(" ");
    if sync.is_empty() {
        return if completed { Err(("no-have", "completed session sent nothing".into())) } else { Ok(()) };
    }
    if !matches!(sync[0], Wire::Have(_)) {
        return Err(("first-not-have", labels()));
    }
    let dones = sync.iter().filter(|w| matches!(w, Wire::Done)).count();
    if dones > 1 {
        return Err(("done-twice", labels()));
    }
    if let Some(pos) = sync.iter().position(|w| matches!(w, Wire::Done)) {
        if pos + 1 != sync.len() {
            return Err(("message-after-done", labels()));
        }
    } else if completed {
        return Err(("no-done", labels()));
    }
    if sync.len() >= 2 {
        match sync[1] {
            Wire::Done => {}
            Wire::PreSync { .. } => {
                for w in &sync[2..] {
                    if !matches!(w, Wire::Op { .. } | Wire::Done) {
                        return Err(("unexpected-in-sync", labels()));
                    }
                }
            }
            _ => return Err(("second-not-presync-or-done", labels())),
        }
    }
    Ok(())
}

pub fn scope_set(side: &Side) -> BTreeSet<(VerifyingKey, LogIdT)> {
    side.scope.iter().flat_map(|(a, ls)| ls.iter().map(move |l| (*a, *l))).collect()
}
