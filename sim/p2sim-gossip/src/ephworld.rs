//! World shared by C16 and C17: real `EphemeralStreamPublisher`s and one real
//! `EphemeralStreamSubscription` on top of a real `GossipHandle` / `GossipSubscription`, whose
//! channels end in the harness (the overlay).
//!
//! Two phases per run. Phase 1 (`stepexec::block_on`, real-time runtime): the real `AddressBook`
//! (ractor actor over SQLite on its own thread) and the probe manager are spawned, the `GossipHandle`
//! is obtained once through the slow path of `Gossip::stream`, the SQLite pool is closed again.
//! Phase 2 (DES, paused clock, no foreign thread active): publishes, overlay deliveries with faults,
//! wall-clock changes and polls of the subscription in choice-stream order.

use std::cell::RefCell;
use std::collections::VecDeque;
use std::future::{Future, poll_fn};
use std::pin::Pin;
use std::rc::Rc;
use std::sync::atomic::{AtomicBool, Ordering::SeqCst};
use std::sync::{Arc, Mutex};
use std::task::{Context, Poll, Wake, Waker};
use std::time::Duration;

use futures_util::Stream;
use p2panda::streams::{EphemeralMessage, EphemeralStreamPublisher, EphemeralStreamSubscription};
use p2panda::verif_ephemeral::{OperationForge, ephemeral_stream};
use p2panda_core::{Topic, VerifyingKey};
use p2panda_net::gossip::{Gossip, GossipHandle};
use p2panda_store::SqliteStore;
use simcore::libc_seams::{set_wall_us, wall_us};
use simcore::{ctx, ev, stepexec, violation};
use simworld::logworld::{signing_key, topic};
use tokio::sync::{broadcast, mpsc};

use crate::wire::{self, Body, Content};
use crate::world;

pub const OUTSIDER: u64 = 77;

#[allow(dead_code)] // `gossip` is only kept alive
pub struct Parts {
    pub gossip: Gossip,
    pub handle: GossipHandle,
    pub forges: Vec<OperationForge>,
    pub to_rx: mpsc::Receiver<Vec<u8>>,
    pub from_tx: broadcast::Sender<Vec<u8>>,
    pub topic: Topic,
}

/// Phase 1: everything that needs the real-time runtime and foreign threads.
pub fn phase1(n_keys: usize, bcast_cap: usize) -> Result<Parts, String> {
    stepexec::block_on(async move {
        let w = world::setup(256, bcast_cap).await?;
        let t = topic(0);
        let handle = w.gossip.stream(t).await.map_err(|e| format!("Gossip::stream: {e}"))?;
        let mut forges = vec![];
        for i in 0..n_keys {
            // A pool that never connects: only `forge.signing_key()` is used by ephemeral streams.
            let pool = p2panda_store::sqlite::SqlitePool::connect_lazy("sqlite::memory:").map_err(|e| format!("connect_lazy: {e}"))?;
            forges.push(OperationForge::from_signing_key(signing_key(i as u64), SqliteStore::from_pool(pool)));
        }
        let ov = {
            let mut p = w.probe.lock().expect("probe state");
            if p.overlays.len() != 1 {
                return Err(format!("expected exactly one Subscribe at the probe, log {:?}", p.log));
            }
            p.overlays.remove(0)
        };
        w.store.pool().close().await;
        let world::World { gossip, book, .. } = w;
        drop(book);
        Ok(Parts { gossip, handle, forges, to_rx: ov.to_gossip_rx, from_tx: ov.from_gossip_tx, topic: t })
    })
}

// -------------------------------------------------------------------------------------------------
// Model of the one subscription under test
// -------------------------------------------------------------------------------------------------

/// One frame the overlay put into the from-gossip broadcast channel.
pub struct Item {
    pub id: usize,
    /// The harness' own verdict (decode + version + signature of the claimed author).
    pub verdict: Option<Content>,
    /// How the overlay produced the frame (stable names, used in signatures).
    pub kind: &'static str,
}

/// Exact model of the broadcast receiver inside the subscription: the frames sent and not yet
/// consumed (at most `cap`, older ones are overwritten and reported once as `Lagged`).
pub struct SubModel {
    pub pending: VecDeque<Rc<Item>>,
    pub lagged: u64,
    pub cap: usize,
}

impl SubModel {
    pub fn has_valid_pending(&self) -> bool {
        self.pending.iter().any(|i| i.verdict.is_some())
    }
}

#[derive(Clone, Copy, Debug, PartialEq, Eq)]
pub enum Consumed {
    Nothing,
    Invalid,
    Lagged,
}

#[derive(Clone, Copy, Debug)]
pub struct PendingInfo {
    pub registered: bool,
    pub consumed: Consumed,
}

pub enum Outcome {
    Item,
    End,
    Pending,
}

struct Fwd {
    to: Mutex<Option<Waker>>,
    woken: AtomicBool,
}

impl Wake for Fwd {
    fn wake(self: Arc<Self>) {
        self.wake_by_ref()
    }
    fn wake_by_ref(self: &Arc<Self>) {
        self.woken.store(true, SeqCst);
        if let Some(w) = self.to.lock().expect("fwd").as_ref() {
            w.wake_by_ref();
        }
    }
}

pub struct Consumer {
    pub sub: EphemeralStreamSubscription<Body>,
    pub model: Rc<RefCell<SubModel>>,
    pub from_tx: broadcast::Sender<Vec<u8>>,
    pub topic: Topic,
    /// (author, physical timestamp, body) of every yielded message, in order.
    pub yielded: Vec<(VerifyingKey, u64, Vec<u8>)>,
    pub last_pending: Option<PendingInfo>,
    pub polls: u64,
}

impl Consumer {
    /// Poll the real subscription exactly once with a fresh waker (forwarding to `forward`), then
    /// bring the model up to date from the channel's own accounting and check what came out.
    pub fn poll(&mut self, forward: Option<&Waker>) -> Outcome {
        self.poll_with(forward).0
    }

    fn poll_with(&mut self, forward: Option<&Waker>) -> (Outcome, Arc<Fwd>) {
        let fwd = Arc::new(Fwd { to: Mutex::new(forward.cloned()), woken: AtomicBool::new(false) });
        let waker = Waker::from(fwd.clone());
        let mut cx = Context::from_waker(&waker);
        self.polls += 1;
        let r = Pin::new(&mut self.sub).poll_next(&mut cx);
        // A retained clone of the waker = somebody registered it.
        let registered = Arc::strong_count(&fwd) > 2;
        drop(waker);

        let mut m = self.model.borrow_mut();
        let real_len = self.from_tx.len();
        // Every poll reaches the broadcast receiver, which reports an overflow first.
        let lag_consumed = m.lagged > 0;
        let lag_n = m.lagged;
        m.lagged = 0;
        let k = m.pending.len().checked_sub(real_len).expect("harness: model holds fewer frames than the broadcast channel");
        let consumed: Vec<Rc<Item>> = m.pending.drain(..k).collect();
        drop(m);
        if lag_consumed {
            ctx::probe("lagged_consumed");
        }
        if consumed.iter().any(|i| i.verdict.is_none()) {
            ctx::probe("invalid_frame_skipped");
        }

        let outcome = match r {
            Poll::Ready(Some(msg)) => {
                self.last_pending = None;
                self.check_yield(&msg, &consumed, lag_consumed);
                Outcome::Item
            }
            Poll::Ready(None) => {
                ev!("  poll #{} -> stream ended", self.polls);
                self.lost(&consumed, "stream ended");
                Outcome::End
            }
            Poll::Pending => {
                let what = if !consumed.is_empty() {
                    Consumed::Invalid
                } else if lag_consumed {
                    Consumed::Lagged
                } else {
                    Consumed::Nothing
                };
                self.lost(&consumed, "Pending");
                let desc = match what {
                    Consumed::Nothing => "nothing consumed".to_string(),
                    Consumed::Lagged => format!("consumed Lagged({lag_n})"),
                    Consumed::Invalid => format!("consumed {}{}", if lag_consumed { "Lagged + " } else { "" }, consumed.iter().map(|i| format!("#{} {}", i.id, i.kind)).collect::<Vec<_>>().join(", ")),
                };
                ev!("  poll #{} -> Pending ({desc}; waker {})", self.polls, if registered { "registered" } else { "NOT registered" });
                if !registered {
                    ctx::probe("pending_returned_without_waker_registration");
                }
                self.last_pending = Some(PendingInfo { registered, consumed: what });
                Outcome::Pending
            }
        };
        (outcome, fwd)
    }

    /// Valid frames among the consumed ones which were not yielded.
    fn lost(&self, consumed: &[Rc<Item>], how: &str) {
        for i in consumed {
            if let Some(c) = &i.verdict {
                violation("valid-message-consumed-but-not-yielded", "EphemeralStreamSubscription::poll_next", format!("frame #{} ({}: {}) was taken from the gossip subscription by a poll that returned {how}", i.id, i.kind, wire::show(c)));
            }
        }
    }

    fn check_yield(&mut self, msg: &EphemeralMessage<Body>, consumed: &[Rc<Item>], lag_consumed: bool) {
        let got = (msg.author(), msg.timestamp(), msg.body().to_vec());
        ev!("  poll #{} -> yielded {}@{} {:?}{}", self.polls, wire::short(&got.0), got.1, String::from_utf8_lossy(&got.2), if lag_consumed { " (after Lagged)" } else { "" });
        self.yielded.push(got.clone());
        if msg.topic() != self.topic {
            violation("yielded-message-wrong-topic", "EphemeralMessage::topic", format!("{:?}", msg.topic()));
        }
        let Some((last, before)) = consumed.split_last() else {
            violation("yielded-message-never-delivered", "no frame was consumed by the poll that yielded", format!("{got:?}"));
            return;
        };
        self.lost(before, "a later frame");
        match &last.verdict {
            None => {
                // The overlay delivered a frame that does not verify for its claimed author (or
                // does not decode / has another version), and it came out of the subscription.
                violation("invalid-frame-yielded", last.kind, format!("frame #{} ({}) is not authentic but was yielded as {}@{} {:?}", last.id, last.kind, wire::short(&got.0), got.1, String::from_utf8_lossy(&got.2)));
            }
            Some(c) => {
                if c.visible() != got {
                    violation("yielded-message-differs-from-frame", last.kind, format!("frame #{} says {} but the subscription reported {}@{} {:?}", last.id, wire::show(c), wire::short(&got.0), got.1, String::from_utf8_lossy(&got.2)));
                }
            }
        }
    }

    /// One `next().await` of a task that is only woken through the waker it handed to
    /// `poll_next` (and by the timeout).
    ///
    /// Not `tokio::time::timeout(bound, next())`: that polls the inner future once more when the
    /// deadline fires, which is exactly the outside help a stalled subscription would need. Here
    /// the subscription is polled at the start of the call and afterwards only when the waker it
    /// was given has been woken; the deadline only ends the observation.
    pub async fn next_bounded(&mut self, bound: Duration) -> Result<Outcome, ()> {
        let sleep = tokio::time::sleep(bound);
        tokio::pin!(sleep);
        let mut last: Option<Arc<Fwd>> = None;
        poll_fn(|cx| {
            let woken = last.as_ref().map(|f| f.woken.load(SeqCst)).unwrap_or(true);
            if woken {
                match self.poll_with(Some(cx.waker())) {
                    (Outcome::Pending, fwd) => last = Some(fwd),
                    (o, _) => return Poll::Ready(Ok(o)),
                }
            }
            if sleep.as_mut().poll(cx).is_ready() {
                return Poll::Ready(Err(()));
            }
            Poll::Pending
        })
        .await
    }
}

// -------------------------------------------------------------------------------------------------
// Publishers and the overlay
// -------------------------------------------------------------------------------------------------

/// Publisher objects which share one `HybridTimestamp` (a publisher and its clones).
pub struct Family {
    pub key: u64,
    pub last: Option<(u64, u64)>,
    pub frames: Vec<Vec<u8>>,
}

pub struct Publisher {
    pub family: usize,
    pub p: EphemeralStreamPublisher<Body>,
}

/// A frame a publisher handed to the overlay and the overlay has not delivered yet.
pub struct PoolFrame {
    pub raw: Vec<u8>,
    pub content: Content,
    pub key: u64,
}

pub struct Eph {
    pub parts: Parts,
    pub families: Vec<Family>,
    pub pubs: Vec<Publisher>,
    pub pool: VecDeque<PoolFrame>,
    /// Valid frames already delivered once (material for duplicates and tampering).
    pub delivered_valid: Vec<PoolFrame>,
    pub model: Rc<RefCell<SubModel>>,
    pub next_item: Rc<RefCell<usize>>,
    pub published: usize,
    /// Wall clock at the previous publish of each family (for attribution).
    pub clock_at_last_publish: Vec<Option<u64>>,
}

impl Eph {
    /// Create the first publisher / subscription pair; the subscription is the one under test.
    pub fn new(parts: Parts, cap: usize) -> (Eph, Consumer) {
        let model = Rc::new(RefCell::new(SubModel { pending: VecDeque::new(), lagged: 0, cap }));
        let mut e = Eph { parts, families: vec![], pubs: vec![], pool: VecDeque::new(), delivered_valid: vec![], model: model.clone(), next_item: Rc::new(RefCell::new(0)), published: 0, clock_at_last_publish: vec![] };
        let sub = e.add_publisher(0).expect("first subscription");
        let c = Consumer { sub, model, from_tx: e.parts.from_tx.clone(), topic: e.parts.topic, yielded: vec![], last_pending: None, polls: 0 };
        (e, c)
    }

    /// `ephemeral_stream(topic, forge(key), handle)`: a new publisher with its own timestamp.
    pub fn add_publisher(&mut self, key: u64) -> Option<EphemeralStreamSubscription<Body>> {
        let forge = self.parts.forges[key as usize].clone();
        let (p, sub) = ephemeral_stream::<Body>(self.parts.topic, forge, self.parts.handle.clone());
        self.families.push(Family { key, last: None, frames: vec![] });
        self.clock_at_last_publish.push(None);
        self.pubs.push(Publisher { family: self.families.len() - 1, p });
        ev!("publisher {} created (key {} = {}, own timestamp) at wall clock {}", self.pubs.len() - 1, key, wire::short(&signing_key(key).verifying_key()), wall_us());
        Some(sub)
    }

    pub fn clone_publisher(&mut self, i: usize) {
        let p = self.pubs[i].p.clone();
        let family = self.pubs[i].family;
        self.pubs.push(Publisher { family, p });
        ev!("publisher {} = clone of publisher {i} (shares its timestamp)", self.pubs.len() - 1);
    }

    /// Publish through the real publisher, pick the frame up at the to-gossip end and check the
    /// publish-side clauses of C16.
    pub async fn publish(&mut self, i: usize, body: Vec<u8>) {
        let fam = self.pubs[i].family;
        let key = self.families[fam].key;
        let now = wall_us();
        let r = tokio::time::timeout(Duration::from_secs(5), self.pubs[i].p.publish(Body::from(body.clone()))).await;
        self.published += 1;
        match r {
            Err(_) => {
                violation("publish-hangs", "EphemeralStreamPublisher::publish", "no progress for 5 simulated seconds with room in the to-gossip channel".into());
                return;
            }
            Ok(Err(e)) => {
                violation("publish-failed", "EphemeralStreamPublisher::publish", format!("{e}"));
                return;
            }
            Ok(Ok(())) => {}
        }
        let raw = match self.parts.to_rx.try_recv() {
            Ok(f) => f,
            Err(e) => {
                violation("publish-without-frame", "GossipHandle::publish", format!("publish returned Ok but nothing arrived at the overlay: {e}"));
                return;
            }
        };
        let vk = signing_key(key).verifying_key();
        let Some(c) = wire::judge(&raw) else {
            violation("published-frame-not-authentic", "EphemeralStreamPublisher::publish", format!("frame of publisher {i} does not decode / verify: {} bytes", raw.len()));
            return;
        };
        let prev_clock = self.clock_at_last_publish[fam];
        let clock_moved = match prev_clock {
            None => "first publish",
            Some(p) if now < p => "wall clock moved back since the previous publish",
            Some(p) if now == p => "wall clock did not advance since the previous publish",
            Some(_) => "wall clock advanced since the previous publish",
        };
        ev!("publish #{} by publisher {i} at wall clock {now}: {} ({} bytes)", self.published, wire::show(&c), raw.len());
        if c.author != vk || c.body != body {
            violation("published-frame-wrong-content", "EphemeralStreamPublisher::publish", format!("published {:?} with key {}, frame says {}", String::from_utf8_lossy(&body), wire::short(&vk), wire::show(&c)));
        }
        let f = &mut self.families[fam];
        if let Some(last) = f.last {
            if (c.ts, c.logical) <= last {
                violation("timestamp-not-strictly-increasing", clock_moved, format!("publisher {i}: previous frame carried {}.{}, this one {}.{} (wall clock now {now}, at previous publish {prev_clock:?})", last.0, last.1, c.ts, c.logical));
            }
        }
        if f.frames.contains(&raw) {
            violation("byte-identical-frames", clock_moved, format!("publisher {i} produced the same {} bytes twice: {}", raw.len(), wire::show(&c)));
        }
        f.last = Some((c.ts, c.logical));
        f.frames.push(raw.clone());
        for (j, g) in self.families.iter().enumerate() {
            if j != fam && g.frames.contains(&raw) {
                if g.key == key {
                    // Two publisher objects of one node (two `ephemeral_stream` calls): outside
                    // "one publisher" of the property text, counted only.
                    ctx::probe("same_key_publishers_identical_frames");
                    ev!("  note: byte-identical to a frame of another publisher object with the same key");
                } else {
                    violation("byte-identical-frames", "publishers with different keys", wire::show(&c));
                }
            }
        }
        self.clock_at_last_publish[fam] = Some(now);
        self.pool.push_back(PoolFrame { raw, content: c, key });
    }

    /// Put a frame into the from-gossip broadcast channel (the overlay "received" it).
    pub fn deliver(&mut self, raw: Vec<u8>, kind: &'static str) {
        deliver_into(&self.parts.from_tx, &self.model, &self.next_item, raw, kind);
    }
}

pub fn deliver_into(from_tx: &broadcast::Sender<Vec<u8>>, model: &Rc<RefCell<SubModel>>, next_item: &Rc<RefCell<usize>>, raw: Vec<u8>, kind: &'static str) {
    let verdict = wire::judge(&raw);
    let id = {
        let mut n = next_item.borrow_mut();
        *n += 1;
        *n
    };
    let desc = match (&verdict, wire::decode(&raw)) {
        (Some(c), _) => format!("valid {}", wire::show(c)),
        (None, Some(d)) => format!("INVALID, claims v{} {}", d.version, wire::show(&d.content)),
        (None, None) => format!("INVALID, undecodable {} bytes", raw.len()),
    };
    let mut m = model.borrow_mut();
    let receivers = from_tx.send(raw).unwrap_or(0);
    m.pending.push_back(Rc::new(Item { id, verdict, kind }));
    let mut overflow = false;
    if m.pending.len() > m.cap {
        m.pending.pop_front();
        m.lagged += 1;
        overflow = true;
    }
    ev!("overlay delivers frame #{id} [{kind}]: {desc}{}", if overflow { " -- channel overflow, oldest queued frame overwritten" } else { "" });
    if overflow {
        ctx::fault("lagged");
    }
    assert_eq!(receivers, 1, "harness: exactly one broadcast receiver (the subscription under test) expected");
    assert_eq!(from_tx.len(), m.pending.len(), "harness: broadcast channel and model disagree on the number of queued frames");
}

// -------------------------------------------------------------------------------------------------
// Frame mutations (the overlay's byzantine repertoire)
// -------------------------------------------------------------------------------------------------

#[derive(Clone, Copy, Debug, PartialEq, Eq)]
pub enum Tamper {
    FlipByte,
    Resign,
    Author,
    BodyField,
    TimestampField,
    Version,
    Undecodable,
    ForeignValid,
}

pub const TAMPERS: [Tamper; 8] = [Tamper::FlipByte, Tamper::Resign, Tamper::Author, Tamper::BodyField, Tamper::TimestampField, Tamper::Version, Tamper::Undecodable, Tamper::ForeignValid];

/// Derive a frame from an authentic one. Returns (bytes, kind name). All kinds but `FlipByte` and
/// `ForeignValid` are invalid by construction (checked); a flipped byte is judged like any frame.
pub fn tamper(base: &PoolFrame, t: Tamper) -> (Vec<u8>, &'static str) {
    let d = wire::decode(&base.raw).expect("base frame decodes");
    // A key that is not the author of the base frame.
    let outsider = signing_key(if base.key == OUTSIDER { OUTSIDER + 1 } else { OUTSIDER });
    let (raw, kind, must_be_invalid): (Vec<u8>, &'static str, bool) = match t {
        Tamper::FlipByte => {
            let mut raw = base.raw.clone();
            let at = ctx::choose("flip.at", raw.len());
            let bit = ctx::choose("flip.bit", 8);
            raw[at] ^= 1 << bit;
            (raw, "tamper.byte", false)
        }
        Tamper::Resign => (wire::build(1, &d.content, &outsider), "tamper.resign", true),
        Tamper::Author => {
            let mut c = d.content.clone();
            c.author = outsider.verifying_key();
            (wire::assemble(1, &c, &d.signature), "tamper.field(author)", true)
        }
        Tamper::BodyField => {
            let mut c = d.content.clone();
            c.body.push(b'!');
            (wire::assemble(1, &c, &d.signature), "tamper.field(body)", true)
        }
        Tamper::TimestampField => {
            let mut c = d.content.clone();
            if ctx::chance("ts.logical", 1, 2) {
                c.logical += 1;
            } else {
                c.ts += 1;
            }
            (wire::assemble(1, &c, &d.signature), "tamper.field(timestamp)", true)
        }
        Tamper::Version => (wire::build(2, &d.content, &signing_key(base.key)), "tamper.version", true),
        Tamper::Undecodable => {
            let raw = match ctx::choose("garbage", 4) {
                0 => vec![],
                1 => base.raw[..base.raw.len() / 2].to_vec(),
                2 => vec![0xff; 12],
                _ => b"hello".to_vec(),
            };
            (raw, "inject.undecodable", true)
        }
        Tamper::ForeignValid => {
            // The outsider takes the content and publishes it as its own: an authentic message of
            // the outsider, which must come out with the outsider as author.
            let mut c = d.content.clone();
            c.author = outsider.verifying_key();
            (wire::build(1, &c, &outsider), "foreign.valid", false)
        }
    };
    if must_be_invalid {
        assert!(wire::judge(&raw).is_none(), "harness: {kind} frame must not verify");
    }
    (raw, kind)
}

/// A synthetic authentic frame by the outsider (material when nothing was published yet).
pub fn synthetic(n: usize) -> PoolFrame {
    let k = signing_key(OUTSIDER);
    let content = Content { author: k.verifying_key(), ts: 1_000 + n as u64, logical: 0, body: format!("x{n}").into_bytes() };
    PoolFrame { raw: wire::build(1, &content, &k), content, key: OUTSIDER }
}

// -------------------------------------------------------------------------------------------------
// Wall clock
// -------------------------------------------------------------------------------------------------

pub const CLOCK_MAX_US: u64 = 8_000_000_000_000_000;

/// Normal passage of time between operations.
pub fn clock_tick() {
    let d = *ctx::pick("clock.tick", &[1u64, 3, 250, 20_000, 1_500_000]);
    set_wall_us((wall_us() + d).min(CLOCK_MAX_US));
}

/// A wall-clock fault (value 0 = plain tick). The fault counted is what the clock actually did.
pub fn clock_fault() {
    let now = wall_us();
    let target = match ctx::choose("clock.fault", 7) {
        0 => {
            clock_tick();
            return;
        }
        1 => now,
        2 => now.saturating_sub(*ctx::pick("clock.back", &[1u64, 2, 1_000, 3_000_000])),
        3 => now.saturating_sub(*ctx::pick("clock.back.far", &[86_400_000_000u64, 31_536_000_000_000, 1_700_000_000_000_000])),
        4 => (now + *ctx::pick("clock.fwd", &[3_600_000_000u64, 31_536_000_000_000, 3_000_000_000_000_000])).min(CLOCK_MAX_US),
        // Just after the UNIX epoch.
        5 => *ctx::pick("clock.abs", &[0u64, 1, 1_000_000]),
        // Exactly the reading at start-up again.
        _ => simcore::libc_seams::EPOCH_US,
    };
    set_wall_us(target);
    if target < now {
        ctx::fault("clock.jump_back");
        ev!("wall clock jumps back by {} us to {target}", now - target);
    } else if target == now {
        ctx::fault("clock.freeze");
        ev!("wall clock frozen at {now}");
    } else {
        ctx::fault("clock.jump_forward");
        ev!("wall clock jumps forward by {} us to {target}", target - now);
    }
}
