pub mod c31;
pub mod c33;
pub mod groupworld;

pub fn all() -> Vec<&'static dyn simcore::Property> {
    vec![&c31::C31, &c33::C33]
}
