//! C02 — Header encoding round-trips and is a deterministic function of the header.
//!
//! A relay A → B → C. A builds and signs operations (Node API extensions: basic through the public
//! constructor, causal by signing a mirror type with the identical CBOR shape and decoding it into
//! the node's type, then signing again with the real type; plus `()` and a derived struct as
//! extension types). Every header travels as bytes inside `LogSyncMessage::Operation`, is decoded at
//! B into a fresh value, inserted into a real in-memory `SqliteStore` (which re-encodes it into the
//! row), read back through `get_operation` / `get_log_entries`, sent on as
//! `LogSyncMessage::Operation(stored header bytes, body)` and decoded at C.
//!
//! The controlled nondeterminism is the std hasher seed (`getrandom` seam): every new
//! `HashSet`/`HashMap` on a thread gets the next key, so each decode yields a value with other
//! hasher keys; mode 1 additionally repeats every decode and executes the whole relay a second time
//! on a fresh thread ("sim-b", other keys) and compares the wire transcripts byte for byte.
//!
//! Oracle at every hop: decode(bytes) == header; decode(bytes).to_bytes() == bytes; hash() == the id
//! A assigned; verify(); stored bytes == the bytes A signed; two executions give identical bytes.

use std::collections::BTreeMap;
use std::fmt::Debug;

use p2panda::operation::{Extensions as NodeExt, LogId as NodeLogId};
use p2panda_core::cbor::{decode_cbor, encode_cbor};
use p2panda_core::{Body, Hash, Header, LogId, Operation, PruneFlag, SeqNum, SigningKey, Timestamp, Topic, VerifyingKey};
use p2panda_store::{SqliteStore, Transaction};
use p2panda_store::logs::LogStore;
use p2panda_store::operations::OperationStore;
use p2panda_sync::protocols::LogSyncMessage;
use serde::de::{Error as SerdeError, SeqAccess, Visitor};
use serde::ser::SerializeSeq;
use serde::{Deserialize, Serialize};
use simcore::rng::{mix, splitmix64};
use simcore::{Budget, Property, Tier, ctx, ev, libc_seams, stepexec, violation};
use simworld::logworld::{SimExt, key_bytes};
use simworld::populate::sqlite_memory;

// ---------------------------------------------------------------------------------------------
// Mirror of the Node Extensions Format: same CBOR shape, `previous` kept in wire order.
// ---------------------------------------------------------------------------------------------

#[derive(Clone, Debug, PartialEq)]
enum MirrorExt {
    Basic { log_id: NodeLogId, timestamp: Timestamp, prune_flag: PruneFlag },
    Causal { log_id: NodeLogId, timestamp: Timestamp, previous: Vec<Hash> },
}

impl Serialize for MirrorExt {
    fn serialize<S: serde::Serializer>(&self, serializer: S) -> Result<S::Ok, S::Error> {
        let mut seq = serializer.serialize_seq(Some(5))?;
        seq.serialize_element(&1u16)?;
        match self {
            MirrorExt::Basic { log_id, timestamp, prune_flag } => {
                seq.serialize_element(&0u16)?;
                seq.serialize_element(log_id)?;
                seq.serialize_element(timestamp)?;
                seq.serialize_element(prune_flag)?;
            }
            MirrorExt::Causal { log_id, timestamp, previous } => {
                seq.serialize_element(&1u16)?;
                seq.serialize_element(log_id)?;
                seq.serialize_element(timestamp)?;
                seq.serialize_element(previous)?;
            }
        }
        seq.end()
    }
}

impl<'de> Deserialize<'de> for MirrorExt {
    fn deserialize<D: serde::Deserializer<'de>>(deserializer: D) -> Result<Self, D::Error> {
        struct V;
        impl<'de> Visitor<'de> for V {
            type Value = MirrorExt;
            fn expecting(&self, f: &mut std::fmt::Formatter) -> std::fmt::Result {
                f.write_str("node extensions sequence")
            }
            fn visit_seq<A: SeqAccess<'de>>(self, mut seq: A) -> Result<MirrorExt, A::Error> {
                let version: u16 = seq.next_element()?.ok_or(SerdeError::custom("version missing"))?;
                if version != 1 {
                    return Err(SerdeError::custom("mirror: unsupported version"));
                }
                let code: u16 = seq.next_element()?.ok_or(SerdeError::custom("code missing"))?;
                let log_id: NodeLogId = seq.next_element()?.ok_or(SerdeError::custom("log id missing"))?;
                let timestamp: Timestamp = seq.next_element()?.ok_or(SerdeError::custom("timestamp missing"))?;
                match code {
                    0 => {
                        let prune_flag: PruneFlag = seq.next_element()?.ok_or(SerdeError::custom("prune flag missing"))?;
                        Ok(MirrorExt::Basic { log_id, timestamp, prune_flag })
                    }
                    1 => {
                        let previous: Vec<Hash> = seq.next_element()?.ok_or(SerdeError::custom("previous missing"))?;
                        Ok(MirrorExt::Causal { log_id, timestamp, previous })
                    }
                    _ => Err(SerdeError::custom("mirror: unsupported variant")),
                }
            }
        }
        deserializer.deserialize_seq(V)
    }
}

// ---------------------------------------------------------------------------------------------
// Workload (plain data: drawn on the simulator thread, executed on any thread)
// ---------------------------------------------------------------------------------------------

#[derive(Clone, Copy, Debug, PartialEq, Eq)]
enum Family {
    Node,
    Unit,
    Struct,
}

#[derive(Clone, Debug)]
enum ExtSpec {
    Unit,
    Struct { log_id: u64, prune: bool },
    NodeBasic { topic: Topic, wall_us: u64, prune: bool },
    NodeCausal { topic: Topic, timestamp: u64, previous: Vec<Hash> },
}

impl ExtSpec {
    fn label(&self) -> String {
        match self {
            ExtSpec::Unit => "ext=()".to_string(),
            ExtSpec::Struct { log_id, prune } => format!("ext=struct{{log {log_id}, prune {prune}}}"),
            ExtSpec::NodeBasic { wall_us, prune, .. } => format!("ext=node-basic{{clock {wall_us}us, prune {prune}}}"),
            ExtSpec::NodeCausal { timestamp, previous, .. } => {
                // The hashes themselves derive from the seed; what matters is their order: rank of each
                // entry in the sorted set.
                let mut sorted = previous.clone();
                sorted.sort();
                let ranks: Vec<String> = previous.iter().map(|h| sorted.iter().position(|x| x == h).unwrap_or(0).to_string()).collect();
                format!("ext=node-causal{{ts {timestamp}, previous in order [{}]}}", ranks.join(" "))
            }
        }
    }
}

#[derive(Clone, Debug)]
struct OpSpec {
    author: usize,
    /// Key of the log within the author (ops with the same key form one backlinked chain).
    chain: u64,
    /// First sequence number of the chain (a log suffix when > 0) and the backlink it then carries.
    base_seq: u32,
    base_backlink: Hash,
    body: Option<Vec<u8>>,
    /// The header keeps payload size/hash but the body does not travel (pruned payload).
    body_withheld: bool,
    ext: ExtSpec,
}

#[derive(Clone, Debug)]
struct Workload {
    seed: u64,
    family: Family,
    keys: Vec<[u8; 32]>,
    ops: Vec<OpSpec>,
    /// Extra decodes of the same bytes at every hop.
    repeats: usize,
}

fn hshort(h: &Hash) -> String {
    h.to_hex()[..6].to_string()
}

fn derived_hash(seed: u64, a: u64, b: u64) -> Hash {
    let mut st = mix(&[seed, 0x6330_32, a, b]);
    let mut bytes = [0u8; 32];
    for chunk in bytes.chunks_mut(8) {
        chunk.copy_from_slice(&splitmix64(&mut st).to_le_bytes());
    }
    Hash::from(bytes)
}

fn derived_body(seed: u64, len: usize) -> Vec<u8> {
    let mut st = mix(&[seed, 0x626f_6479, len as u64]);
    let mut v = Vec::with_capacity(len + 8);
    while v.len() < len {
        v.extend_from_slice(&splitmix64(&mut st).to_le_bytes());
    }
    v.truncate(len);
    v
}

fn draw_workload(mode1: bool) -> Workload {
    let seed = ctx::seed();
    let family = match ctx::choose("ext.family", 6) {
        0..=3 => Family::Node,
        4 => Family::Unit,
        _ => Family::Struct,
    };
    let n_authors = ctx::range("authors", 1, 2);
    let keys: Vec<[u8; 32]> = (0..n_authors).map(|i| key_bytes(seed, i as u64)).collect();
    let n_ops = ctx::range("ops", 1, 5);
    let topics: Vec<Topic> = (0..2).map(|i| Topic::from(key_bytes(seed ^ 0x7470, i))).collect();
    let mut ops = vec![];
    let mut chain_base: BTreeMap<(usize, u64), (u32, Hash)> = BTreeMap::new();
    for i in 0..n_ops {
        let author = ctx::choose("op.author", n_authors);
        let chain = ctx::choose("op.log", 2) as u64;
        let (base_seq, base_backlink) = *chain_base.entry((author, chain)).or_insert_with(|| {
            // Integer-width boundaries of the CBOR encoding.
            let b = *ctx::pick("log.first_seq", &[0u32, 1, 23, 24, 255, 256, 65_535, 65_536, u32::MAX - 8]);
            (b, derived_hash(seed, 0xbac, author as u64 * 16 + chain))
        });
        let body_len = *ctx::pick("op.body_len", &[0usize, 5, 23, 24, 255, 256, 2048, 70_000]);
        let body = if body_len == 0 { None } else { Some(derived_body(seed ^ i as u64, body_len)) };
        let body_withheld = body.is_some() && ctx::chance("op.body_withheld", 1, 5);
        let ext = match family {
            Family::Unit => ExtSpec::Unit,
            Family::Struct => ExtSpec::Struct { log_id: chain, prune: ctx::chance("ext.prune", 1, 4) },
            Family::Node => match ctx::choose("ext.variant", 4) {
                0 => ExtSpec::NodeBasic { topic: topics[chain as usize], wall_us: draw_time(), prune: false },
                1 => ExtSpec::NodeBasic { topic: topics[chain as usize], wall_us: draw_time(), prune: true },
                _ => {
                    let n = ctx::choose("causal.previous", 9);
                    let mut previous: Vec<Hash> = (0..n).map(|j| derived_hash(seed, 0x70, (i * 16 + j) as u64)).collect();
                    ctx::shuffle("causal.order", &mut previous);
                    if ctx::chance("causal.sorted", 1, 4) {
                        previous.sort();
                    }
                    ExtSpec::NodeCausal { topic: topics[chain as usize], timestamp: *ctx::pick("causal.timestamp", &[0u64, 1, 23, 24, 255, 65_536, libc_seams::EPOCH_US, u64::MAX]), previous }
                }
            },
        };
        ops.push(OpSpec { author, chain, base_seq, base_backlink, body, body_withheld, ext });
    }
    let repeats = if mode1 { ctx::range("decode.repeats", 1, 3) } else { 0 };
    Workload { seed, family, keys, ops, repeats }
}

fn draw_time() -> u64 {
    libc_seams::EPOCH_US + *ctx::pick("clock", &[0u64, 1, 999, 1_000, 86_400_000_000, 1 << 40])
}

// ---------------------------------------------------------------------------------------------
// Extension types that can go through the relay
// ---------------------------------------------------------------------------------------------

trait RelayExt: p2panda_core::Extensions + PartialEq + Send + Sync + 'static {
    type L: LogId + Debug + Send + Sync + 'static;
    const NODE: bool;
    fn log_of(&self, chain: u64) -> Self::L;
    /// A's way of building a header value with these extensions (not yet signed by the real type).
    /// Second part: the signed bytes of the mirror type the value was decoded from, if any — a header
    /// as a peer would have signed it whose set happened to iterate in the workload's order.
    fn build(spec: &OpSpec, unsigned: HeaderFields, key: &SigningKey) -> Result<(Header<Self>, Option<Vec<u8>>), String>;
}

#[derive(Clone, Debug)]
struct HeaderFields {
    verifying_key: VerifyingKey,
    payload_size: u32,
    payload_hash: Option<Hash>,
    seq_num: SeqNum,
    backlink: Option<Hash>,
}

fn header_with<E>(f: &HeaderFields, extensions: E) -> Header<E> {
    Header { version: 1, verifying_key: f.verifying_key, signature: None, payload_size: f.payload_size, payload_hash: f.payload_hash, seq_num: f.seq_num, backlink: f.backlink, extensions }
}

impl RelayExt for () {
    type L = u64;
    const NODE: bool = false;
    fn log_of(&self, chain: u64) -> u64 {
        chain
    }
    fn build(_spec: &OpSpec, f: HeaderFields, _key: &SigningKey) -> Result<(Header<()>, Option<Vec<u8>>), String> {
        Ok((header_with(&f, ()), None))
    }
}

impl RelayExt for SimExt {
    type L = u64;
    const NODE: bool = false;
    fn log_of(&self, _chain: u64) -> u64 {
        self.log_id
    }
    fn build(spec: &OpSpec, f: HeaderFields, _key: &SigningKey) -> Result<(Header<SimExt>, Option<Vec<u8>>), String> {
        let ExtSpec::Struct { log_id, prune } = &spec.ext else { return Err("harness: struct spec expected".into()) };
        Ok((header_with(&f, SimExt { log_id: *log_id, prune: *prune }), None))
    }
}

impl RelayExt for NodeExt {
    type L = NodeLogId;
    const NODE: bool = true;
    fn log_of(&self, _chain: u64) -> NodeLogId {
        self.log_id()
    }
    fn build(spec: &OpSpec, f: HeaderFields, key: &SigningKey) -> Result<(Header<NodeExt>, Option<Vec<u8>>), String> {
        match &spec.ext {
            ExtSpec::NodeBasic { topic, wall_us, prune } => {
                // The public constructor: reads the (interposed) wall clock.
                libc_seams::set_wall_us(*wall_us);
                let mut ext = NodeExt::from_topic(*topic);
                if *prune {
                    ext = ext.set_prune_flag(true);
                }
                Ok((header_with(&f, ext), None))
            }
            ExtSpec::NodeCausal { topic, timestamp, previous } => {
                // No public constructor: sign the mirror type, decode into the node's type.
                let mut m = header_with(&f, MirrorExt::Causal { log_id: NodeLogId::from_topic(*topic), timestamp: Timestamp::new(*timestamp), previous: previous.clone() });
                m.sign(key);
                let bytes = m.to_bytes();
                let h = decode_cbor::<Header<NodeExt>, _>(&bytes[..]).map_err(|e| format!("the node's decoder rejects a causal header: {e}"))?;
                Ok((h, Some(bytes)))
            }
            _ => Err("harness: node spec expected".into()),
        }
    }
}

// ---------------------------------------------------------------------------------------------
// One execution of the relay (no simulation context in here: it also runs on a helper thread)
// ---------------------------------------------------------------------------------------------

#[derive(Clone, Debug)]
struct Finding {
    op: usize,
    clause: &'static str,
    site: String,
    detail: String,
}

#[derive(Default)]
struct ExecReport {
    lines: Vec<String>,
    findings: Vec<Finding>,
    /// (operation, label, header bytes, whole wire message bytes)
    transcript: Vec<(usize, String, Vec<u8>, Vec<u8>)>,
    probes: Vec<&'static str>,
    decodes: u64,
    repeated_decodes: u64,
    consequences: BTreeMap<usize, u64>,
}

impl ExecReport {
    fn find(&mut self, op: usize, clause: &'static str, site: String, detail: String) {
        // The first failing clause of an operation is the finding; whatever fails for the same
        // operation further down the relay is its consequence and only counted.
        if self.findings.iter().any(|f| f.op == op) {
            *self.consequences.entry(op).or_insert(0) += 1;
            return;
        }
        // (the detail carries seed-derived bytes: it goes into the violation, not into the trace)
        let hop = detail.split(':').next().unwrap_or("");
        self.lines.push(format!("  !! op {op}: {clause} [{site}] at: {hop}"));
        self.findings.push(Finding { op, clause, site, detail });
    }
}

const SITE_PREVIOUS: &str = "CausalExtensions.previous is serialised in HashSet iteration order";

/// Which part of the header makes two encodings of equal header values differ.
fn attribute<E: RelayExt>(a: &[u8], b: &[u8]) -> String {
    if a == b {
        return "although the encoded bytes are identical".to_string();
    }
    if E::NODE {
        if let (Ok(x), Ok(y)) = (decode_cbor::<Header<MirrorExt>, _>(a), decode_cbor::<Header<MirrorExt>, _>(b)) {
            let core_eq = x.version == y.version && x.verifying_key == y.verifying_key && x.payload_size == y.payload_size && x.payload_hash == y.payload_hash && x.seq_num == y.seq_num && x.backlink == y.backlink;
            if let (MirrorExt::Causal { log_id: l1, timestamp: t1, previous: p1 }, MirrorExt::Causal { log_id: l2, timestamp: t2, previous: p2 }) = (&x.extensions, &y.extensions) {
                let (mut s1, mut s2) = (p1.clone(), p2.clone());
                s1.sort();
                s2.sort();
                if core_eq && l1 == l2 && t1 == t2 && s1 == s2 && p1 != p2 {
                    return SITE_PREVIOUS.to_string();
                }
            }
            if core_eq && x.extensions != y.extensions {
                return "Node extensions encode differently".to_string();
            }
            if !core_eq {
                return "core header fields encode differently".to_string();
            }
            if x.signature != y.signature {
                return "only the signature differs".to_string();
            }
        }
        return "Node header bytes differ (not decodable by the mirror)".to_string();
    }
    "header bytes differ (non-Node extensions)".to_string()
}

fn hex_short(b: &[u8]) -> String {
    let h: String = b.iter().map(|x| format!("{x:02x}")).collect();
    if h.len() > 24 { format!("{}…{} ({} bytes)", &h[..12], &h[h.len() - 8..], b.len()) } else { format!("{h} ({} bytes)", b.len()) }
}

struct Signed<E> {
    idx: usize,
    chain: u64,
    header: Header<E>,
    bytes: Vec<u8>,
    id: Hash,
    body: Option<Vec<u8>>,
}

/// The four per-hop clauses for one decoded value.
fn check_decoded<E: RelayExt>(rep: &mut ExecReport, op: usize, hop: &str, a: &Signed<E>, from_bytes: &[u8], h: &Header<E>) {
    if *h != a.header {
        let (x, y) = (h, &a.header);
        let mut fields: Vec<&str> = vec![];
        let mut values: Vec<String> = vec![];
        macro_rules! cmp {
            ($f:ident) => {
                if x.$f != y.$f {
                    fields.push(stringify!($f));
                    values.push(format!("{}: decoded {:?}, built {:?}", stringify!($f), x.$f, y.$f));
                }
            };
        }
        cmp!(version);
        cmp!(verifying_key);
        cmp!(signature);
        cmp!(payload_size);
        cmp!(payload_hash);
        cmp!(seq_num);
        cmp!(backlink);
        cmp!(extensions);
        rep.find(op, "decode-not-equal", format!("header field(s) [{}] decode to another value", fields.join(", ")), format!("{hop}: {}", values.join("; ")));
    }
    let re = h.to_bytes();
    if re != from_bytes {
        rep.find(op, "reencoding-differs", attribute::<E>(from_bytes, &re), format!("{hop}: the decoded header does not re-encode to the bytes it came from: {}", diff_short(&re, from_bytes)));
    }
    let id = h.hash();
    if id != a.id {
        rep.find(op, "id-changes", attribute::<E>(&a.bytes, &re), format!("{hop}: hash() gives {} but A assigned {}", hshort(&id), hshort(&a.id)));
    }
    if !h.verify() {
        rep.find(op, "verify-fails", attribute::<E>(&a.bytes, &re), format!("{hop}: verify() is false for a header A signed"));
    }
}

fn decode_header<E: RelayExt>(rep: &mut ExecReport, op: usize, hop: &str, bytes: &[u8]) -> Option<Header<E>> {
    rep.decodes += 1;
    match decode_cbor::<Header<E>, _>(bytes) {
        Ok(h) => Some(h),
        Err(e) => {
            rep.find(op, "decode-fails", "header bytes produced by the serialiser are rejected by the deserialiser".to_string(), format!("{hop}: {e}"));
            None
        }
    }
}

/// Send one operation as `LogSyncMessage::Operation` over the wire and take it apart on the other side.
fn over_the_wire<L: LogId>(rep: &mut ExecReport, op: usize, label: String, header_bytes: Vec<u8>, body: Option<Vec<u8>>) -> Option<(Vec<u8>, Option<Vec<u8>>)> {
    let msg: LogSyncMessage<L> = LogSyncMessage::Operation(header_bytes.clone(), body.clone());
    let wire = match encode_cbor(&msg) {
        Ok(w) => w,
        Err(e) => {
            rep.find(op, "wire-encode-fails", "LogSyncMessage::Operation".to_string(), format!("{e}"));
            return None;
        }
    };
    rep.transcript.push((op, label, header_bytes.clone(), wire.clone()));
    match decode_cbor::<LogSyncMessage<L>, _>(&wire[..]) {
        Ok(LogSyncMessage::Operation(h, b)) => {
            if h != header_bytes || b != body {
                rep.find(op, "wire-message-differs", "LogSyncMessage::Operation does not round-trip".to_string(), format!("sent header {} got {}", hex_short(&header_bytes), hex_short(&h)));
            }
            Some((h, b))
        }
        Ok(_) => {
            rep.find(op, "wire-message-differs", "LogSyncMessage::Operation decodes to another variant".to_string(), String::new());
            None
        }
        Err(e) => {
            rep.find(op, "wire-decode-fails", "LogSyncMessage::Operation".to_string(), format!("{e}"));
            None
        }
    }
}

async fn insert<E: RelayExt>(store: &SqliteStore, op: &Operation<E>, log: &E::L) -> Result<bool, String> {
    let permit = store.begin().await.map_err(|e| format!("begin: {e}"))?;
    match <SqliteStore as OperationStore<Operation<E>, Hash>>::insert_operation(store, &op.hash, op, log).await {
        Ok(v) => {
            store.commit(permit).await.map_err(|e| format!("commit: {e}"))?;
            Ok(v)
        }
        Err(e) => {
            let _ = store.rollback(permit).await;
            Err(format!("insert_operation: {e}"))
        }
    }
}

async fn relay<E: RelayExt>(w: &Workload) -> ExecReport {
    let mut rep = ExecReport::default();
    let keys: Vec<SigningKey> = w.keys.iter().map(SigningKey::from_bytes).collect();

    // ---- A: build and sign -------------------------------------------------------------------
    let mut signed: Vec<Signed<E>> = vec![];
    let mut heads: BTreeMap<(usize, u64), (u32, Hash)> = BTreeMap::new();
    for (i, s) in w.ops.iter().enumerate() {
        let key = &keys[s.author];
        let (seq, backlink) = match heads.get(&(s.author, s.chain)) {
            Some((last, id)) => (last + 1, Some(*id)),
            None => (s.base_seq, if s.base_seq == 0 { None } else { Some(s.base_backlink) }),
        };
        let body = s.body.as_ref().map(|b| Body::new(b));
        let fields = HeaderFields { verifying_key: key.verifying_key(), payload_size: body.as_ref().map(|b| b.size()).unwrap_or(0), payload_hash: body.as_ref().map(|b| b.hash()), seq_num: seq, backlink };
        let (mut header, foreign) = match E::build(s, fields, key) {
            Ok(h) => h,
            Err(e) => {
                rep.find(i, "build-fails", "A cannot build the header".to_string(), e);
                continue;
            }
        };
        if let (Some(fb), ExtSpec::NodeCausal { previous, .. }) = (&foreign, &s.ext) {
            // Not part of the relay: a header signed over `previous` in the workload's order (what a
            // peer whose set iterated that way would have published). The property only speaks about
            // headers that pass validation, so: if it verifies it must also round-trip.
            let sorted = previous.windows(2).all(|p| p[0] <= p[1]);
            let ok = header.verify();
            rep.probes.push(match (previous.len() >= 2 && !sorted, ok) {
                (true, true) => "foreign_unsorted_order_verifies",
                (true, false) => "foreign_unsorted_order_rejected",
                (false, true) => "foreign_sorted_order_verifies",
                (false, false) => "foreign_sorted_order_rejected",
            });
            rep.lines.push(format!("  (a peer's header for op {i} signed over previous in workload order{}: verify() after decode = {ok})", if sorted { " = sorted" } else { "" }));
            if ok && header.to_bytes() != *fb {
                rep.find(i, "reencoding-differs", attribute::<E>(fb, &header.to_bytes()), "A: a decoded header verifies but does not re-encode to its bytes".to_string());
            }
        }
        header.sign(key);
        let bytes = header.to_bytes();
        let id = header.hash();
        rep.lines.push(format!("A signs op {i}: author {} log {} seq {seq} backlink {} body {}{} {} -> header of {} bytes", s.author, s.chain, if backlink.is_some() { "yes" } else { "-" }, s.body.as_ref().map(|b| b.len()).unwrap_or(0), if s.body_withheld { " (withheld)" } else { "" }, s.ext.label(), bytes.len()));
        if !header.verify() {
            rep.find(i, "verify-fails", "A: verify() is false right after sign()".to_string(), String::new());
        }
        if p2panda_core::validate_header(&header).is_err() {
            rep.lines.push(format!("  op {i} does not pass validate_header (outside the property), skipped"));
            continue;
        }
        heads.insert((s.author, s.chain), (seq, id));
        let sent_body = if s.body_withheld { None } else { s.body.clone() };
        signed.push(Signed { idx: i, chain: s.chain, header, bytes, id, body: sent_body });
    }

    // ---- A -> B ------------------------------------------------------------------------------
    let store = sqlite_memory().await;
    // (position in `signed`, id B uses, log, author)
    let mut at_b: Vec<(usize, Hash, E::L, VerifyingKey)> = vec![];
    let mut stored_ids: std::collections::BTreeSet<Hash> = std::collections::BTreeSet::new();
    for (pos, a) in signed.iter().enumerate() {
        let i = a.idx;
        let Some((hb, body)) = over_the_wire::<E::L>(&mut rep, i, format!("A->B op {i}"), a.bytes.clone(), a.body.clone()) else { continue };
        let mut first: Option<Header<E>> = None;
        for r in 0..=w.repeats {
            let Some(h) = decode_header::<E>(&mut rep, i, "B receives", &hb) else { break };
            if r > 0 {
                rep.repeated_decodes += 1;
            }
            check_decoded(&mut rep, i, if r == 0 { "B receives" } else { "B decodes the same bytes again" }, a, &hb, &h);
            if let Some(f) = &first {
                if f.to_bytes() != h.to_bytes() {
                    rep.find(i, "reencoding-differs", attribute::<E>(&f.to_bytes(), &h.to_bytes()), "B: two decodes of the same bytes encode differently".to_string());
                }
            } else {
                first = Some(h);
            }
        }
        let Some(header) = first else { continue };
        // As the receiving side of LogSync does: the operation id is the hash of the decoded header.
        let op: Operation<E> = Operation { hash: header.hash(), header, body: body.map(|b| Body::new(&b)) };
        let log = op.header.extensions.log_of(a.chain);
        match insert::<E>(&store, &op, &log).await {
            Ok(true) => {
                stored_ids.insert(op.hash);
            }
            // The workload can sign the same operation twice (unit extensions carry no log id, so
            // two logs of one author may start with byte-identical headers): the second insert is
            // then rightly reported as already present.
            Ok(false) if stored_ids.contains(&op.hash) => {
                ctx::probe("identical_operation_signed_twice");
                rep.lines.push(format!("B: op {i} is byte-identical to an operation stored before (same id), insert reports it as present"));
                continue;
            }
            Ok(false) => rep.find(i, "store-rejects", "insert_operation reports the operation as already present".to_string(), format!("id {}", hshort(&op.hash))),
            Err(e) => {
                rep.find(i, "store-error", "insert_operation".to_string(), e);
                continue;
            }
        }
        rep.lines.push(format!("B stores op {i} under {}", if op.hash == a.id { "the id A assigned" } else { "ANOTHER id than A assigned" }));
        at_b.push((pos, op.hash, log, op.header.verifying_key));
    }

    // ---- B reads back, B -> C ----------------------------------------------------------------
    let mut logs_done: Vec<(VerifyingKey, E::L)> = vec![];
    for (pos, id_b, log, author) in &at_b {
        let a = &signed[*pos];
        let i = a.idx;
        for r in 0..=w.repeats {
            rep.decodes += 1;
            if r > 0 {
                rep.repeated_decodes += 1;
            }
            match <SqliteStore as OperationStore<Operation<E>, Hash>>::get_operation(&store, id_b).await {
                Ok(Some(op)) => {
                    check_decoded(&mut rep, i, if r == 0 { "B get_operation" } else { "B get_operation again" }, a, &a.bytes, &op.header);
                    if op.hash != a.id {
                        rep.find(i, "id-changes", attribute::<E>(&a.bytes, &op.header.to_bytes()), format!("B get_operation: stored under {} but A assigned {}", hshort(&op.hash), hshort(&a.id)));
                    }
                    if op.body.as_ref().map(|b| b.to_bytes()) != a.body {
                        rep.find(i, "body-differs", "B get_operation".to_string(), String::new());
                    }
                }
                Ok(None) => rep.find(i, "stored-operation-missing", "get_operation after insert_operation".to_string(), format!("id {}", hshort(id_b))),
                Err(e) => rep.find(i, "store-error", "get_operation".to_string(), format!("{e}")),
            }
        }
        if logs_done.iter().any(|(x, l)| x == author && l == log) {
            continue;
        }
        logs_done.push((*author, log.clone()));
        let entries = match <SqliteStore as LogStore<Operation<E>, VerifyingKey, E::L, SeqNum, Hash>>::get_log_entries(&store, author, log, None, None).await {
            Ok(e) => e.unwrap_or_default(),
            Err(e) => {
                rep.find(i, "store-error", "get_log_entries".to_string(), format!("{e}"));
                continue;
            }
        };
        rep.lines.push(format!("B get_log_entries(author of op {i}, its log): {} entries", entries.len()));
        for (op, raw) in entries {
            rep.decodes += 1;
            // Which of A's operations is this row?
            let Some((pos_j, _, _, _)) = at_b.iter().find(|(_, idb, _, _)| *idb == op.hash) else {
                rep.find(i, "unknown-row", "get_log_entries returns an operation B never stored".to_string(), format!("id {}", hshort(&op.hash)));
                continue;
            };
            let a = &signed[*pos_j];
            let j = a.idx;
            if raw != a.bytes {
                rep.find(j, "stored-bytes-differ", attribute::<E>(&a.bytes, &raw), format!("the row does not hold the bytes A signed: {}", diff_short(&raw, &a.bytes)));
            }
            check_decoded(&mut rep, j, "B get_log_entries", a, &raw, &op.header);
            // Exactly what LogSync puts on the wire: the stored header bytes and the body.
            let Some((hc, body_c)) = over_the_wire::<E::L>(&mut rep, j, format!("B->C op {j}"), raw.clone(), op.body.as_ref().map(|b| b.to_bytes())) else { continue };
            for r in 0..=w.repeats {
                let Some(h) = decode_header::<E>(&mut rep, j, "C receives", &hc) else { break };
                if r > 0 {
                    rep.repeated_decodes += 1;
                }
                check_decoded(&mut rep, j, if r == 0 { "C receives" } else { "C decodes the same bytes again" }, a, &hc, &h);
                if r == 0 {
                    rep.lines.push(format!("C receives op {j}: id {}, verify() {}", if h.hash() == a.id { "as A assigned" } else { "DIFFERS from the one A assigned" }, h.verify()));
                }
            }
            if body_c != a.body {
                rep.find(j, "body-differs", "C receives".to_string(), String::new());
            }
        }
    }
    let cons: Vec<String> = rep.consequences.iter().map(|(op, n)| format!("op {op}: {n}")).collect();
    if !cons.is_empty() {
        rep.lines.push(format!("  further failed checks downstream of a first finding (consequences, not reported separately): {}", cons.join(", ")));
    }
    store.pool().close().await;
    if signed.iter().any(|s| s.header.seq_num > 0) {
        rep.probes.push("backlinked_header");
    }
    rep
}

fn execute(w: &Workload) -> ExecReport {
    let seed = w.seed;
    match w.family {
        Family::Node => stepexec::block_on_seeded(seed, relay::<NodeExt>(w)),
        Family::Unit => stepexec::block_on_seeded(seed, relay::<()>(w)),
        Family::Struct => stepexec::block_on_seeded(seed, relay::<SimExt>(w)),
    }
}

// ---------------------------------------------------------------------------------------------

pub struct C02Prop;
pub static C02: C02Prop = C02Prop;

impl Property for C02Prop {
    fn id(&self) -> &'static str {
        "C02"
    }
    fn level(&self) -> &'static str {
        "exploration"
    }
    fn budget(&self, tier: Tier) -> Budget {
        match tier {
            Tier::Quick => Budget { runs: 6_000, wall_cap_s: 32 },
            Tier::Thorough => Budget { runs: 60_000, wall_cap_s: 330 },
        }
    }
    fn modes(&self) -> u32 {
        2
    }
    fn mode_name(&self, mode: u32) -> &'static str {
        match mode {
            0 => "relay A->B->C, one execution, every hop decodes once (fault-free)",
            _ => "relay executed twice under different hasher keys (second thread), every hop decodes the same bytes 2-4 times",
        }
    }
    fn rule(&self) -> &'static str {
        "one run = 1-5 operations of 1-2 authors in 1-2 logs each (first sequence numbers, body lengths and timestamps on CBOR integer-width boundaries; bodies present / withheld), all with one extension family: Node API extensions (basic, basic+prune through the public constructor; causal with 0-8 previous hashes in seeded order through a mirror type), `()` or a derived struct; relayed A -> wire -> B (decode, SQLite insert, get_operation, get_log_entries) -> wire -> C; mode 1 repeats every decode 1-3 more times and re-executes the whole relay on a second thread whose HashSet hasher keys differ; a run is non-trivial if at least one operation reached C; distinct = distinct trace fingerprint"
    }
    fn components_real(&self) -> Vec<&'static str> {
        vec![
            "p2panda_core Header Serialize/Deserialize (serde.rs), Header::{to_bytes, sign, verify, hash}, validate_header",
            "p2panda::operation::Extensions (Basic via from_topic/set_prune_flag, Causal via its Deserialize) and its Serialize",
            "p2panda_store SqliteStore (in-memory): begin/commit, insert_operation (re-encodes the header), get_operation, get_log_entries",
            "p2panda_sync::protocols::LogSyncMessage::Operation serde (wire form)",
        ]
    }
    fn components_stub(&self) -> Vec<&'static str> {
        vec!["the LogSync session loop itself (only its message type and the decode / hash calls of its receive path are reproduced)", "network: wire bytes handed over in memory", "std RandomState keys: getrandom seam (function of run seed, thread name, per-thread counter)"]
    }
    fn expected_probes(&self) -> Vec<&'static str> {
        vec!["causal_with_2_or_more_previous", "causal_with_8_previous", "causal_empty_previous", "basic_with_prune_flag", "unit_extensions", "struct_extensions", "backlinked_header", "body_withheld", "second_execution_compared", "operation_reached_c", "foreign_unsorted_order_rejected", "foreign_sorted_order_verifies"]
    }
    fn run(&self) {
        let mode1 = ctx::mode() == 1;
        let w = draw_workload(mode1);
        ev!("workload: family {:?}, {} author(s), {} op(s), {} extra decode(s) per hop", w.family, w.keys.len(), w.ops.len(), w.repeats);
        for s in &w.ops {
            match &s.ext {
                ExtSpec::NodeCausal { previous, .. } => {
                    if previous.len() >= 2 {
                        ctx::probe("causal_with_2_or_more_previous");
                    }
                    if previous.len() == 8 {
                        ctx::probe("causal_with_8_previous");
                    }
                    if previous.is_empty() {
                        ctx::probe("causal_empty_previous");
                    }
                }
                ExtSpec::NodeBasic { prune: true, .. } => ctx::probe("basic_with_prune_flag"),
                ExtSpec::Unit => ctx::probe("unit_extensions"),
                ExtSpec::Struct { .. } => ctx::probe("struct_extensions"),
                _ => {}
            }
            if s.body_withheld {
                ctx::probe("body_withheld");
            }
        }
        // First execution on the simulator thread.
        let first = execute(&w);
        ev!("execution 1 (thread sim):");
        for l in &first.lines {
            ev!("{l}");
        }
        for p in &first.probes {
            ctx::probe(p);
        }
        if first.transcript.iter().any(|(_, l, _, _)| l.starts_with("B->C")) {
            ctx::probe("operation_reached_c");
            ctx::mark_nontrivial();
        }
        for _ in 0..first.repeated_decodes {
            ctx::fault("repeated_decode");
        }
        let mut reported: Vec<usize> = vec![];
        for f in &first.findings {
            violation(f.clause, &f.site, format!("op {}: {}", f.op, f.detail));
            reported.push(f.op);
        }
        if !mode1 {
            return;
        }
        // Second execution: a fresh thread, other hasher keys.
        let w2 = w.clone();
        let handle = std::thread::Builder::new().name("sim-b".into()).stack_size(16 << 20).spawn(move || execute(&w2)).expect("spawn sim-b");
        let second = match handle.join() {
            Ok(r) => r,
            Err(p) => std::panic::resume_unwind(p),
        };
        ctx::fault("hasher_rekey");
        ctx::probe("second_execution_compared");
        ev!("execution 2 (thread sim-b): {} wire messages, {} finding(s)", second.transcript.len(), second.findings.len());
        for l in second.lines.iter().filter(|l| l.starts_with("  !!")) {
            ev!("{l}");
        }
        for f in &second.findings {
            violation(f.clause, &f.site, format!("second execution, op {}: {}", f.op, f.detail));
        }
        // Wire transcripts byte for byte.
        if first.transcript.len() != second.transcript.len() {
            violation("executions-differ", "number of wire messages", format!("{} vs {}", first.transcript.len(), second.transcript.len()));
        }
        let mut same = 0;
        // Ids that differ between the executions although the header values are equal: a later
        // operation of the same log carries them as its backlink, which is a consequence.
        let mut tainted: Vec<(Hash, Hash)> = vec![];
        // Operations that already have a finding in one of the executions: what differs between
        // the executions for them is its consequence (first finding per operation wins).
        let mut flagged: Vec<usize> = first.findings.iter().chain(second.findings.iter()).map(|f| f.op).collect();
        for ((op1, l1, h1, w1), (_, l2, h2, w2)) in first.transcript.iter().zip(second.transcript.iter()) {
            if w1 == w2 && l1 == l2 {
                same += 1;
                continue;
            }
            let verdict = match w.family {
                Family::Node => classify_pair::<NodeExt>(h1, h2, &mut tainted),
                Family::Unit => classify_pair::<()>(h1, h2, &mut tainted),
                Family::Struct => classify_pair::<SimExt>(h1, h2, &mut tainted),
            };
            match verdict {
                Some(_) if flagged.contains(op1) => ev!("  {l1}: the two executions sent different header bytes: consequence of the finding for op {op1}"),
                Some((clause, site)) => {
                    flagged.push(*op1);
                    ev!("  !! {l1}: the two executions sent different header bytes [{clause}: {site}]");
                    violation(clause, &site, format!("{l1} / {l2}: the same workload travels as different bytes in two executions: {}", diff_short(h1, h2)));
                }
                None => ev!("  {l1}: differs only through the backlink to an operation whose id already differs (consequence)"),
            }
        }
        ev!("transcripts: {same} of {} wire messages byte-identical", first.transcript.len());
    }
}

/// Two executions put different bytes on the wire for the same operation: equal values encoded
/// differently (the hasher keys are the only thing that differs), really different values, or only
/// the consequence of an earlier difference (`None`).
fn classify_pair<E: RelayExt>(h1: &[u8], h2: &[u8], tainted: &mut Vec<(Hash, Hash)>) -> Option<(&'static str, String)> {
    match (decode_cbor::<Header<E>, _>(h1), decode_cbor::<Header<E>, _>(h2)) {
        (Ok(mut a), Ok(mut b)) => {
            let ids = (Hash::digest(h1), Hash::digest(h2));
            // The signature covers the bytes, so compare the unsigned values.
            let sig = a.signature;
            a.signature = None;
            b.signature = None;
            let mut consequence = false;
            if let (Some(x), Some(y)) = (a.backlink, b.backlink) {
                if tainted.contains(&(x, y)) {
                    b.backlink = Some(x);
                    consequence = true;
                }
            }
            if ids.0 != ids.1 && !tainted.contains(&ids) {
                tainted.push(ids);
            }
            if a == b {
                if a.to_bytes() == b.to_bytes() && consequence {
                    return None;
                }
                let (mut x, mut y) = (h1.to_vec(), h2.to_vec());
                if consequence {
                    // Attribute on the encodings with the backlink and signature differences taken out.
                    a.signature = sig;
                    b.signature = sig;
                    x = a.to_bytes();
                    y = b.to_bytes();
                }
                Some(("reencoding-differs", attribute::<E>(&x, &y)))
            } else {
                Some(("executions-differ", "header values differ between two executions of the same workload".to_string()))
            }
        }
        _ => Some(("executions-differ", "header bytes of one execution do not decode".to_string())),
    }
}

/// Where two byte strings first differ.
fn diff_short(a: &[u8], b: &[u8]) -> String {
    let n = a.iter().zip(b.iter()).take_while(|(x, y)| x == y).count();
    let win = |v: &[u8]| v.iter().skip(n).take(8).map(|x| format!("{x:02x}")).collect::<String>();
    format!("{} vs {} bytes, first difference at byte {n}: {}… vs {}…", a.len(), b.len(), win(a), win(b))
}
