//! C18 — Hybrid timestamps strictly increase on every increment, whatever the wall clock reads; a
//! node's successive self-published transport records are therefore always accepted as newer.
//!
//! Engine "W" (synchronous replicas) + the CLOCK_REALTIME seam. One run = a small world: one
//! free-standing timestamp chain and 1–3 publishing nodes, each observed by a remote `NodeInfo`
//! that receives every record and a second one that receives only some of them (both in order).
//! The choice stream decides what the wall clock does between two clock readings (tick forward,
//! freeze, jump forward, jump back, return exactly to an earlier reading) and who acts next.

use std::net::{Ipv4Addr, SocketAddr};

use p2panda_core::SigningKey;
use p2panda_core::timestamp::{HybridTimestamp, LamportTimestamp, Timestamp};
use p2panda_net::addrs::{NodeInfo, NodeTransportInfo, TransportAddress, TransportInfo, UnsignedTransportInfo};
use p2panda_net::utils::from_verifying_key;
use simcore::libc_seams::{EPOCH_US, set_wall_us, wall_us};
use simcore::{Budget, Property, Tier, ctx, ev, violation};
use simworld::logworld::signing_key;

pub struct C18Prop;
pub static C18: C18Prop = C18Prop;

#[derive(Clone, Copy)]
struct ClockCfg {
    freeze: bool,
    forward: bool,
    back: bool,
}

fn mode_cfg(mode: u32) -> ClockCfg {
    match mode {
        0 => ClockCfg { freeze: false, forward: false, back: false },
        1 => ClockCfg { freeze: true, forward: true, back: false },
        2 => ClockCfg { freeze: false, forward: false, back: true },
        _ => ClockCfg { freeze: true, forward: true, back: true },
    }
}

/// Wall-clock reading relative to the run's start, for readable and seed-independent traces.
fn rel(us: u64) -> String {
    format!("E{:+}", us as i128 - EPOCH_US as i128)
}

fn show(ts: &HybridTimestamp) -> String {
    let (p, l) = ts.to_parts();
    format!("({}/{})", rel(u64::from(p)), l)
}

fn phys(ts: &HybridTimestamp) -> u64 {
    u64::from(ts.to_parts().0)
}

const FLOOR_US: u64 = 1_000_000;

struct World {
    cfg: ClockCfg,
    /// Readings of the wall clock that some timestamp of this run carries (targets for "return
    /// exactly to an earlier reading").
    seen: Vec<u64>,
    clock_back_since_publish: Vec<bool>,
}

impl World {
    /// What the wall clock does before the next reading. Value 0 = an ordinary forward tick.
    fn clock_step(&mut self, at: &str) {
        let r = ctx::choose("clock", 10);
        let now = wall_us();
        let kind = match r {
            4 | 5 if self.cfg.freeze => "freeze",
            6 if self.cfg.forward => "jump_forward",
            7 | 8 if self.cfg.back => "jump_back",
            9 if self.cfg.back && !self.seen.is_empty() => "return_to_earlier_reading",
            _ => "tick",
        };
        match kind {
            "tick" => {
                let d = 1 + ctx::choose("tick_us", 2000) as u64;
                set_wall_us(now + d);
                ev!("  clock[{at}] tick +{d}us -> {}", rel(wall_us()));
            }
            "freeze" => {
                ctx::fault("clock.freeze");
                ev!("  clock[{at}] FREEZE at {}", rel(now));
            }
            "jump_forward" => {
                let d = *ctx::pick("fwd_us", &[1_000_000u64, 60_000_000, 3_600_000_000, 86_400_000_000, 34_560_000_000_000]);
                set_wall_us(now + d);
                ctx::fault("clock.jump_forward");
                ev!("  clock[{at}] JUMP FORWARD +{d}us -> {}", rel(wall_us()));
            }
            "jump_back" => {
                let d = *ctx::pick("back_us", &[1u64, 10, 1_000, 1_000_000, 3_600_000_000, 86_400_000_000, 34_560_000_000_000]);
                let to = now.saturating_sub(d).max(FLOOR_US);
                set_wall_us(to);
                ctx::fault("clock.jump_back");
                for b in self.clock_back_since_publish.iter_mut() {
                    *b = true;
                }
                ev!("  clock[{at}] JUMP BACK -{d}us -> {}", rel(wall_us()));
            }
            _ => {
                let to = *ctx::pick("earlier", &self.seen);
                let off = *ctx::pick("earlier_off", &[0i64, -1, 1]);
                let to = (to as i64 + off).max(FLOOR_US as i64) as u64;
                if to < now {
                    ctx::fault("clock.jump_back");
                    for b in self.clock_back_since_publish.iter_mut() {
                        *b = true;
                    }
                    if off == 0 {
                        ctx::probe("clock_returned_exactly_to_earlier_reading");
                    }
                } else if to > now {
                    ctx::fault("clock.jump_forward");
                } else {
                    ctx::fault("clock.freeze");
                }
                set_wall_us(to);
                ev!("  clock[{at}] SET to earlier reading{off:+} -> {}", rel(wall_us()));
            }
        }
    }

    fn remember(&mut self, ts: &HybridTimestamp) {
        let p = phys(ts);
        if !self.seen.contains(&p) {
            if self.seen.len() >= 16 {
                self.seen.remove(0);
            }
            self.seen.push(p);
        }
    }
}

/// Clause 1 of the property, with attribution by what the wall clock read relative to the input.
fn check_increment(what: &str, input: &HybridTimestamp, out: &HybridTimestamp, now: u64) -> bool {
    let p = phys(input);
    if now < p {
        ctx::probe("clock_reads_earlier_than_input");
    } else if now == p {
        ctx::probe("clock_reads_equal_to_input");
    } else {
        ctx::probe("clock_reads_later_than_input");
    }
    if out.to_parts().1 >= LamportTimestamp::new(2) {
        ctx::probe("logical_counter_reached_2");
    }
    if out > input {
        return true;
    }
    let site = if now < p {
        "HybridTimestamp::increment wall clock moved back"
    } else if now == p {
        "HybridTimestamp::increment wall clock equal"
    } else {
        "HybridTimestamp::increment wall clock later"
    };
    violation(
        "not-strictly-greater",
        site,
        format!("{what}: increment of {} with the wall clock at {} returned {} which is not greater", show(input), rel(now), show(out)),
    );
    false
}

struct Node {
    key: SigningKey,
    /// The node's own address-book entry: `publish` reads its previous record from it and
    /// inserts the new one with the same last-write-wins rule as everybody else.
    own: NodeInfo,
    /// Remote observer that receives every record, in order.
    remote_all: NodeInfo,
    /// Remote observer that receives only some records, still in order.
    remote_some: NodeInfo,
    published: u32,
}

fn addr_for(node: &Node, n: u32) -> TransportAddress {
    let id = from_verifying_key(node.key.verifying_key());
    let sock = SocketAddr::from((Ipv4Addr::new(10, 0, (n >> 8) as u8, n as u8), 2000 + (n % 1000) as u16));
    TransportAddress::Iroh(iroh_base::EndpointAddr::new(id).with_ip_addr(sock))
}

impl Property for C18Prop {
    fn id(&self) -> &'static str {
        "C18"
    }
    fn budget(&self, tier: Tier) -> Budget {
        match tier {
            Tier::Quick => Budget { runs: 60_000, wall_cap_s: 30 },
            Tier::Thorough => Budget { runs: 900_000, wall_cap_s: 300 },
        }
    }
    fn modes(&self) -> u32 {
        4
    }
    fn mode_name(&self, mode: u32) -> &'static str {
        match mode {
            0 => "steady-clock",
            1 => "freeze+forward-jumps",
            2 => "backward-jumps",
            _ => "all-clock-faults",
        }
    }
    fn rule(&self) -> &'static str {
        "one run = 4..40 steps over one free timestamp chain and 1..3 publishing nodes; before every clock reading the choice stream ticks, freezes, jumps forward, jumps back or returns the wall clock exactly to an earlier reading (per mode); steps: increment the chain, re-seed the chain with an arbitrary input (earlier/equal/later than the clock, logical 0..2^32), re-publish a node's transport info (from_addrs/new + increment_timestamp + sign) and deliver it to two remote NodeInfos; non-trivial = at least one increment under a non-tick clock or >= 2 publishes of one node; distinct = distinct trace fingerprint"
    }
    fn components_real(&self) -> Vec<&'static str> {
        vec![
            "p2panda_core::timestamp::{Timestamp::now, HybridTimestamp::now, HybridTimestamp::increment}",
            "p2panda_net::addrs::UnsignedTransportInfo::{new, from_addrs, increment_timestamp, sign}",
            "p2panda_net::addrs::NodeInfo::update_transports (+ AuthenticatedTransportInfo::verify)",
        ]
    }
    fn components_stub(&self) -> Vec<&'static str> {
        vec![
            "wall clock: CLOCK_REALTIME interposed by the harness (Timestamp::now reads std::time::SystemTime in this build; checked at the start of every run)",
            "network between publisher and remote observers: direct in-order hand-over (one observer sees every record, one a PRNG subset)",
            "iroh endpoint / address book actor around the publish path (iroh_endpoint/discovery.rs) are not run; its expression chain from_addrs -> increment_timestamp -> sign is executed verbatim",
        ]
    }
    fn assumptions(&self) -> Vec<&'static str> {
        vec!["logical counters stay below 2^63 (overflow of LamportTimestamp::increment at u64::MAX is not explored: unreachable through self-published records)", "the wall clock never reads before 1970 (Timestamp::now panics by design)"]
    }
    fn expected_probes(&self) -> Vec<&'static str> {
        vec![
            "clock_reads_earlier_than_input",
            "clock_reads_equal_to_input",
            "clock_reads_later_than_input",
            "logical_counter_reached_2",
            "clock_returned_exactly_to_earlier_reading",
            "republish_after_clock_moved_back",
            "remote_skipped_a_record",
            "clock_moved_between_new_and_increment",
        ]
    }

    fn run(&self) {
        let cfg = mode_cfg(ctx::mode());
        // Harness self-check: the clock we drive is the one `Timestamp::now()` reads.
        set_wall_us(EPOCH_US + 7);
        let probe_now = u64::from(Timestamp::now());
        assert_eq!(probe_now, EPOCH_US + 7, "Timestamp::now() does not follow the CLOCK_REALTIME seam (mock_instant build?)");
        set_wall_us(EPOCH_US);

        let n_nodes = 1 + ctx::choose("nodes", 3);
        let mut nodes: Vec<Node> = (0..n_nodes)
            .map(|i| {
                let key = signing_key(i as u64);
                let id = key.verifying_key();
                Node { key, own: NodeInfo::new(id), remote_all: NodeInfo::new(id), remote_some: NodeInfo::new(id), published: 0 }
            })
            .collect();
        let mut w = World { cfg, seen: Vec::new(), clock_back_since_publish: vec![false; n_nodes] };
        let steps = 4 + ctx::choose("steps", 37);
        ev!("world: {n_nodes} publishing node(s), {steps} steps, clock faults: freeze={} forward={} back={}", cfg.freeze, cfg.forward, cfg.back);

        let mut chain = HybridTimestamp::now();
        w.remember(&chain);
        ev!("chain starts at {}", show(&chain));
        let mut max_publishes = 0;

        for step in 0..steps {
            match ctx::choose("action", 4) {
                0 | 3 => {
                    // Increment the free chain.
                    w.clock_step("increment");
                    let now = wall_us();
                    let out = chain.increment();
                    ev!("step {step}: chain {} --increment @{}--> {}", show(&chain), rel(now), show(&out));
                    check_increment("chain", &chain, &out, now);
                    if now <= phys(&chain) {
                        ctx::mark_nontrivial();
                    }
                    chain = out;
                    w.remember(&chain);
                }
                1 => {
                    // Re-publish the transport info of one node and hand it to the remotes.
                    let i = ctx::choose("node", n_nodes);
                    w.clock_step("new");
                    let t_new = wall_us();
                    let n = nodes[i].published;
                    let unsigned = if ctx::chance("no_addrs", 1, 6) {
                        UnsignedTransportInfo::new()
                    } else {
                        UnsignedTransportInfo::from_addrs([addr_for(&nodes[i], n)])
                    };
                    let prev = match &nodes[i].own.transports {
                        Some(TransportInfo::Authenticated(a)) => Some(a.clone()),
                        _ => None,
                    };
                    if prev.is_some() {
                        w.clock_step("increment_timestamp");
                        if wall_us() != t_new {
                            ctx::probe("clock_moved_between_new_and_increment");
                        }
                    }
                    let now = wall_us();
                    let unsigned = unsigned.increment_timestamp(prev.as_ref());
                    let info = match unsigned.sign(&nodes[i].key) {
                        Ok(info) => info,
                        Err(e) => {
                            violation("sign-failed", "UnsignedTransportInfo::sign", format!("node {i}: {e}"));
                            continue;
                        }
                    };
                    ev!(
                        "step {step}: node {i} publishes record #{n} @{}: previous {} -> {}",
                        rel(now),
                        prev.as_ref().map(|p| show(&p.timestamp)).unwrap_or_else(|| "none".into()),
                        show(&info.timestamp)
                    );
                    let mut strictly_newer = true;
                    if let Some(prev) = &prev {
                        if w.clock_back_since_publish[i] {
                            ctx::probe("republish_after_clock_moved_back");
                        }
                        strictly_newer = check_increment("republished transport info", &prev.timestamp, &info.timestamp, now);
                    }
                    w.clock_back_since_publish[i] = false;
                    w.remember(&info.timestamp);

                    // The node's own address book (LWW, as in iroh_endpoint/discovery.rs), the
                    // remote that sees every record and the remote that sees a subset, in order.
                    let skip_some = ctx::chance("skip_remote_some", 1, 3);
                    if skip_some {
                        ctx::probe("remote_skipped_a_record");
                    }
                    let node = &mut nodes[i];
                    for (name, book, skip) in [("own-book", &mut node.own, false), ("remote-all", &mut node.remote_all, false), ("remote-some", &mut node.remote_some, skip_some)] {
                        if skip {
                            ev!("         {name}: record not delivered");
                            continue;
                        }
                        let newer_than_held = match &book.transports {
                            Some(held) => info.timestamp > held.timestamp(),
                            None => true,
                        };
                        let res = book.update_transports(info.clone().into());
                        let accepted = matches!(res, Ok(true)) && book.transports == Some(info.clone().into());
                        ev!("         {name}: update_transports -> {res:?}{}", if accepted { "" } else { "  (NOT accepted as newer)" });
                        if !accepted && newer_than_held {
                            // The timestamp is greater than the one held, so the rejection is
                            // update_transports' own and not a consequence of clause 1 failing.
                            violation("successor-not-accepted", "NodeInfo::update_transports", format!("{name} of node {i}: record #{n} with timestamp {} -> {res:?}", show(&info.timestamp)));
                        }
                        if !accepted && !newer_than_held && strictly_newer {
                            // The record is newer than the publisher's previous one but not newer
                            // than what this observer holds: the observer accepted a record that
                            // the publisher's own book (same rule, same order) did not.
                            violation("successor-not-accepted", "observer holds a record newer than the publisher's own book", format!("{name} of node {i}: record #{n} {}", show(&info.timestamp)));
                        }
                    }
                    nodes[i].published += 1;
                    max_publishes = max_publishes.max(nodes[i].published);
                    if nodes[i].published >= 2 {
                        ctx::mark_nontrivial();
                    }
                }
                _ => {
                    // Re-seed the chain with an arbitrary input timestamp relative to the clock.
                    let now = wall_us();
                    let deltas: &[i64] = if cfg.back { &[0, -1, -1_000_000, 1, 1_000, 1_000_000, 86_400_000_000] } else { &[0, -1, -1_000_000] };
                    let d = *ctx::pick("input_delta", deltas);
                    let l = *ctx::pick("input_logical", &[0u64, 1, 7, 1 << 32]);
                    let p = (now as i64 + d).max(FLOOR_US as i64) as u64;
                    if p > now {
                        ctx::fault("input.ahead_of_clock");
                    }
                    chain = HybridTimestamp::from_parts(Timestamp::new(p), LamportTimestamp::new(l));
                    w.remember(&chain);
                    ev!("step {step}: chain re-seeded with input {} (clock at {})", show(&chain), rel(now));
                }
            }
        }
        ev!("end: chain at {}, clock at {}, max publishes per node {max_publishes}", show(&chain), rel(wall_us()));
        ctx::add_steps(steps as u64);
    }
}
