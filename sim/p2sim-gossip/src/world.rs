//! Shared world of the gossip cluster (C16, C17, C29): the real `Gossip` API object (with its
//! `GossipHandle`s, `GossipSubscription`s and `TopicDropGuard`s) and the real `AddressBook`
//! (a ractor actor over SQLite on its own thread) on top of a *probe* gossip manager: an ordinary
//! ractor actor which is spawned on the simulator's current-thread runtime, answers `Subscribe`
//! with harness-owned channels and logs `Subscribe` / `Unsubscribe` in mailbox order. The harness
//! is the overlay: whatever is published on a to-gossip channel it forwards (with faults) into the
//! from-gossip broadcast channel.

use std::sync::{Arc, Mutex};
use std::task::Waker;

use p2panda_core::Topic;
use p2panda_net::address_book::AddressBook;
use p2panda_net::gossip::verif::{ToGossipManager, gossip_with_manager};
use p2panda_net::gossip::{Gossip, GossipConfig, GossipEvent};
use p2panda_store::SqliteStore;
use ractor::{Actor, ActorProcessingErr, ActorRef, RpcReplyPort};
use simworld::logworld::signing_key;
use tokio::sync::{broadcast, mpsc};

#[derive(Clone, Copy, Debug, PartialEq, Eq)]
pub enum ProbeEvent {
    Subscribe(Topic),
    Unsubscribe(Topic),
    Shutdown,
}

type Channels = (mpsc::Sender<Vec<u8>>, broadcast::Sender<Vec<u8>>);

/// Harness-owned ends of the channels of one gossip session (one answered `Subscribe`).
#[allow(dead_code)]
pub struct Overlay {
    pub topic: Topic,
    pub to_gossip_rx: mpsc::Receiver<Vec<u8>>,
    pub from_gossip_tx: broadcast::Sender<Vec<u8>>,
}

/// A `Subscribe` request the probe has received (and logged) but not answered yet: the overlay
/// (harness) decides when the reply is sent.
pub struct Held {
    /// The activity whose `Gossip::stream` call sent the request.
    pub act: Option<usize>,
    pub topic: Topic,
    reply: RpcReplyPort<Channels>,
    channels: Channels,
}

pub struct ProbeState {
    /// `Subscribe` / `Unsubscribe` / `Shutdown` in mailbox order.
    pub log: Vec<ProbeEvent>,
    /// One entry per received `Subscribe`, in mailbox order.
    pub overlays: Vec<Overlay>,
    /// When set, `Subscribe` requests are logged but the reply is left to the harness.
    pub hold: bool,
    pub held: Vec<Held>,
    /// Activities whose `Subscribe` has been answered (consumed by the scenario's model).
    pub replied: Vec<usize>,
    /// The activity the executor is running right now, with its waker: lets the probe attribute a
    /// request and tell the executor that the request has arrived (so that it re-polls the activity
    /// and sees it parked on the overlay).
    pub current: Option<(usize, Waker)>,
    /// `Subscribe` requests whose `Gossip::stream` call has not returned yet: (activity, topic).
    pub in_flight: Vec<(Option<usize>, Topic)>,
    /// Topics for which a `Subscribe` arrived while the slow path of another call for the same
    /// topic was still in flight (attribution).
    pub concurrent_slow_paths: Vec<Topic>,
    pub mpsc_cap: usize,
    pub bcast_cap: usize,
    events_tx: broadcast::Sender<GossipEvent>,
}

pub type Shared = Arc<Mutex<ProbeState>>;

impl ProbeState {
    /// Answer the `i`-th held `Subscribe` request.
    pub fn release(&mut self, i: usize) -> (Option<usize>, Topic) {
        let h = self.held.remove(i);
        if let Some(a) = h.act {
            self.replied.push(a);
        }
        let _ = h.reply.send(h.channels);
        (h.act, h.topic)
    }

    pub fn holding(&self, act: usize) -> bool {
        self.held.iter().any(|h| h.act == Some(act))
    }

    pub fn events_for(&self, topic: &Topic) -> Vec<ProbeEvent> {
        self.log
            .iter()
            .copied()
            .filter(|e| match e {
                ProbeEvent::Subscribe(t) | ProbeEvent::Unsubscribe(t) => t == topic,
                ProbeEvent::Shutdown => false,
            })
            .collect()
    }
}

pub struct Probe;

impl Actor for Probe {
    type Msg = ToGossipManager;
    type State = Shared;
    type Arguments = Shared;

    async fn pre_start(&self, _myself: ActorRef<Self::Msg>, args: Self::Arguments) -> Result<Self::State, ActorProcessingErr> {
        Ok(args)
    }

    async fn handle(&self, _myself: ActorRef<Self::Msg>, message: Self::Msg, state: &mut Self::State) -> Result<(), ActorProcessingErr> {
        let mut s = state.lock().expect("probe state");
        match message {
            ToGossipManager::Subscribe(topic, _node_ids, reply) => {
                let (to_gossip_tx, to_gossip_rx) = mpsc::channel(s.mpsc_cap);
                let (from_gossip_tx, _) = broadcast::channel(s.bcast_cap);
                s.log.push(ProbeEvent::Subscribe(topic));
                s.overlays.push(Overlay { topic, to_gossip_rx, from_gossip_tx: from_gossip_tx.clone() });
                let act = s.current.as_ref().map(|c| c.0);
                if s.in_flight.iter().any(|(a, t)| *t == topic && *a != act) {
                    s.concurrent_slow_paths.push(topic);
                }
                s.in_flight.push((act, topic));
                if s.hold {
                    s.held.push(Held { act, topic, reply, channels: (to_gossip_tx, from_gossip_tx) });
                    if let Some((_, w)) = &s.current {
                        w.wake_by_ref();
                    }
                } else {
                    if let Some(a) = act {
                        s.replied.push(a);
                    }
                    let _ = reply.send((to_gossip_tx, from_gossip_tx));
                }
            }
            ToGossipManager::Unsubscribe(topic) => s.log.push(ProbeEvent::Unsubscribe(topic)),
            ToGossipManager::Events(reply) => {
                // Doubles as the harness' barrier: answered after everything sent before it.
                let _ = reply.send(s.events_tx.subscribe());
            }
            ToGossipManager::Shutdown => s.log.push(ProbeEvent::Shutdown),
            _ => {}
        }
        Ok(())
    }
}

pub struct World {
    pub gossip: Gossip,
    pub book: AddressBook,
    pub store: SqliteStore,
    pub probe: Shared,
    pub actor: ActorRef<ToGossipManager>,
}

impl World {
    /// Wait until the probe has processed every message sent to it so far.
    pub async fn barrier(&self) -> Result<(), String> {
        ractor::call!(self.actor, ToGossipManager::Events).map(|_| ()).map_err(|e| format!("probe barrier: {e}"))
    }
}

/// Real `AddressBook` over a fresh in-memory SQLite store, probe manager actor on the current
/// runtime, real `Gossip` object on top of both. Must run inside `stepexec::block_on`.
pub async fn setup(mpsc_cap: usize, bcast_cap: usize) -> Result<World, String> {
    let store = simworld::populate::sqlite_memory().await;
    let book = AddressBook::builder().store(store.clone()).spawn().await.map_err(|e| format!("AddressBook::spawn: {e}"))?;
    let (events_tx, _) = broadcast::channel(8);
    let probe: Shared = Arc::new(Mutex::new(ProbeState {
        log: vec![],
        overlays: vec![],
        hold: false,
        held: vec![],
        replied: vec![],
        current: None,
        in_flight: vec![],
        concurrent_slow_paths: vec![],
        mpsc_cap,
        bcast_cap,
        events_tx,
    }));
    let (actor, _join) = Actor::spawn(None, Probe, probe.clone()).await.map_err(|e| format!("spawn probe actor: {e}"))?;
    let my_node_id = signing_key(1000).verifying_key();
    let gossip = gossip_with_manager(actor.clone(), my_node_id, book.clone(), GossipConfig::default());
    Ok(World { gossip, book, store, probe, actor })
}
