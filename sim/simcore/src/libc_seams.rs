//! Process-wide seams for the wall clock and OS randomness, by symbol interposition: the
//! definitions below take precedence over glibc's for the whole (statically linked Rust) program.
//!
//! * `clock_gettime(CLOCK_REALTIME)` — `std::time::SystemTime::now()` follows `set_wall_us`.
//!   All other clock ids are forwarded by raw syscall (never fake CLOCK_MONOTONIC: futex timeouts).
//! * `getrandom` — std's `RandomState` keys (HashMap / HashSet iteration order) become a function
//!   of the run seed and the asking thread's name. The `getrandom` / `rand` crates use the raw
//!   syscall and are not affected; the harness supplies its own keys, topics and seeds.

use std::sync::atomic::{AtomicBool, AtomicI64, AtomicU64, Ordering::SeqCst};

use libc::{c_int, c_uint, c_void, clockid_t, size_t, ssize_t, timespec};

static CLOCK_ON: AtomicBool = AtomicBool::new(false);
static WALL_NS: AtomicI64 = AtomicI64::new(0);
static RAND_ON: AtomicBool = AtomicBool::new(false);
static RAND_SEED: AtomicU64 = AtomicU64::new(0);
pub static CLOCK_READS: AtomicU64 = AtomicU64::new(0);
pub static RANDOM_READS: AtomicU64 = AtomicU64::new(0);

pub const EPOCH_US: u64 = 1_750_000_000_000_000;

pub fn enable_clock(wall_us: u64) {
    WALL_NS.store((wall_us as i64).saturating_mul(1000), SeqCst);
    CLOCK_ON.store(true, SeqCst);
}

pub fn disable_clock() {
    CLOCK_ON.store(false, SeqCst);
}

pub fn set_wall_us(us: u64) {
    WALL_NS.store((us as i64).saturating_mul(1000), SeqCst);
}

pub fn wall_us() -> u64 {
    (WALL_NS.load(SeqCst) / 1000) as u64
}

pub fn advance_wall_us(us: u64) {
    WALL_NS.fetch_add((us as i64).saturating_mul(1000), SeqCst);
}

pub fn enable_random(seed: u64) {
    RAND_SEED.store(seed, SeqCst);
    RAND_ON.store(true, SeqCst);
}

pub fn disable_random() {
    RAND_ON.store(false, SeqCst);
}

#[unsafe(no_mangle)]
pub unsafe extern "C" fn clock_gettime(clk: clockid_t, ts: *mut timespec) -> c_int {
    if clk == libc::CLOCK_REALTIME && CLOCK_ON.load(SeqCst) {
        CLOCK_READS.fetch_add(1, SeqCst);
        let ns = WALL_NS.load(SeqCst);
        unsafe {
            (*ts).tv_sec = ns.div_euclid(1_000_000_000);
            (*ts).tv_nsec = ns.rem_euclid(1_000_000_000);
        }
        0
    } else {
        unsafe { libc::syscall(libc::SYS_clock_gettime, clk, ts) as c_int }
    }
}

fn thread_class() -> u64 {
    // pthread_getname_np is async-signal-unsafe but fine here; avoids std::thread::current()
    // (which may be unavailable during thread-local destruction).
    let mut buf = [0u8; 32];
    let rc = unsafe {
        libc::pthread_getname_np(libc::pthread_self(), buf.as_mut_ptr() as *mut libc::c_char, buf.len())
    };
    if rc != 0 {
        return 0;
    }
    let mut h: u64 = 0xcbf2_9ce4_8422_2325;
    for b in buf.iter().take_while(|b| **b != 0) {
        // Ignore digits so that "sqlx-sqlite-worker-3" and "-4" fall into one class.
        if b.is_ascii_digit() {
            continue;
        }
        h ^= *b as u64;
        h = h.wrapping_mul(0x0000_0100_0000_01B3);
    }
    h
}

thread_local! {
    static CALLS: std::cell::Cell<u64> = const { std::cell::Cell::new(0) };
}

#[unsafe(no_mangle)]
pub unsafe extern "C" fn getrandom(buf: *mut c_void, len: size_t, flags: c_uint) -> ssize_t {
    if !RAND_ON.load(SeqCst) {
        return unsafe { libc::syscall(libc::SYS_getrandom, buf, len, flags) as ssize_t };
    }
    if len == 0 {
        // Availability probe (the getrandom crate does one per process): must not advance the
        // per-thread counter, or the first run of a process would differ from all later ones.
        return 0;
    }
    RANDOM_READS.fetch_add(1, SeqCst);
    let n = CALLS.try_with(|c| {
        let v = c.get();
        c.set(v + 1);
        v
    })
    .unwrap_or(0);
    let mut state = crate::rng::mix(&[RAND_SEED.load(SeqCst), thread_class(), n]);
    let out = buf as *mut u8;
    let mut i = 0;
    while i < len {
        let v = crate::rng::splitmix64(&mut state).to_le_bytes();
        let mut k = 0;
        while k < 8 && i < len {
            unsafe { *out.add(i) = v[k] };
            i += 1;
            k += 1;
        }
    }
    len as ssize_t
}

/// Force the linker to keep this object (call from `main`).
pub fn link_me() {
    let _ = CLOCK_ON.load(SeqCst);
}
