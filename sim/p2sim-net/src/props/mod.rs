pub mod c18;
pub mod c26;
pub mod c27;
/// Needs hook H5 (hooks/H5-backoff.diff) in /repo/p2panda-net: enable with `--features hook_h5`.
#[cfg(feature = "hook_h5")]
pub mod c28;

pub fn all() -> Vec<&'static dyn simcore::Property> {
    #[allow(unused_mut)]
    let mut v: Vec<&'static dyn simcore::Property> = vec![&c18::C18, &c26::C26, &c27::C27];
    #[cfg(feature = "hook_h5")]
    v.push(&c28::C28);
    v
}
