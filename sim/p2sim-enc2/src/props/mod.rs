pub mod c35;
pub mod c37;
pub mod util;

pub fn all() -> Vec<&'static dyn simcore::Property> {
    vec![&c35::C35, &c37::C37]
}
