//! `MemStore`: a simple in-memory implementation of the store traits (maps and sorted vectors).
//!
//! Two roles: (1) the *reference model* that the real `SqliteStore` is compared with call by call
//! (C08, C09); (2) the *store stub* of the DES engine, where every method first passes a
//! delay / fault point (`MemHooks`). Rows are kept in encoded form (CBOR log id, header bytes), as
//! SQLite keeps them, so that the trait impls can stay generic over `L`, `E` and the topic type.

use std::cell::RefCell;
use std::collections::{BTreeMap, BTreeSet};
use std::rc::Rc;
use std::sync::Arc;

use p2panda_core::cbor::{decode_cbor, encode_cbor};
use p2panda_core::identity::Author;
use p2panda_core::{Cursor, Extensions, Hash, LogId, Operation, SeqNum, VerifyingKey};
use p2panda_store::Transaction;
use p2panda_store::cursors::CursorStore;
use p2panda_store::logs::LogStore;
use p2panda_store::operations::OperationStore;
use p2panda_store::topics::TopicStore;
use serde::{Deserialize, Serialize};
use tokio::sync::{OwnedSemaphorePermit, Semaphore};

#[derive(Clone, Debug, PartialEq, Eq)]
pub struct Row {
    pub hash: Hash,
    pub log_id: Vec<u8>,
    pub author: VerifyingKey,
    pub seq: SeqNum,
    pub header: Vec<u8>,
    pub header_size: u32,
    pub payload_size: u32,
    pub body: Option<Vec<u8>>,
}

#[derive(Clone, Debug, Default, PartialEq, Eq)]
pub struct Tables {
    /// Insertion-ordered rows (rowid order), keyed by hash for lookup.
    pub ops: BTreeMap<Hash, Row>,
    pub topics: BTreeSet<(Vec<u8>, VerifyingKey, Vec<u8>)>,
    pub cursors: BTreeMap<String, Vec<u8>>,
}

#[derive(Clone, Debug, PartialEq, Eq)]
pub struct MemError(pub String);

impl std::fmt::Display for MemError {
    fn fmt(&self, f: &mut std::fmt::Formatter<'_>) -> std::fmt::Result {
        write!(f, "mem store error: {}", self.0)
    }
}
impl std::error::Error for MemError {}

/// Delay / fault point consulted at the start of every store call (DES engine).
#[allow(async_fn_in_trait)]
pub trait MemHooks {
    /// May sleep (simulated latency) and may return an injected error.
    fn point(&self, method: &'static str) -> impl Future<Output = Result<(), MemError>>;
}

#[derive(Clone, Default)]
pub struct NoHooks;
impl MemHooks for NoHooks {
    async fn point(&self, _m: &'static str) -> Result<(), MemError> {
        Ok(())
    }
}

pub struct Inner {
    pub committed: Tables,
    pub tx: Option<Tables>,
}

/// Not `Send` by itself; `SendWrap` below provides the `Send` bound some generic code demands
/// (everything runs on the one simulator thread).
pub struct MemStore<H = NoHooks> {
    pub inner: Rc<RefCell<Inner>>,
    pub sem: Arc<Semaphore>,
    pub hooks: H,
}

impl<H: Clone> Clone for MemStore<H> {
    fn clone(&self) -> Self {
        MemStore { inner: self.inner.clone(), sem: self.sem.clone(), hooks: self.hooks.clone() }
    }
}

// Safety: the simulator is single-threaded; MemStore values never leave the simulator thread.
// Generic code under test asks for `Send` only to be spawnable on multi-threaded runtimes.
unsafe impl<H> Send for MemStore<H> {}
unsafe impl<H> Sync for MemStore<H> {}

pub struct MemPermit {
    _permit: OwnedSemaphorePermit,
    inner: Rc<RefCell<Inner>>,
    finished: bool,
}
unsafe impl Send for MemPermit {}

impl Drop for MemPermit {
    fn drop(&mut self) {
        if !self.finished {
            // Dropped without commit / rollback: roll back, then release (permit field drops after).
            self.inner.borrow_mut().tx = None;
        }
    }
}

impl MemStore<NoHooks> {
    pub fn new() -> Self {
        Self::with_hooks(NoHooks)
    }
}

impl Default for MemStore<NoHooks> {
    fn default() -> Self {
        Self::new()
    }
}

impl<H> MemStore<H> {
    pub fn with_hooks(hooks: H) -> Self {
        MemStore {
            inner: Rc::new(RefCell::new(Inner { committed: Tables::default(), tx: None })),
            sem: Arc::new(Semaphore::new(1)),
            hooks,
        }
    }

    pub fn snapshot(&self) -> Tables {
        self.inner.borrow().committed.clone()
    }

    fn read_pool<R>(&self, f: impl FnOnce(&Tables) -> R) -> R {
        f(&self.inner.borrow().committed)
    }

    fn with_tx<R>(&self, f: impl FnOnce(&mut Tables) -> R) -> Result<R, MemError> {
        let mut i = self.inner.borrow_mut();
        match i.tx.as_mut() {
            Some(t) => Ok(f(t)),
            None => Err(MemError("tried to interact with inexistant transaction".into())),
        }
    }

    /// Pool-level write: applies to the committed state and to an open transaction's working copy.
    fn write_pool<R: Clone>(&self, f: impl Fn(&mut Tables) -> R) -> R {
        let mut i = self.inner.borrow_mut();
        let r = f(&mut i.committed);
        if let Some(t) = i.tx.as_mut() {
            f(t);
        }
        r
    }

    /// Direct (harness-side) insertion, bypassing transactions.
    pub fn seed_row(&self, row: Row) {
        self.inner.borrow_mut().committed.ops.insert(row.hash, row);
    }
}

pub fn row_of<E: Extensions, L: LogId>(op: &Operation<E>, id: &Hash, log_id: &L) -> Row {
    let header = op.header.to_bytes();
    Row {
        hash: *id,
        log_id: encode_cbor(log_id).expect("encode log id"),
        author: op.header.verifying_key,
        seq: op.header.seq_num,
        header_size: header.len() as u32,
        header,
        payload_size: op.header.payload_size,
        body: op.body.as_ref().map(|b| b.to_bytes()),
    }
}

pub fn op_of<E: Extensions>(row: &Row) -> Result<Operation<E>, MemError> {
    Ok(Operation {
        hash: row.hash,
        header: decode_cbor(&row.header[..]).map_err(|e| MemError(format!("decode header: {e}")))?,
        body: row.body.clone().map(|b| b.into()),
    })
}

fn log_rows<'a>(t: &'a Tables, author: &VerifyingKey, log: &[u8]) -> Vec<&'a Row> {
    let mut v: Vec<&Row> = t.ops.values().filter(|r| r.author == *author && r.log_id == log).collect();
    v.sort_by_key(|r| r.seq);
    v
}

fn in_range(seq: SeqNum, after: Option<SeqNum>, until: Option<SeqNum>) -> bool {
    let lo = match after {
        None => true,
        Some(a) => seq > a,
    };
    lo && seq <= until.unwrap_or(SeqNum::MAX)
}

impl<H: MemHooks> Transaction for MemStore<H> {
    type Error = MemError;
    type Permit = MemPermit;

    async fn begin(&self) -> Result<MemPermit, MemError> {
        self.hooks.point("begin").await?;
        let permit = self.sem.clone().acquire_owned().await.map_err(|_| MemError("semaphore closed".into()))?;
        let mut i = self.inner.borrow_mut();
        assert!(i.tx.is_none(), "model: transaction open after a just-acquired permit");
        i.tx = Some(i.committed.clone());
        Ok(MemPermit { _permit: permit, inner: self.inner.clone(), finished: false })
    }

    async fn rollback(&self, mut permit: MemPermit) -> Result<(), MemError> {
        self.hooks.point("rollback").await?;
        self.inner.borrow_mut().tx = None;
        permit.finished = true;
        Ok(())
    }

    async fn commit(&self, mut permit: MemPermit) -> Result<(), MemError> {
        self.hooks.point("commit").await?;
        let mut i = self.inner.borrow_mut();
        if let Some(t) = i.tx.take() {
            i.committed = t;
        }
        permit.finished = true;
        Ok(())
    }
}

impl<E: Extensions, H: MemHooks> OperationStore<Operation<E>, Hash> for MemStore<H> {
    type Error = MemError;

    async fn insert_operation<L: LogId>(&self, id: &Hash, operation: &Operation<E>, log_id: &L) -> Result<bool, MemError> {
        self.hooks.point("insert_operation").await?;
        let row = row_of(operation, id, log_id);
        self.with_tx(|t| {
            if t.ops.contains_key(id) {
                false
            } else {
                t.ops.insert(*id, row);
                true
            }
        })
    }

    async fn get_operation(&self, id: &Hash) -> Result<Option<Operation<E>>, MemError> {
        self.hooks.point("get_operation").await?;
        self.read_pool(|t| t.ops.get(id).map(op_of).transpose())
    }

    async fn get_operation_tx(&self, id: &Hash) -> Result<Option<Operation<E>>, MemError> {
        self.hooks.point("get_operation_tx").await?;
        self.with_tx(|t| t.ops.get(id).map(op_of).transpose())?
    }

    async fn has_operation(&self, id: &Hash) -> Result<bool, MemError> {
        self.hooks.point("has_operation").await?;
        Ok(self.read_pool(|t| t.ops.contains_key(id)))
    }

    async fn has_operation_tx(&self, id: &Hash) -> Result<bool, MemError> {
        self.hooks.point("has_operation_tx").await?;
        self.with_tx(|t| t.ops.contains_key(id))
    }

    async fn delete_operation(&self, id: &Hash) -> Result<bool, MemError> {
        self.hooks.point("delete_operation").await?;
        self.with_tx(|t| t.ops.remove(id).is_some())
    }

    async fn delete_operation_payload(&self, id: &Hash) -> Result<bool, MemError> {
        self.hooks.point("delete_operation_payload").await?;
        Ok(self.write_pool(|t| match t.ops.get_mut(id) {
            Some(r) => {
                r.body = None;
                true
            }
            None => false,
        }))
    }
}

impl<E: Extensions, L: LogId, H: MemHooks> LogStore<Operation<E>, VerifyingKey, L, SeqNum, Hash> for MemStore<H> {
    type Error = MemError;

    async fn get_latest_entry(&self, author: &VerifyingKey, log_id: &L) -> Result<Option<Operation<E>>, MemError> {
        self.hooks.point("get_latest_entry").await?;
        let log = encode_cbor(log_id).expect("encode");
        self.read_pool(|t| log_rows(t, author, &log).last().map(|r| op_of(r)).transpose())
    }

    async fn get_latest_entry_tx(&self, author: &VerifyingKey, log_id: &L) -> Result<Option<Operation<E>>, MemError> {
        self.hooks.point("get_latest_entry_tx").await?;
        let log = encode_cbor(log_id).expect("encode");
        self.with_tx(|t| log_rows(t, author, &log).last().map(|r| op_of(r)).transpose())?
    }

    async fn get_log_heights(&self, author: &VerifyingKey, logs: &[L]) -> Result<Option<BTreeMap<L, SeqNum>>, MemError> {
        self.hooks.point("get_log_heights").await?;
        let mut out = BTreeMap::new();
        for l in logs {
            let log = encode_cbor(l).expect("encode");
            if let Some(h) = self.read_pool(|t| log_rows(t, author, &log).last().map(|r| r.seq)) {
                out.insert(l.clone(), h);
            }
        }
        Ok(if out.is_empty() { None } else { Some(out) })
    }

    async fn get_log_size(&self, author: &VerifyingKey, log_id: &L, after: Option<SeqNum>, until: Option<SeqNum>) -> Result<Option<(u32, u32)>, MemError> {
        self.hooks.point("get_log_size").await?;
        let log = encode_cbor(log_id).expect("encode");
        Ok(self.read_pool(|t| {
            let rows: Vec<&Row> = log_rows(t, author, &log).into_iter().filter(|r| in_range(r.seq, after, until)).collect();
            let n = rows.len() as u32;
            let bytes: u32 = rows.iter().map(|r| r.header_size + r.payload_size).sum();
            Some((n, bytes))
        }))
    }

    async fn get_log_entries(&self, author: &VerifyingKey, log_id: &L, after: Option<SeqNum>, until: Option<SeqNum>) -> Result<Option<Vec<(Operation<E>, Vec<u8>)>>, MemError> {
        self.hooks.point("get_log_entries").await?;
        let log = encode_cbor(log_id).expect("encode");
        let rows: Vec<Row> = self.read_pool(|t| log_rows(t, author, &log).into_iter().filter(|r| in_range(r.seq, after, until)).cloned().collect());
        if rows.is_empty() {
            return Ok(None);
        }
        let mut out = vec![];
        for r in rows {
            out.push((op_of(&r)?, r.header.clone()));
        }
        Ok(Some(out))
    }

    async fn prune_entries(&self, author: &VerifyingKey, log_id: &L, until: &SeqNum) -> Result<u64, MemError> {
        self.hooks.point("prune_entries").await?;
        let log = encode_cbor(log_id).expect("encode");
        Ok(self.write_pool(|t| {
            let doomed: Vec<Hash> = t.ops.values().filter(|r| r.author == *author && r.log_id == log && r.seq < *until).map(|r| r.hash).collect();
            for h in &doomed {
                t.ops.remove(h);
            }
            doomed.len() as u64
        }))
    }
}

impl<T, L, H> TopicStore<T, VerifyingKey, L> for MemStore<H>
where
    T: Serialize + for<'de> Deserialize<'de>,
    L: LogId,
    H: MemHooks,
{
    type Error = MemError;

    async fn associate(&self, topic: &T, author: &VerifyingKey, data_id: &L) -> Result<bool, MemError> {
        self.hooks.point("associate").await?;
        let key = (encode_cbor(topic).expect("encode"), *author, encode_cbor(data_id).expect("encode"));
        self.with_tx(|t| t.topics.insert(key))
    }

    async fn remove(&self, topic: &T, author: &VerifyingKey, data_id: &L) -> Result<bool, MemError> {
        self.hooks.point("remove").await?;
        let key = (encode_cbor(topic).expect("encode"), *author, encode_cbor(data_id).expect("encode"));
        self.with_tx(|t| t.topics.remove(&key))
    }

    async fn resolve(&self, topic: &T) -> Result<BTreeMap<VerifyingKey, Vec<L>>, MemError> {
        self.hooks.point("resolve").await?;
        let tk = encode_cbor(topic).expect("encode");
        let mut out: BTreeMap<VerifyingKey, Vec<L>> = BTreeMap::new();
        let rows: Vec<(VerifyingKey, Vec<u8>)> = self.read_pool(|t| t.topics.iter().filter(|(tp, _, _)| *tp == tk).map(|(_, a, d)| (*a, d.clone())).collect());
        for (a, d) in rows {
            let l: L = decode_cbor(&d[..]).map_err(|e| MemError(format!("decode data id: {e}")))?;
            out.entry(a).or_default().push(l);
        }
        Ok(out)
    }
}

impl<A: Author, L: LogId, H: MemHooks> CursorStore<A, L> for MemStore<H> {
    type Error = MemError;

    async fn get_cursor(&self, name: impl AsRef<str>) -> Result<Option<Cursor<A, L>>, MemError> {
        self.hooks.point("get_cursor").await?;
        let bytes = self.read_pool(|t| t.cursors.get(name.as_ref()).cloned());
        match bytes {
            Some(b) => Ok(Some(decode_cbor(&b[..]).map_err(|e| MemError(format!("decode cursor: {e}")))?)),
            None => Ok(None),
        }
    }

    async fn set_cursor(&self, cursor: &Cursor<A, L>) -> Result<(), MemError> {
        self.hooks.point("set_cursor").await?;
        let bytes = encode_cbor(cursor).expect("encode cursor");
        let name = cursor.name().to_string();
        self.with_tx(|t| {
            t.cursors.insert(name, bytes);
        })
    }

    async fn delete_cursor(&self, name: impl AsRef<str>) -> Result<(), MemError> {
        self.hooks.point("delete_cursor").await?;
        self.with_tx(|t| {
            t.cursors.remove(name.as_ref());
        })
    }
}
