//! `GatedStore<S, G>`: a delegating wrapper around any store with a *gate* before every trait call.
//! The gate is a scheduling point (StepExec preempt), a fault-injection point (injected `Err`) and
//! an interference point ("another activity prunes / deletes now"). While the delegated call is in
//! flight a `ForeignGuard` is up, which lets StepExec classify a `Pending` exactly.

use std::collections::{BTreeMap, HashSet};

use p2panda_core::identity::Author;
use p2panda_core::{Cursor, LogId};
use p2panda_store::Transaction;
use p2panda_store::cursors::CursorStore;
use p2panda_store::logs::LogStore;
use p2panda_store::operations::OperationStore;
use p2panda_store::orderer::OrdererStore;
use p2panda_store::topics::TopicStore;
use simcore::stepexec::ForeignGuard;

#[derive(Debug)]
pub enum GatedError<E> {
    Injected(String),
    Inner(E),
}

impl<E: std::fmt::Display> std::fmt::Display for GatedError<E> {
    fn fmt(&self, f: &mut std::fmt::Formatter<'_>) -> std::fmt::Result {
        match self {
            GatedError::Injected(s) => write!(f, "injected store error: {s}"),
            GatedError::Inner(e) => write!(f, "{e}"),
        }
    }
}
impl<E: std::error::Error> std::error::Error for GatedError<E> {}

#[allow(async_fn_in_trait)]
pub trait Gate {
    /// Called before every delegated store call with the trait method's name. Returning `Err`
    /// makes the call fail without reaching the store.
    fn before(&self, method: &'static str) -> impl Future<Output = Result<(), String>>;
    /// Called after the delegated call returned (not when it was cancelled).
    fn after(&self, _method: &'static str) {}
}

#[derive(Clone)]
pub struct GatedStore<S, G> {
    pub inner: S,
    pub gate: G,
}

// The simulator is single-threaded; see MemStore.
unsafe impl<S, G> Send for GatedStore<S, G> {}
unsafe impl<S, G> Sync for GatedStore<S, G> {}

impl<S, G> GatedStore<S, G> {
    pub fn new(inner: S, gate: G) -> Self {
        GatedStore { inner, gate }
    }
}

macro_rules! gated {
    ($self:ident, $name:literal, $call:expr) => {{
        $self.gate.before($name).await.map_err(GatedError::Injected)?;
        let r = {
            let _g = ForeignGuard::enter();
            $call.await.map_err(GatedError::Inner)
        };
        $self.gate.after($name);
        r
    }};
}

impl<S: Transaction, G: Gate> Transaction for GatedStore<S, G> {
    type Error = GatedError<S::Error>;
    type Permit = S::Permit;

    async fn begin(&self) -> Result<Self::Permit, Self::Error> {
        gated!(self, "begin", self.inner.begin())
    }
    async fn rollback(&self, permit: Self::Permit) -> Result<(), Self::Error> {
        gated!(self, "rollback", self.inner.rollback(permit))
    }
    async fn commit(&self, permit: Self::Permit) -> Result<(), Self::Error> {
        gated!(self, "commit", self.inner.commit(permit))
    }
}

impl<T, ID, S: OperationStore<T, ID>, G: Gate> OperationStore<T, ID> for GatedStore<S, G> {
    type Error = GatedError<S::Error>;

    async fn insert_operation<L: LogId>(&self, id: &ID, operation: &T, collection_id: &L) -> Result<bool, Self::Error> {
        gated!(self, "insert_operation", self.inner.insert_operation(id, operation, collection_id))
    }
    async fn get_operation(&self, id: &ID) -> Result<Option<T>, Self::Error> {
        gated!(self, "get_operation", self.inner.get_operation(id))
    }
    async fn get_operation_tx(&self, id: &ID) -> Result<Option<T>, Self::Error> {
        gated!(self, "get_operation_tx", self.inner.get_operation_tx(id))
    }
    async fn has_operation(&self, id: &ID) -> Result<bool, Self::Error> {
        gated!(self, "has_operation", self.inner.has_operation(id))
    }
    async fn has_operation_tx(&self, id: &ID) -> Result<bool, Self::Error> {
        gated!(self, "has_operation_tx", self.inner.has_operation_tx(id))
    }
    async fn delete_operation(&self, id: &ID) -> Result<bool, Self::Error> {
        gated!(self, "delete_operation", self.inner.delete_operation(id))
    }
    async fn delete_operation_payload(&self, id: &ID) -> Result<bool, Self::Error> {
        gated!(self, "delete_operation_payload", self.inner.delete_operation_payload(id))
    }
}

impl<T, A, L, SQ, ID, S: LogStore<T, A, L, SQ, ID>, G: Gate> LogStore<T, A, L, SQ, ID> for GatedStore<S, G> {
    type Error = GatedError<S::Error>;

    async fn get_latest_entry(&self, author: &A, log_id: &L) -> Result<Option<T>, Self::Error> {
        gated!(self, "get_latest_entry", self.inner.get_latest_entry(author, log_id))
    }
    async fn get_latest_entry_tx(&self, author: &A, log_id: &L) -> Result<Option<T>, Self::Error> {
        gated!(self, "get_latest_entry_tx", self.inner.get_latest_entry_tx(author, log_id))
    }
    async fn get_log_heights(&self, author: &A, logs: &[L]) -> Result<Option<BTreeMap<L, SQ>>, Self::Error> {
        gated!(self, "get_log_heights", self.inner.get_log_heights(author, logs))
    }
    async fn get_log_size(&self, author: &A, log_id: &L, after: Option<SQ>, until: Option<SQ>) -> Result<Option<(u32, u32)>, Self::Error> {
        gated!(self, "get_log_size", self.inner.get_log_size(author, log_id, after, until))
    }
    async fn get_log_entries(&self, author: &A, log_id: &L, after: Option<SQ>, until: Option<SQ>) -> Result<Option<Vec<(T, Vec<u8>)>>, Self::Error> {
        gated!(self, "get_log_entries", self.inner.get_log_entries(author, log_id, after, until))
    }
    async fn prune_entries(&self, author: &A, log_id: &L, until: &SQ) -> Result<u64, Self::Error> {
        gated!(self, "prune_entries", self.inner.prune_entries(author, log_id, until))
    }
}

impl<T, A, D, S: TopicStore<T, A, D>, G: Gate> TopicStore<T, A, D> for GatedStore<S, G> {
    type Error = GatedError<S::Error>;

    async fn associate(&self, topic: &T, author: &A, data_id: &D) -> Result<bool, Self::Error> {
        gated!(self, "associate", self.inner.associate(topic, author, data_id))
    }
    async fn remove(&self, topic: &T, author: &A, data_id: &D) -> Result<bool, Self::Error> {
        gated!(self, "remove", self.inner.remove(topic, author, data_id))
    }
    async fn resolve(&self, topic: &T) -> Result<BTreeMap<A, Vec<D>>, Self::Error> {
        gated!(self, "resolve", self.inner.resolve(topic))
    }
}

impl<A: Author, L: LogId, S: CursorStore<A, L>, G: Gate> CursorStore<A, L> for GatedStore<S, G> {
    type Error = GatedError<S::Error>;

    async fn get_cursor(&self, name: impl AsRef<str>) -> Result<Option<Cursor<A, L>>, Self::Error> {
        gated!(self, "get_cursor", self.inner.get_cursor(name))
    }
    async fn set_cursor(&self, cursor: &Cursor<A, L>) -> Result<(), Self::Error> {
        gated!(self, "set_cursor", self.inner.set_cursor(cursor))
    }
    async fn delete_cursor(&self, name: impl AsRef<str>) -> Result<(), Self::Error> {
        gated!(self, "delete_cursor", self.inner.delete_cursor(name))
    }
}

impl<ID, S: OrdererStore<ID>, G: Gate> OrdererStore<ID> for GatedStore<S, G> {
    type Error = GatedError<S::Error>;

    async fn mark_ready(&self, id: ID) -> Result<bool, Self::Error> {
        gated!(self, "mark_ready", self.inner.mark_ready(id))
    }
    async fn mark_pending(&self, id: ID, dependencies: Vec<ID>) -> Result<bool, Self::Error> {
        gated!(self, "mark_pending", self.inner.mark_pending(id, dependencies))
    }
    async fn get_next_pending(&self, id: ID) -> Result<Option<HashSet<(ID, Vec<ID>)>>, Self::Error> {
        gated!(self, "get_next_pending", self.inner.get_next_pending(id))
    }
    async fn take_next_ready(&self) -> Result<Option<ID>, Self::Error> {
        gated!(self, "take_next_ready", self.inner.take_next_ready())
    }
    async fn remove_pending(&self, id: ID) -> Result<bool, Self::Error> {
        gated!(self, "remove_pending", self.inner.remove_pending(id))
    }
    async fn ready(&self, keys: &[ID]) -> Result<bool, Self::Error> {
        gated!(self, "ready", self.inner.ready(keys))
    }
}
