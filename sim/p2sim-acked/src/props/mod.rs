#[cfg(feature = "hooks")]
pub mod c07;
#[cfg(feature = "hooks")]
pub mod c40;

pub fn all() -> Vec<&'static dyn simcore::Property> {
    #[allow(unused_mut)]
    let mut v: Vec<&'static dyn simcore::Property> = vec![];
    #[cfg(feature = "hooks")]
    {
        v.push(&c07::C07);
        v.push(&c40::C40);
    }
    v
}
