//! C11 — causal orderer releases items only after, and always after, their dependencies.
//! C12 — released orderer items survive cancellation of `next`.

use std::collections::BTreeSet;

use simcore::{Budget, Property, Tier, ctx, ev, stepexec, violation};

use super::ordworld::*;

pub struct C11Prop;
pub static C11: C11Prop = C11Prop;

impl Property for C11Prop {
    fn id(&self) -> &'static str {
        "C11"
    }
    fn budget(&self, tier: Tier) -> Budget {
        match tier {
            Tier::Quick => Budget { runs: 9_000, wall_cap_s: 45 },
            Tier::Thorough => Budget { runs: 120_000, wall_cap_s: 420 },
        }
    }
    fn modes(&self) -> u32 {
        4
    }
    fn mode_name(&self, mode: u32) -> &'static str {
        match mode {
            0 => "in-order delivery (fault-free)",
            2 => "all delivery permutations of a DAG with <= 4 nodes",
            _ => "random order + duplicates",
        }
    }
    fn rule(&self) -> &'static str {
        "one run = a random dependency DAG (<= 12 items; chains, diamonds, repeated dependency entries, dependencies that never arrive) delivered in a seeded order with duplicates (mode 2: every permutation of a small DAG) to the real orderer over the real SQLite OrdererStore, drained after every delivery or only at the end; safety checked on the output sequence, completeness against the least fixpoint of 'all dependencies (as a set) released'; non-trivial = at least one item with a dependency; distinct = distinct trace fingerprint (DAG, order, outputs)"
    }
    fn components_real(&self) -> Vec<&'static str> {
        vec!["p2panda_stream::orderer::Orderer (processor) and the CausalOrderer inside it", "p2panda_store OrdererStore impl for SqliteStore (ready / pending tables)", "SqliteStore transactions"]
    }
    fn components_stub(&self) -> Vec<&'static str> {
        vec!["the upstream stream layer (the harness calls process / next itself, cancelling a parked next() as Buffer's select! does)"]
    }
    fn expected_probes(&self) -> Vec<&'static str> {
        vec!["repeated_dependency_entry", "dependency_never_delivered", "blocked_item_stays_blocked", "shared_pending_parent"]
    }
    fn run(&self) {
        let mode = ctx::mode();
        stepexec::block_on(async move {
            let max_nodes = if mode == 2 { 4 } else { 12 };
            let dag = Dag::generate(max_nodes);
            ev!("dag: {}", dag.describe());
            if dag.deps.iter().any(|d| !d.is_empty()) {
                ctx::mark_nontrivial();
            }
            if dag.deps.iter().any(|d| d.iter().collect::<BTreeSet<_>>().len() >= 2) {
                ctx::probe("shared_pending_parent");
            }
            match mode {
                2 => {
                    // Exhaustive over delivery orders of this DAG.
                    let n = dag.items.len();
                    let mut perm: Vec<usize> = (0..n).collect();
                    let mut count = 0;
                    loop {
                        count += 1;
                        let outputs = run_seq(&dag, &perm, ctx::chance("drain_each", 1, 2)).await;
                        judge(&dag, &perm, &outputs, "Orderer");
                        if ctx::has_violation() || !next_permutation(&mut perm) {
                            break;
                        }
                    }
                    ev!("enumerated {count} permutations");
                }
                m => {
                    let order = delivery_order(&dag, m != 0);
                    ev!("delivery order: {order:?}");
                    let outputs = run_seq(&dag, &order, ctx::chance("drain_each", 1, 2)).await;
                    judge(&dag, &order, &outputs, "Orderer");
                }
            }
        });
    }
}

fn judge(dag: &Dag, order: &[usize], outputs: &[usize], site: &str) {
    let delivered: BTreeSet<usize> = order.iter().copied().collect();
    let first = dedupe_keep_first(outputs);
    check_safety(dag, &first, site);
    check_liveness(dag, &delivered, &first, site);
    let fix = dag.released_fixpoint(&delivered);
    if fix.len() < delivered.len() {
        ctx::probe("blocked_item_stays_blocked");
    }
    if outputs.len() != first.len() {
        ctx::probe("item_released_more_than_once");
    }
}

fn next_permutation(p: &mut [usize]) -> bool {
    let n = p.len();
    if n < 2 {
        return false;
    }
    let mut i = n - 1;
    while i > 0 && p[i - 1] >= p[i] {
        i -= 1;
    }
    if i == 0 {
        return false;
    }
    let mut j = n - 1;
    while p[j] <= p[i - 1] {
        j -= 1;
    }
    p.swap(i - 1, j);
    p[i..].reverse();
    true
}

// ------------------------------------------------------------------------------------------------

pub struct C12Prop;
pub static C12: C12Prop = C12Prop;

impl Property for C12Prop {
    fn id(&self) -> &'static str {
        "C12"
    }
    fn level(&self) -> &'static str {
        "fault_enumeration"
    }
    fn budget(&self, tier: Tier) -> Budget {
        match tier {
            Tier::Quick => Budget { runs: 700, wall_cap_s: 45 },
            Tier::Thorough => Budget { runs: 9_000, wall_cap_s: 420 },
        }
    }
    fn modes(&self) -> u32 {
        2
    }
    fn mode_name(&self, mode: u32) -> &'static str {
        match mode {
            0 => "fault-free: next() never cancelled except when parked with nothing ready",
            _ => "every store-call boundary and every in-flight store call of one next() as cancellation point",
        }
    }
    fn rule(&self) -> &'static str {
        "one run = a generated DAG scenario; a reference execution records the store calls one next() makes, then the scenario is re-executed once per cancellation point (before call k, and while call k is in flight on the SQLite worker, for every k), each on a fresh store: deliver, cancel next() at the point, optionally deliver more, drain; the multiset of outputs must cover the model's released set; evaluations counts runs, each enumerating all its cancellation points; distinct = distinct trace fingerprint"
    }
    fn components_real(&self) -> Vec<&'static str> {
        vec!["p2panda_stream::orderer::Orderer::{process,next}", "p2panda_stream::orderer::CausalOrderer", "SqliteStore OrdererStore / Transaction / OperationStore", "TransactionPermit::drop (rollback on cancel)"]
    }
    fn components_stub(&self) -> Vec<&'static str> {
        vec!["Buffer's select! (the harness drops the next() future at the enumerated point instead)"]
    }
    fn expected_probes(&self) -> Vec<&'static str> {
        vec!["cancel_between_commit_and_get_operation", "cancel_while_parked_on_notify", "process_after_cancel_ok"]
    }
    fn shrink_budget_s(&self, _tier: Tier) -> u64 {
        20
    }
    fn run(&self) {
        let mode = ctx::mode();
        let dag = std::sync::Arc::new(Dag::generate(5));
        ev!("dag: {}", dag.describe());
        let order = delivery_order(&dag, true);
        let split = ctx::choose("split", order.len() + 1).max(1).min(order.len());
        ev!("delivery order: {order:?}; next() is started after {split} deliveries");
        ctx::mark_nontrivial();
        let seed = ctx::seed();
        // Every execution (reference and each cancellation point) runs on a fresh thread with a
        // fresh runtime and store, so that std's per-thread hasher keys (HashSet iteration order
        // inside the orderer) are the same whatever happened before, including repeated attempts.
        let reference = run_point(dag.clone(), order.clone(), split, None, seed);
        ev!("reference next(): {} after {} store calls: {:?} and {} yields; all outputs {:?}", reference.first, reference.calls, reference.methods, reference.yields, reference.outputs);
        let delivered: BTreeSet<usize> = order.iter().copied().collect();
        let expect = dag.released_fixpoint(&delivered);
        let ref_set: BTreeSet<usize> = reference.outputs.iter().copied().collect();
        if reference.failed.is_some() || !expect.iter().all(|e| ref_set.contains(e)) {
            ev!("reference execution incomplete (C11 territory): outputs {:?}, expected {expect:?}, error {:?}; skipping", reference.outputs, reference.failed);
            return;
        }
        if mode == 0 {
            return;
        }
        if reference.yields > 0 {
            ctx::probe("next_yields_outside_store_calls");
        }
        let mut points: Vec<(u64, &'static str)> = vec![];
        for k in 0..reference.calls {
            points.push((k, "before"));
            points.push((k, "in-flight"));
        }
        for y in 0..reference.yields {
            points.push((y, "yield"));
        }
        {
            for (k, phase) in points {
                let mut res = None;
                for _attempt in 0..30 {
                    let r = run_point(dag.clone(), order.clone(), split, Some((k, phase)), seed);
                    // The store call completed without ever being Pending (the worker replied before
                    // the first poll finished): the in-flight window did not exist in this attempt.
                    let missed = phase == "in-flight" && r.missed;
                    res = Some(r);
                    if !missed {
                        break;
                    }
                }
                let r = res.unwrap();
                if r.missed {
                    ctx::probe("inflight_window_missed");
                }
                let site = match r.at {
                    Some((_, method, ph)) => {
                        ctx::fault("cancel_at");
                        let committed_before = r.methods.iter().take(k as usize + if ph == "in-flight" { 1 } else { 0 }).any(|m| *m == "commit");
                        if (method == "commit" && ph == "in-flight") || committed_before {
                            ctx::probe("cancel_between_commit_and_get_operation");
                        }
                        format!("next() dropped {ph} {method}{}", if committed_before { " (after take_next_ready was committed)" } else { "" })
                    }
                    None if phase == "yield" && r.first.starts_with("Cancelled") => {
                        ctx::fault("cancel_at");
                        format!("next() dropped at an await point outside the store calls (yield), after {} store calls", r.calls)
                    }
                    None => "no cancel".to_string(),
                };
                if r.first == "parked on notify, cancelled" {
                    ctx::probe("cancel_while_parked_on_notify");
                }
                ev!("point k={k} {phase}: next() {}; outputs afterwards {:?}", r.first, r.outputs);
                if let Some(f) = r.failed {
                    violation("orderer-unusable-after-cancel", &site, format!("{f}; dag {}; order {order:?}", dag.describe()));
                } else {
                    ctx::probe("process_after_cancel_ok");
                    let got: BTreeSet<usize> = r.outputs.iter().copied().collect();
                    if let Some(lost) = expect.iter().find(|e| !got.contains(e)) {
                        violation("released-item-lost", &site, format!("item {lost} was released by the orderer but never returned by any next() call; outputs {:?}, expected {expect:?}; dag {}; order {order:?}", r.outputs, dag.describe()));
                    }
                }
            }
        }
    }
}

pub struct PointResult {
    pub first: String,
    pub at: Option<(u64, &'static str, &'static str)>,
    pub missed: bool,
    pub calls: u64,
    /// Yields of the `next()` future outside store calls (await points that are not seams).
    pub yields: u64,
    pub methods: Vec<&'static str>,
    pub outputs: Vec<usize>,
    pub failed: Option<String>,
}

/// One execution on a fresh thread: deliver `order[..split]`, run one `next()` (cancelled at the
/// given point if any), deliver the rest, drain.
fn run_point(dag: std::sync::Arc<Dag>, order: Vec<usize>, split: usize, cancel: Option<(u64, &'static str)>, seed: u64) -> PointResult {
    std::thread::Builder::new()
        .name("sim-point".into())
        .spawn(move || {
            stepexec::block_on_seeded(seed, async move {
                let b = setup_level_b(&dag).await;
                let mut failed = None;
                for i in &order[..split] {
                    if let Err(e) = drive_process(&b, dag.items[*i].clone()).await {
                        failed = Some(format!("process() failed: {e}"));
                    }
                }
                {
                    let mut g = b.gate.borrow_mut();
                    g.base = g.calls;
                    match cancel {
                        Some((k, "before")) => g.cancel_before = Some(k),
                        Some((_, "yield")) => {}
                        Some((k, _)) => g.cancel_in_flight = Some(k),
                        None => {}
                    }
                }
                stepexec::reset_yields();
                if let Some((k, "yield")) = cancel {
                    stepexec::request_cancel_at_yield(k);
                }
                let first = drive_next(&b, &dag).await;
                let yields = stepexec::yields_seen();
                stepexec::reset_yields();
                let base = b.gate.borrow().base;
                let calls = b.gate.borrow().calls - base;
                let methods: Vec<&'static str> = b.gate.borrow().log[base as usize..].to_vec();
                let at = b.gate.borrow().cancelled_at;
                let missed = b.gate.borrow().missed_window;
                {
                    let mut g = b.gate.borrow_mut();
                    g.cancel_before = None;
                    g.cancel_in_flight = None;
                    g.armed_in_flight = false;
                }
                stepexec::clear_cancel_requests();
                settle(&b.sqlite).await;
                let mut outputs = vec![];
                let first_s = match (&first, at) {
                    (NextOutcome::Cancelled, Some((idx, method, ph))) => format!("cancelled {ph} store call #{idx} ({method})"),
                    (NextOutcome::Item(i), _) => {
                        outputs.push(*i);
                        format!("completed with item {i}")
                    }
                    (NextOutcome::ParkedAndCancelled, _) => "parked on notify, cancelled".to_string(),
                    (other, _) => format!("{other:?}"),
                };
                if failed.is_none() {
                    for i in &order[split..] {
                        if let Err(e) = drive_process(&b, dag.items[*i].clone()).await {
                            failed = Some(format!("process() after cancel failed: {e}"));
                            break;
                        }
                    }
                }
                if failed.is_none() {
                    if let Err(e) = drain(&b, &dag, &mut outputs).await {
                        failed = Some(format!("next() after cancel failed: {e}"));
                    }
                }
                b.sqlite.pool().close().await;
                PointResult { first: first_s, at: if matches!(first, NextOutcome::Cancelled) { at } else { None }, missed, calls, yields, methods, outputs, failed }
            })
        })
        .expect("spawn point thread")
        .join()
        .unwrap_or_else(|_| PointResult { first: "panicked".into(), at: None, missed: false, calls: 0, yields: 0, methods: vec![], outputs: vec![], failed: Some("panic in point execution".into()) })
}
