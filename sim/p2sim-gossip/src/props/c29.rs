//! C29 — Gossip overlay is left exactly when the last handle is gone.
//!
//! StepExec (the slow path of `Gossip::stream` asks the real `AddressBook`, an actor on its own
//! thread over SQLite: a foreign wait). Real: `Gossip::stream` (fast and slow path, both `RwLock`s),
//! `GossipHandle::{subscribe, clone, drop}`, `GossipSubscription::drop`, `TopicDropGuard`,
//! `AddressBook`. Stub: the gossip manager is a probe actor on the simulator's runtime which logs
//! `Subscribe` / `Unsubscribe` in mailbox order and answers `Subscribe` at once or when the overlay
//! (harness) decides. The H4 yield point between `has_subscriptions()` and `guard.clone()` is a
//! harness gate: other activities run while the caller sits in the window (holding the read lock on
//! the senders map, exactly like a preempted thread would).

use std::cell::RefCell;
use std::collections::{BTreeMap, BTreeSet};
use std::future::Future;
use std::pin::Pin;
use std::rc::Rc;
use std::sync::{Arc, Mutex};
use std::task::{Context, Poll};

use p2panda_core::Topic;
use p2panda_net::gossip::{GossipError, GossipHandle, GossipSubscription};
use simcore::stepexec::{self, Policy, StepExec};
use simcore::{Budget, Property, Tier, ctx, ev, violation};
use simworld::logworld::topic;

use crate::world::{self, ProbeEvent, Shared};

const SITE_WINDOW: &str = "Gossip::stream fast path: last handle dropped between has_subscriptions() and guard.clone()";
const SITE_SLOW: &str = "Gossip::stream slow path: two concurrent calls for one topic both miss the fast path and both subscribe";
const SITE_NONE: &str = "no window preemption and no concurrent slow path involved";

#[allow(dead_code)] // held for their Drop
enum Obj {
    Handle(GossipHandle),
    Sub(GossipSubscription),
}

struct Held {
    id: usize,
    topic: usize,
    obj: Obj,
    /// The backing session of this handle has been determined (by publishing a marker).
    checked: bool,
}

/// Activities parked at the H4 yield point (they hold the read lock on `senders`) -> topic. Shared
/// with the yield future, which has to be `Send`.
type Window = Arc<Mutex<BTreeMap<usize, usize>>>;

#[derive(Default)]
struct Model {
    pool: Vec<Held>,
    next_id: usize,
    in_window: Window,
    /// Activities inside `Gossip::stream` -> (topic, blocked in `senders.read()` behind a queued writer).
    calling: BTreeMap<usize, (usize, bool)>,
    /// Activities whose slow path waits in `senders.write()`.
    writers_queued: BTreeSet<usize>,
    /// Attribution per topic.
    window_drop: BTreeSet<usize>,
    preempt_window: bool,
    /// 0 = Subscribe answered at once, 1 = always late, 2 = late for a third of the calls.
    hold_mode: u8,
}

impl Model {
    fn alive(&self, t: usize) -> usize {
        self.pool.iter().filter(|h| h.topic == t).count()
    }
    /// Attribution of a stale / missing subscription behind a live handle.
    fn site(&self, t: usize, concurrent_slow_paths: bool) -> &'static str {
        if self.window_drop.contains(&t) {
            SITE_WINDOW
        } else if concurrent_slow_paths {
            SITE_SLOW
        } else {
            SITE_NONE
        }
    }
    /// Attribution of two `Subscribe`s in a row (the window alone cannot produce them).
    fn site_double(&self, t: usize, concurrent_slow_paths: bool) -> &'static str {
        if concurrent_slow_paths {
            SITE_SLOW
        } else if self.window_drop.contains(&t) {
            SITE_WINDOW
        } else {
            SITE_NONE
        }
    }
}

/// Wraps one `Gossip::stream` call of an activity: tells the probe who is calling and classifies a
/// `Pending` exactly (window gate / held `Subscribe` / `RwLock` park / foreign wait).
struct StreamCall<F> {
    act: usize,
    topic: usize,
    fut: Pin<Box<F>>,
    model: Rc<RefCell<Model>>,
    probe: Shared,
    started: bool,
    /// The manager answers a `Subscribe` of this call only when the schedule releases it.
    hold: bool,
}

impl<F: Future<Output = Result<GossipHandle, GossipError>>> Future for StreamCall<F> {
    type Output = Result<GossipHandle, GossipError>;

    fn poll(mut self: Pin<&mut Self>, cx: &mut Context<'_>) -> Poll<Self::Output> {
        let act = self.act;
        self.probe.lock().expect("probe").current = Some((act, cx.waker().clone()));
        {
            let model = self.model.clone();
            let mut m = model.borrow_mut();
            if !self.started {
                // Will the manager answer a Subscribe of this call late? (value 0 = at once)
                let hold = match m.hold_mode {
                    0 => false,
                    1 => true,
                    _ => ctx::chance("hold.this.call", 1, 3),
                };
                self.hold = hold;
                // tokio's RwLock is write-preferring: a reader arriving behind a queued writer waits.
                let blocked = !m.writers_queued.is_empty();
                let t = self.topic;
                m.calling.insert(act, (t, blocked));
            } else if let Some(c) = m.calling.get_mut(&act) {
                // Re-polled after a park in `senders.read()`: the lock woke us, we hold it now.
                c.1 = false;
            }
        }
        self.started = true;
        self.probe.lock().expect("probe").hold = self.hold;
        let r = self.fut.as_mut().poll(cx);
        let mut m = self.model.borrow_mut();
        let mut p = self.probe.lock().expect("probe");
        match r {
            Poll::Ready(out) => {
                m.calling.remove(&act);
                m.writers_queued.remove(&act);
                p.in_flight.retain(|(a, _)| *a != Some(act));
                m.in_window.lock().expect("window").remove(&act);
                p.replied.retain(|a| *a != act);
                Poll::Ready(out)
            }
            Poll::Pending => {
                if m.in_window.lock().expect("window").contains_key(&act) {
                    // The window gate marked the park itself.
                } else if p.replied.contains(&act) {
                    // `Subscribe` answered: the only await left is `senders.write()`.
                    m.writers_queued.insert(act);
                    ctx::probe("slow_path_parked_on_senders_write_lock");
                    stepexec::mark_parked();
                } else if p.holding(act) {
                    // The overlay has not answered our `Subscribe` yet.
                    stepexec::mark_parked();
                } else if m.calling.get(&act).map(|c| c.1).unwrap_or(false) {
                    ctx::probe("reader_parked_behind_queued_writer");
                    stepexec::mark_parked();
                }
                // Otherwise: waiting for the address book thread or for the probe actor to take the
                // request out of its mailbox: a foreign wait, the executor awaits the wake.
                Poll::Pending
            }
        }
    }
}

pub struct C29Prop;
pub static C29: C29Prop = C29Prop;

impl Property for C29Prop {
    fn id(&self) -> &'static str {
        "C29"
    }
    fn budget(&self, tier: Tier) -> Budget {
        match tier {
            Tier::Quick => Budget { runs: 12_000, wall_cap_s: 40 },
            Tier::Thorough => Budget { runs: 120_000, wall_cap_s: 360 },
        }
    }
    fn modes(&self) -> u32 {
        4
    }
    fn mode_name(&self, mode: u32) -> &'static str {
        match mode {
            0 => "interleaving at operation boundaries only, manager answers at once (fault-free)",
            1 => "preemption inside the check/clone window of Gossip::stream",
            2 => "manager answers every Subscribe late (other activities run while a slow path waits)",
            _ => "window preemption, and the manager answers a third of the Subscribe calls late",
        }
    }
    fn rule(&self) -> &'static str {
        "one run = 2-4 activities, each 2-7 operations drawn when they execute over a shared pool of objects on 1-2 topics: gossip.stream(topic), handle.subscribe(), handle.clone(), drop of a handle or subscription; scheduled seam-to-seam with a gate before every operation; faulty modes park the caller at the H4 yield point between has_subscriptions() and guard.clone() (read lock held) and / or let the probe manager hold its Subscribe answers until the schedule releases them; parks on the two tokio RwLocks are classified from the model (write-preferring); after every step the probe's mailbox-ordered Subscribe/Unsubscribe log is compared with the number of live handles+subscriptions per topic, at the end everything is dropped; non-trivial = two activities used the same topic; distinct = distinct trace fingerprint"
    }
    fn components_real(&self) -> Vec<&'static str> {
        vec![
            "p2panda_net Gossip::stream (fast path under senders.read(), slow path: address book query, Subscribe call, senders.write())",
            "p2panda_net GossipHandle::{subscribe, clone, drop}, GossipSubscription::drop, TopicDropGuard (counter, clone_without_increment, Unsubscribe on drop)",
            "p2panda_net AddressBook actor (own thread) over in-memory SQLite: node_infos_by_topics",
            "tokio RwLock (write-preferring) inside Gossip",
        ]
    }
    fn components_stub(&self) -> Vec<&'static str> {
        vec!["gossip manager: probe ractor actor on the simulator's runtime, logs Subscribe / Unsubscribe in mailbox order, answers with harness-owned channels at once or when released", "iroh endpoint / iroh-gossip sessions: not run"]
    }
    fn assumptions(&self) -> Vec<&'static str> {
        vec!["the yield point models preemption by another worker thread of a multi-threaded runtime at a place without .await; the read guard on the senders map stays held, as it would", "the address book query of a slow path is not a scheduling point (it precedes the Subscribe call and touches no shared state); the wait for the Subscribe answer is"]
    }
    fn expected_probes(&self) -> Vec<&'static str> {
        vec!["drop_of_last_handle_inside_check_clone_window", "stream_fast_path_taken", "stream_slow_path_after_all_dropped", "concurrent_slow_paths_same_topic", "slow_path_parked_on_senders_write_lock", "reader_parked_behind_queued_writer"]
    }
    fn run(&self) {
        let mode = ctx::mode();
        let preempt_window = mode == 1 || mode == 3;
        let hold = mode >= 2;
        let n_acts = ctx::range("activities", 2, 4);
        let n_topics = ctx::range("topics", 1, 2);
        ev!("mode {mode}: {n_acts} activities, {n_topics} topic(s), window preemption {preempt_window}, late Subscribe answers {hold}");
        let ops_per_act: Vec<usize> = (0..n_acts).map(|_| ctx::range("ops", 2, 7)).collect();

        stepexec::block_on(async move {
            let w = match world::setup(16, 16).await {
                Ok(w) => w,
                Err(e) => {
                    violation("setup-failed", "AddressBook / probe", e);
                    return;
                }
            };
            let topics: Vec<Topic> = (0..n_topics).map(|i| topic(i as u64)).collect();
            let model = Rc::new(RefCell::new(Model { preempt_window, hold_mode: match mode { 2 => 1, 3 => 2, _ => 0 }, ..Default::default() }));

            // H4 yield point = harness gate.
            {
                let model = model.clone();
                p2panda_core::verif::set_yield_handler(move |name| {
                    if name != "gossip.stream.between_check_and_clone" {
                        return None;
                    }
                    let act = stepexec::current_activity()?;
                    ctx::probe("stream_fast_path_taken");
                    if !model.borrow().preempt_window || !ctx::chance("preempt.window", 2, 3) {
                        return None;
                    }
                    let parks = 1 + ctx::choose("window.parks", 3);
                    let t = model.borrow().calling.get(&act).map(|c| c.0).unwrap_or(usize::MAX);
                    let window = model.borrow().in_window.clone();
                    // H0 wants a `Send` future: it owns only plain values and the shared window map.
                    let fut: Pin<Box<dyn Future<Output = ()> + Send>> = Box::pin(async move {
                        window.lock().expect("window").insert(act, t);
                        ctx::fault("preempt(gossip.stream.between_check_and_clone)");
                        ev!("  activity {act}: preempted between has_subscriptions() and guard.clone() (topic {t})");
                        for _ in 0..parks {
                            stepexec::gate().await;
                        }
                        window.lock().expect("window").remove(&act);
                        ev!("  activity {act}: resumes in the window, clones the guard");
                    });
                    Some(fut)
                });
            }

            let mut ex = StepExec::new();
            // Every park is classified exactly by `StreamCall` / the gates; what is left are replies
            // from the address book thread and the probe actor. The executor's real-time safety net
            // must not cut such a wait short on a loaded machine (that would be a timing-dependent
            // schedule): make it a watchdog instead.
            ex.fallback = std::time::Duration::from_secs(60);
            let users: Rc<RefCell<BTreeMap<usize, BTreeSet<usize>>>> = Rc::new(RefCell::new(BTreeMap::new()));
            for (a, n_ops) in ops_per_act.iter().copied().enumerate() {
                let gossip = w.gossip.clone();
                let model = model.clone();
                let probe = w.probe.clone();
                let topics = topics.clone();
                let users = users.clone();
                let act = ex.add(&format!("act{a}"), Policy::ForeignDefault, async move {
                    for _ in 0..n_ops {
                        stepexec::gate().await;
                        if ctx::has_violation() {
                            return;
                        }
                        let pool_len = model.borrow().pool.len();
                        // value 0 = stream(topic 0)
                        let mut op = if pool_len == 0 { 0 } else { ctx::choose("op", 7) };
                        if pool_len >= 4 && op < 4 && ctx::chance("trim", 1, 2) {
                            op = 6;
                        }
                        match op {
                            0 | 1 => {
                                let t = ctx::choose("topic", topics.len());
                                users.borrow_mut().entry(t).or_default().insert(a);
                                if users.borrow()[&t].len() >= 2 {
                                    ctx::mark_nontrivial();
                                }
                                let alive = model.borrow().alive(t);
                                ev!("activity {a}: gossip.stream(topic {t}) [alive {alive}]");
                                if alive == 0 && !probe.lock().expect("probe").events_for(&topics[t]).is_empty() {
                                    ctx::probe("stream_slow_path_after_all_dropped");
                                }
                                let call = StreamCall { act: a, topic: t, fut: Box::pin(gossip.stream(topics[t])), model: model.clone(), probe: probe.clone(), started: false, hold: false };
                                match call.await {
                                    Ok(h) => {
                                        let mut m = model.borrow_mut();
                                        m.next_id += 1;
                                        let id = m.next_id;
                                        m.pool.push(Held { id, topic: t, obj: Obj::Handle(h), checked: false });
                                        ev!("activity {a}: stream(topic {t}) -> handle h{id}");
                                    }
                                    Err(e) => {
                                        violation("stream-failed", "Gossip::stream", format!("activity {a}, topic {t}: {e}"));
                                    }
                                }
                            }
                            2 | 3 => {
                                let mut m = model.borrow_mut();
                                let handles: Vec<usize> = m.pool.iter().enumerate().filter(|(_, h)| matches!(h.obj, Obj::Handle(_))).map(|(i, _)| i).collect();
                                if handles.is_empty() {
                                    continue;
                                }
                                let i = handles[ctx::choose("handle", handles.len())];
                                let t = m.pool[i].topic;
                                let from = m.pool[i].id;
                                let new = match (&m.pool[i].obj, op) {
                                    (Obj::Handle(h), 2) => Obj::Sub(h.subscribe()),
                                    (Obj::Handle(h), _) => Obj::Handle(h.clone()),
                                    _ => unreachable!(),
                                };
                                m.next_id += 1;
                                let id = m.next_id;
                                ev!("activity {a}: h{from}.{} -> {}{id} (topic {t})", if op == 2 { "subscribe()" } else { "clone()" }, if op == 2 { "s" } else { "h" });
                                m.pool.push(Held { id, topic: t, obj: new, checked: false });
                            }
                            _ => {
                                let victim = {
                                    let mut m = model.borrow_mut();
                                    let i = ctx::choose("drop", m.pool.len());
                                    m.pool.remove(i)
                                };
                                let t = victim.topic;
                                let left = model.borrow().alive(t);
                                ev!("activity {a}: drop {}{} (topic {t}, {left} left)", if matches!(victim.obj, Obj::Handle(_)) { "h" } else { "s" }, victim.id);
                                if left == 0 {
                                    let mut m = model.borrow_mut();
                                    let someone_in_window = m.in_window.lock().expect("window").values().any(|x| *x == t);
                                    if someone_in_window {
                                        m.window_drop.insert(t);
                                        ctx::probe("drop_of_last_handle_inside_check_clone_window");
                                        ev!("  -> the last reference for topic {t} goes away while another activity sits in the check/clone window");
                                    }
                                }
                                drop(victim);
                            }
                        }
                    }
                });
                assert_eq!(act, a);
            }

            // ---- schedule -------------------------------------------------------------------------
            let mut steps = 0u64;
            let mut seen_log = 0usize;
            let mut stalled: Option<String> = None;
            loop {
                tokio::task::yield_now().await;
                let runnable = ex.runnable();
                let held = w.probe.lock().expect("probe").held.len();
                let n = runnable.len() + held;
                if n == 0 {
                    break;
                }
                let k = ctx::choose("sched", n);
                if k < runnable.len() {
                    let fallbacks = ctx::with(|c| c.fallback_classifications);
                    if let Err(s) = ex.run_activity(runnable[k]).await {
                        stalled = Some(s.name);
                        break;
                    }
                    if ctx::with(|c| c.fallback_classifications) > fallbacks {
                        stalled = Some(format!("{} (no reply within 60 s real time)", ex.name(runnable[k])));
                        break;
                    }
                } else {
                    let (act, t) = w.probe.lock().expect("probe").release(k - runnable.len());
                    let ti = topics.iter().position(|x| *x == t).unwrap_or(usize::MAX);
                    ev!("overlay answers the Subscribe of activity {act:?} for topic {ti}");
                }
                steps += 1;
                check(&w, &model, &topics, &mut seen_log, false).await;
                if ctx::has_violation() || steps > 2_000 {
                    break;
                }
            }
            ctx::add_steps(steps);
            if let Some(name) = stalled {
                violation("stream-never-returns", "activity stalled in a foreign wait", name);
            }
            let unfinished: Vec<usize> = ex.alive();
            if !ctx::has_violation() && !unfinished.is_empty() {
                let m = model.borrow();
                violation("stream-never-returns", "activities parked forever inside Gossip::stream", format!("activities {unfinished:?} never finished; in window {:?}, writers queued {:?}, calling {:?}", m.in_window, m.writers_queued, m.calling));
            }
            // ---- quiescence: drop whatever is left, one by one ------------------------------------
            drop(ex);
            while !ctx::has_violation() {
                let next = {
                    let mut m = model.borrow_mut();
                    if m.pool.is_empty() { None } else { Some(m.pool.remove(0)) }
                };
                let Some(h) = next else { break };
                ev!("end: drop {}{} (topic {})", if matches!(h.obj, Obj::Handle(_)) { "h" } else { "s" }, h.id, h.topic);
                drop(h);
                let last = model.borrow().pool.is_empty();
                check(&w, &model, &topics, &mut seen_log, last).await;
            }
            model.borrow_mut().pool.clear();
            p2panda_core::verif::clear_yield_handler();
            let world::World { gossip, book, store, actor, .. } = w;
            drop(gossip);
            actor.stop(None);
            drop(book);
            store.pool().close().await;
        });
    }
}

/// The oracle. `alive` = handles + subscriptions the harness holds for a topic; the probe's log is
/// in mailbox order; the session a handle is attached to is found out by publishing a marker
/// through it and looking at which `Subscribe`'s to-gossip channel it arrives.
async fn check(w: &world::World, model: &Rc<RefCell<Model>>, topics: &[Topic], seen_log: &mut usize, quiescent: bool) {
    if let Err(e) = w.barrier().await {
        violation("probe-failed", "harness probe actor", e);
        return;
    }
    let show = |evs: &[ProbeEvent]| evs.iter().map(|e| if matches!(e, ProbeEvent::Subscribe(_)) { "S" } else { "U" }).collect::<Vec<_>>().join(" ");
    {
        let p = w.probe.lock().expect("probe");
        for e in &p.log[*seen_log..] {
            let (what, t) = match e {
                ProbeEvent::Subscribe(t) => ("Subscribe", t),
                ProbeEvent::Unsubscribe(t) => ("Unsubscribe", t),
                ProbeEvent::Shutdown => continue,
            };
            ev!("    manager mailbox: {what}(topic {})", topics.iter().position(|x| x == t).unwrap_or(usize::MAX));
        }
        *seen_log = p.log.len();
        let m = model.borrow();
        for (ti, t) in topics.iter().enumerate() {
            let evs = p.events_for(t);
            let csp = p.concurrent_slow_paths.contains(t);
            if csp {
                ctx::probe("concurrent_slow_paths_same_topic");
            }
            if evs.windows(2).any(|w| matches!(w[0], ProbeEvent::Subscribe(_)) && matches!(w[1], ProbeEvent::Subscribe(_))) {
                violation("subscribed-twice-without-unsubscribe", m.site_double(ti, csp), format!("topic {ti}: manager log {}", show(&evs)));
            }
            let alive = m.alive(ti);
            let last_is_sub = matches!(evs.last(), Some(ProbeEvent::Subscribe(_)));
            if alive > 0 && !last_is_sub {
                violation("handle-not-backed-by-active-subscription", m.site(ti, csp), format!("topic {ti}: {alive} live handle(s)/subscription(s) but the manager log is {} (overlay left or never joined)", show(&evs)));
            }
            if quiescent && alive == 0 && last_is_sub {
                violation("overlay-not-left-after-last-drop", m.site(ti, csp), format!("topic {ti}: every handle and subscription is dropped but the manager log ends with Subscribe: {}", show(&evs)));
            }
        }
    }
    if ctx::has_violation() {
        return;
    }
    let nth = |x: Option<usize>| x.map(|i| (i + 1).to_string()).unwrap_or_else(|| "none".into());
    // New handles: which session are they attached to? It has to be the one of the last Subscribe.
    let unchecked: Vec<(usize, usize)> = model
        .borrow_mut()
        .pool
        .iter_mut()
        .filter(|h| !h.checked)
        .filter_map(|h| {
            h.checked = true;
            matches!(h.obj, Obj::Handle(_)).then_some((h.id, h.topic))
        })
        .collect();
    for (id, ti) in unchecked {
        let marker = format!("marker-h{id}").into_bytes();
        {
            // No activity runs during the check: the borrow may live across the await.
            let m = model.borrow();
            let Some(Held { obj: Obj::Handle(g), .. }) = m.pool.iter().find(|h| h.id == id) else { continue };
            if let Err(e) = g.publish(marker.clone()).await {
                violation("publish-failed", "GossipHandle::publish", format!("h{id}: {e}"));
                continue;
            }
        }
        let mut p = w.probe.lock().expect("probe");
        let sessions: Vec<usize> = p.overlays.iter().enumerate().filter(|(_, o)| o.topic == topics[ti]).map(|(i, _)| i).collect();
        let mut arrived: Option<usize> = None;
        for (nth, i) in sessions.iter().enumerate() {
            while let Ok(f) = p.overlays[*i].to_gossip_rx.try_recv() {
                if f == marker {
                    arrived = Some(nth);
                }
            }
        }
        let active = sessions.len().checked_sub(1);
        let m = model.borrow();
        if arrived != active {
            violation(
                "handle-not-backed-by-active-subscription",
                m.site(ti, p.concurrent_slow_paths.contains(&topics[ti])),
                format!("topic {ti}: a message published through the new handle h{id} arrives in the session opened by Subscribe no. {} of this topic, the active session is no. {} (manager log {})", nth(arrived), nth(active), show(&p.events_for(&topics[ti]))),
            );
        }
    }
}
