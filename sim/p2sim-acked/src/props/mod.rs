pub fn all() -> Vec<&'static dyn simcore::Property> {
    vec![]
}
