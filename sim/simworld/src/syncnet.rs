//! SyncNet: a network of peers, each with a real `TopicSyncManager`, its `ManagerEventStream`, a
//! `MemStore` and real `TopicLogSync` sessions (live mode) to its neighbours over `SimDuplex`, on the
//! DES engine. New operations are published at seeded peers and instants while copies travel over
//! several paths. Used by C23 (live forwarding), C22 (lifecycle, two-peer form) and C40 (metrics).

use std::cell::RefCell;
use std::collections::{BTreeMap, BTreeSet};
use std::rc::Rc;
use std::time::Duration;

use futures_util::{SinkExt, StreamExt};
use p2panda_core::{Hash, Operation, SigningKey, Topic, VerifyingKey};
use p2panda_store::Transaction;
use p2panda_store::operations::OperationStore;
use p2panda_store::topics::TopicStore;
use p2panda_sync::manager::TopicSyncManager;
use p2panda_sync::protocols::{TopicLogSyncEvent, TopicLogSyncMessage};
use p2panda_sync::traits::{Manager, Protocol};
use p2panda_sync::{FromSync, SessionConfig, ToSync};
use simcore::duplex::{Engine, Link, LinkConfig, link};
use simcore::{ctx, des, ev};

use crate::logworld::{LogIdT, Op, SimExt, make_body, make_op, op_label, signing_key, topic};
use crate::memstore::{MemError, MemHooks, MemStore};
use crate::syncwire::{Evt, ToWire, Wire, from_topic_event};

pub type Msg = TopicLogSyncMessage<LogIdT, SimExt>;

#[derive(Clone)]
pub struct NetHooks {
    pub latency: bool,
}

impl MemHooks for NetHooks {
    async fn point(&self, _m: &'static str) -> Result<(), MemError> {
        if self.latency {
            des::delay("store.latency", &[0, 0, 0, 300, 2_000]).await;
        }
        Ok(())
    }
}

pub type Store = MemStore<NetHooks>;
pub type Mgr = TopicSyncManager<Topic, Store, LogIdT, SimExt>;

#[derive(Clone, Copy, Debug, PartialEq, Eq)]
pub enum Topology {
    Line,
    Star,
    Ring,
    Mesh,
}

#[derive(Clone, Debug)]
pub struct NetCfg {
    pub peers: usize,
    pub topology: Topology,
    pub initial_ops_max: usize,
    pub publishes: usize,
    pub latency: bool,
    /// Cut one link at a seeded instant (connection loss).
    pub cut_link: bool,
    /// Send Close to every session at the end and wait for the sessions to return.
    pub close_at_end: bool,
    /// Bulk volume: this peer starts with a log of 1100-1300 operations (more than the 1028 slots
    /// of a session's live-mode channel or the 1024 entries of a de-duplication buffer).
    pub bulk_peer: Option<usize>,
}

pub struct SessionRec {
    pub peer: usize,
    pub remote: usize,
    pub session_id: u64,
    pub link_out: Link<Msg>,
    pub result: Option<Result<(), String>>,
    /// Events straight from the session's broadcast channel (subscribed before the session ran).
    pub events: Vec<(u64, TopicLogSyncEvent<SimExt>)>,
    pub cut: bool,
}

impl SessionRec {
    pub fn sent(&self) -> Vec<Wire> {
        self.link_out.borrow().transcript.iter().map(|m| m.to_wire()).collect()
    }
    pub fn evts(&self) -> Vec<Evt> {
        self.events.iter().map(|(_, e)| from_topic_event(e.clone())).collect()
    }
}

pub struct PeerRec {
    pub key: SigningKey,
    pub initial: Vec<Op>,
    /// Everything the manager's event stream yielded to the consumer, in order.
    pub consumed: Vec<(u64, FromSync<TopicLogSyncEvent<SimExt>>)>,
    pub final_ids: BTreeSet<Hash>,
}

pub struct NetOutcome {
    pub cfg: NetCfg,
    pub peers: Vec<PeerRec>,
    pub sessions: Vec<SessionRec>,
    /// (sim time, peer, op)
    pub published: Vec<(u64, usize, Op)>,
    pub all_ops: BTreeMap<Hash, Op>,
    pub hang: bool,
    pub converged_at_us: Option<u64>,
    pub sessions_finished: bool,
    pub edges: Vec<(usize, usize)>,
}

pub fn edges_of(t: Topology, n: usize) -> Vec<(usize, usize)> {
    let mut e = vec![];
    match t {
        Topology::Line => {
            for i in 0..n.saturating_sub(1) {
                e.push((i, i + 1));
            }
        }
        Topology::Star => {
            for i in 1..n {
                e.push((0, i));
            }
        }
        Topology::Ring => {
            for i in 0..n {
                let j = (i + 1) % n;
                if i != j && !e.contains(&(j.min(i), j.max(i))) {
                    e.push((i.min(j), i.max(j)));
                }
            }
        }
        Topology::Mesh => {
            for i in 0..n {
                for j in i + 1..n {
                    e.push((i, j));
                }
            }
        }
    }
    e
}

async fn insert_own(store: &Store, op: &Op, t: &Topic) {
    let s = MemStore { inner: store.inner.clone(), sem: store.sem.clone(), hooks: NetHooks { latency: false } };
    let permit = s.begin().await.expect("begin");
    s.insert_operation(&op.hash, op, &op.header.extensions.log_id).await.expect("insert");
    <Store as TopicStore<Topic, VerifyingKey, LogIdT>>::associate(&s, t, &op.header.verifying_key, &op.header.extensions.log_id).await.expect("associate");
    s.commit(permit).await.expect("commit");
}

pub fn run_net(cfg: &NetCfg) -> NetOutcome {
    let n = cfg.peers;
    let t = topic(0);
    let edges = edges_of(cfg.topology, n);
    let keys: Vec<SigningKey> = (0..n as u64).map(|i| signing_key(10 + i)).collect();
    // Initial content: each peer authors one log with 0..=initial_ops_max operations; peers start
    // with their own log only (sync spreads it).
    let mut initial: Vec<Vec<Op>> = vec![];
    let mut heads: Vec<(u32, Option<Hash>)> = vec![];
    for (i, k) in keys.iter().enumerate() {
        let cnt = if cfg.bulk_peer == Some(i) { ctx::range("net.bulk_ops", 1100, 1300) } else { ctx::choose("net.initial_ops", cfg.initial_ops_max + 1) };
        let mut ops = vec![];
        let mut backlink = None;
        for seq in 0..cnt as u32 {
            let op = make_op(k, i as u64, seq, backlink, false, make_body(ctx::seed() ^ (i as u64) << 8 ^ seq as u64, 1));
            backlink = Some(op.hash);
            ops.push(op);
        }
        heads.push((cnt as u32, backlink));
        initial.push(ops);
    }
    ev!("net: {} peers {:?} edges {:?}; initial ops per peer {:?}; {} publishes; latency={} cut_link={}", n, cfg.topology, edges, initial.iter().map(|v| v.len()).collect::<Vec<_>>(), cfg.publishes, cfg.latency, cfg.cut_link);

    let sessions: Rc<RefCell<Vec<SessionRec>>> = Rc::new(RefCell::new(vec![]));
    let consumed: Rc<RefCell<Vec<Vec<(u64, FromSync<TopicLogSyncEvent<SimExt>>)>>>> = Rc::new(RefCell::new(vec![vec![]; n]));
    let published: Rc<RefCell<Vec<(u64, usize, Op)>>> = Rc::new(RefCell::new(vec![]));
    let finals: Rc<RefCell<Vec<BTreeSet<Hash>>>> = Rc::new(RefCell::new(vec![BTreeSet::new(); n]));
    let converged: Rc<RefCell<Option<u64>>> = Rc::new(RefCell::new(None));
    let finished = Rc::new(std::cell::Cell::new(false));

    let ev_rxs: Rc<RefCell<Vec<tokio::sync::broadcast::Receiver<TopicLogSyncEvent<SimExt>>>>> = Rc::new(RefCell::new(vec![]));
    let rx2 = ev_rxs.clone();
    let cfg2 = cfg.clone();
    let (s2, c2, p2, f2, cv2, fin2) = (sessions.clone(), consumed.clone(), published.clone(), finals.clone(), converged.clone(), finished.clone());
    let keys2 = keys.clone();
    let initial2 = initial.clone();
    let edges2 = edges.clone();

    let r = des::run(move || async move {
        let cfg = cfg2;
        let stores: Vec<Store> = (0..n).map(|_| MemStore::with_hooks(NetHooks { latency: cfg.latency && cfg.bulk_peer.is_none() })).collect();
        for (i, ops) in initial2.iter().enumerate() {
            for op in ops {
                insert_own(&stores[i], op, &t).await;
            }
        }
        let mut mgrs: Vec<Mgr> = stores.iter().map(|s| TopicSyncManager::new(s.clone())).collect();
        // Consumers: read the manager's event stream, ingest received operations.
        for i in 0..n {
            let mut events = mgrs[i].subscribe();
            let store = stores[i].clone();
            let c = c2.clone();
            des::spawn(async move {
                while let Some(fs) = events.next().await {
                    let now = des::now_us();
                    if let TopicLogSyncEvent::OperationReceived { operation, .. } = &fs.event {
                        let op: &Operation<SimExt> = operation;
                        let _ = p2panda_stream::ingest::ingest_operation(&store, op, &op.header.extensions.log_id, &t, op.header.extensions.prune).await;
                    }
                    c.borrow_mut()[i].push((now, fs));
                }
            });
        }
        // Sessions.
        let mut sid = 0u64;
        let mut handles: Vec<(usize, u64)> = vec![];
        let mut joins = vec![];
        for (ei, (a, b)) in edges2.iter().copied().enumerate() {
            let mut lc = LinkConfig::new(Engine::Des);
            lc.preempt_den = 0;
            lc.latency_us = if cfg.latency { vec![0, 200, 2_000, 20_000, 80_000] } else { vec![0] };
            if cfg.bulk_peer.is_some() {
                // Bulk scenario: the link of the bulk peer is fast, every other link slow, so that
                // the neighbour's other sessions are still in their sync phase while the bulk
                // arrives and is forwarded to their live-mode channels.
                lc.latency_us = if ei == 0 { vec![0, 200] } else { vec![80_000, 200_000] };
            }
            let (a_tx, b_rx) = link::<Msg>("a->b", lc.clone());
            let (b_tx, a_rx) = link::<Msg>("b->a", lc);
            for (me, other, tx, rx) in [(a, b, a_tx, a_rx), (b, a, b_tx, b_rx)] {
                let id = sid;
                sid += 1;
                let conf = SessionConfig { topic: t, remote: keys2[other].verifying_key(), live_mode: true };
                let proto = mgrs[me].session(id, &conf).await;
                rx2.borrow_mut().push(proto.event_tx.subscribe());
                let idx = s2.borrow().len();
                s2.borrow_mut().push(SessionRec { peer: me, remote: other, session_id: id, link_out: tx.link.clone(), result: None, events: vec![], cut: false });
                handles.push((me, id));
                let s3 = s2.clone();
                let (mut tx, mut rx) = (tx, rx);
                joins.push(des::spawn(async move {
                    let r = proto.run(&mut tx, &mut rx).await.map_err(|e| e.to_string());
                    s3.borrow_mut()[idx].result = Some(r);
                }));
            }
        }
        // Optional link cut.
        if cfg.cut_link && !edges2.is_empty() {
            let which = ctx::choose("net.cut_which", edges2.len());
            let at = *ctx::pick("net.cut_at", &[500u64, 5_000, 30_000, 120_000, 400_000]);
            let s3 = s2.clone();
            des::spawn(async move {
                tokio::time::sleep(Duration::from_micros(at)).await;
                let mut s = s3.borrow_mut();
                for k in [2 * which, 2 * which + 1] {
                    s[k].link_out.borrow_mut().force_close();
                    s[k].cut = true;
                }
                ctx::fault("partition");
                ev!("t={}us: link {which} cut", des::now_us());
            });
        }
        // Publishes.
        let mut heads = heads;
        for _ in 0..cfg.publishes {
            des::delay("net.publish_gap", &[0, 0, 1_000, 10_000, 50_000, 200_000]).await;
            let p = ctx::choose("net.publish_peer", n);
            let (seq, backlink) = heads[p];
            let op = make_op(&keys2[p], p as u64, seq, backlink, false, make_body(ctx::seed() ^ 0xabcd ^ ((p as u64) << 8) ^ seq as u64, 1));
            heads[p] = (seq + 1, Some(op.hash));
            insert_own(&stores[p], &op, &t).await;
            p2.borrow_mut().push((des::now_us(), p, op.clone()));
            ev!("t={}us: peer {p} publishes {}", des::now_us(), op_label(&op));
            for (me, id) in &handles {
                if *me == p {
                    if let Some(mut h) = mgrs[p].session_handle(*id).await {
                        let _ = h.send(ToSync::Payload(op.clone())).await;
                    }
                }
            }
        }
        // Wait for convergence (bounded): every peer's store holds every operation.
        let total: usize = initial2.iter().map(|v| v.len()).sum::<usize>() + cfg.publishes;
        let deadline = tokio::time::Instant::now() + Duration::from_secs(120);
        loop {
            let all = stores.iter().all(|s| s.snapshot().ops.len() == total);
            if all {
                *cv2.borrow_mut() = Some(des::now_us());
                break;
            }
            if tokio::time::Instant::now() >= deadline {
                break;
            }
            tokio::time::sleep(Duration::from_millis(20)).await;
        }
        if cfg.close_at_end {
            for (me, id) in &handles {
                if let Some(mut h) = mgrs[*me].session_handle(*id).await {
                    let _ = h.send(ToSync::Close).await;
                }
            }
            let all = tokio::time::timeout(Duration::from_secs(120), async {
                for j in joins {
                    let _ = j.await;
                }
            })
            .await;
            fin2.set(all.is_ok());
        }
        // Let consumers drain.
        tokio::time::sleep(Duration::from_millis(200)).await;
        for (i, s) in stores.iter().enumerate() {
            f2.borrow_mut()[i] = s.snapshot().ops.keys().copied().collect();
        }
    });

    let mut all_ops: BTreeMap<Hash, Op> = BTreeMap::new();
    for v in &initial {
        for o in v {
            all_ops.insert(o.hash, o.clone());
        }
    }
    for (_, _, o) in published.borrow().iter() {
        all_ops.insert(o.hash, o.clone());
    }
    let consumed = std::mem::take(&mut *consumed.borrow_mut());
    let finals = std::mem::take(&mut *finals.borrow_mut());
    let peers: Vec<PeerRec> = keys
        .into_iter()
        .enumerate()
        .map(|(i, key)| PeerRec { key, initial: initial[i].clone(), consumed: consumed.get(i).cloned().unwrap_or_default(), final_ids: finals.get(i).cloned().unwrap_or_default() })
        .collect();
    let mut sessions = std::mem::take(&mut *sessions.borrow_mut());
    for (i, rx) in ev_rxs.borrow_mut().iter_mut().enumerate() {
        while let Ok(e) = rx.try_recv() {
            if let Some(s) = sessions.get_mut(i) {
                s.events.push((0, e));
            }
        }
    }
    let published = std::mem::take(&mut *published.borrow_mut());
    let converged_at_us = *converged.borrow();
    NetOutcome { cfg: cfg.clone(), peers, sessions, published, all_ops, hang: r.is_err(), converged_at_us, sessions_finished: finished.get(), edges }
}
