//! C10 — Store transactions are atomic and serialized under any abort point.
//!
//! StepExec over the real `SqliteStore` transaction machinery (`begin` with its `Semaphore(1)`,
//! `commit`, `rollback`, `TransactionPermit::drop`): 2–5 concurrent writers, each running one or
//! two transactions made of read-modify-write steps, ending in commit / rollback / early return
//! with an error (permit dropped) / plain drop, or being cancelled at a gate or while blocked in
//! `begin()`. `TxModel` knows who holds the permit (so it can tell a park on the semaphore from a
//! wait for SQLite) and folds the committed scripts in commit order.

use std::cell::RefCell;
use std::collections::BTreeMap;
use std::rc::Rc;

use p2panda_core::{Body, Cursor, Hash, Operation, SeqNum, Topic, VerifyingKey};
use p2panda_store::cursors::CursorStore;
use p2panda_store::logs::LogStore;
use p2panda_store::operations::OperationStore;
use p2panda_store::topics::TopicStore;
use p2panda_store::{SqliteStore, Transaction};
use simcore::stepexec::{self, Policy, Step, StepExec};
use simcore::{Budget, Property, Tier, ctx, ev, violation};
use simworld::gated::{Gate, GatedStore};
use simworld::logworld::{LogIdT, SimExt, make_op, signing_key, topic};
use simworld::populate::{sqlite_file, sqlite_memory};

const LOG: LogIdT = 7;

#[derive(Clone, Copy, Debug, PartialEq, Eq)]
enum End {
    Commit,
    Rollback,
    ErrReturn,
    DropPermit,
}

#[derive(Clone, Debug)]
enum StepKind {
    Append,
    Associate(u64),
    SetCursor(u32),
}

#[derive(Clone, Debug)]
struct TxScript {
    steps: Vec<StepKind>,
    end: End,
}

#[derive(Default)]
struct TxModel {
    holder: Option<usize>,
    /// Writers parked on the semaphore, in the order they tried to acquire it (tokio's is FIFO).
    queue: std::collections::VecDeque<usize>,
    /// A waiter that was handed the permit by a *dropped* permit: its wake comes from the spawned
    /// rollback task at a timing-dependent moment, so the harness waits for it before the next
    /// scheduling decision.
    pending_wake: Option<usize>,
    /// Set when a permit was dropped with an open transaction (rollback task spawned).
    dropped_permit: bool,
    /// Effects of committed transactions in commit order: (writer, tx index).
    commit_order: Vec<(usize, usize)>,
    /// Bodies appended by each (writer, tx) in order.
    appended: BTreeMap<(usize, usize), Vec<Vec<u8>>>,
    assoc: BTreeMap<(usize, usize), Vec<u64>>,
    cursor: BTreeMap<(usize, usize), u32>,
    /// gate counter per writer (for cancellation points)
    gates: BTreeMap<usize, u64>,
    cancel_at: BTreeMap<usize, u64>,
    cancel_requested: Option<usize>,
    in_commit: Option<(usize, usize)>,
}

impl TxModel {
    /// Writer `w` polls `acquire_owned()` for the first time.
    fn attempt(&mut self, w: usize) {
        if self.holder.is_none() && self.queue.is_empty() {
            self.holder = Some(w);
        } else if self.holder != Some(w) && !self.queue.contains(&w) {
            self.queue.push_back(w);
        }
    }
    /// The holder gives the permit back (commit / rollback returned, or the permit was dropped and
    /// its rollback task will release it): it goes to the first waiter.
    fn release_by_drop(&mut self, w: usize) {
        let held = self.holder == Some(w);
        self.release(w);
        if held {
            self.pending_wake = self.holder;
            self.dropped_permit = true;
        }
    }
    fn release(&mut self, w: usize) {
        if self.holder == Some(w) {
            self.holder = self.queue.pop_front();
        } else {
            self.queue.retain(|x| *x != w);
        }
    }
}

#[derive(Clone)]
struct WriterGate {
    model: Rc<RefCell<TxModel>>,
    /// In a third of the commits another writer runs one step while the COMMIT is in flight
    /// (file database only: with the single connection of the in-memory pool the other writer
    /// could need the very connection the suspended writer still owns).
    overlap_commit: bool,
}

impl Gate for WriterGate {
    async fn before(&self, _method: &'static str) -> Result<(), String> {
        let Some(me) = stepexec::current_activity() else { return Ok(()) };
        let cancel = {
            let mut m = self.model.borrow_mut();
            let g = m.gates.entry(me).or_insert(0);
            let idx = *g;
            *g += 1;
            m.cancel_at.get(&me) == Some(&idx)
        };
        if cancel {
            self.model.borrow_mut().cancel_requested = Some(me);
            stepexec::request_cancel_now();
            stepexec::gate().await;
        } else {
            // Every store call is a scheduling point.
            stepexec::preempt("tx.gate", 2).await;
        }
        if _method == "begin" {
            self.model.borrow_mut().attempt(me);
        }
        if _method == "commit" && self.overlap_commit && ctx::chance("commit.overlap", 1, 3) {
            // The COMMIT stays inside SQLite's commit hook on the worker thread until one step of
            // another writer has run (released through `StepExec::overlap_release`).
            ctx::fault("step_during_in_flight_commit");
            simworld::populate::hold_commits(true);
            stepexec::request_preempt_in_flight();
        }
        Ok(())
    }
    fn after(&self, method: &'static str) {
        if method == "commit" {
            stepexec::clear_preempt_request();
            simworld::populate::hold_commits(false);
        }
    }
}

type GS = GatedStore<SqliteStore, WriterGate>;

async fn run_tx(store: &GS, model: &Rc<RefCell<TxModel>>, w: usize, t: usize, script: &TxScript) -> Result<(), String> {
    let key = signing_key(0);
    let author = key.verifying_key();
    let permit = match store.begin().await {
        Ok(p) => p,
        // Only possible on the pool with the short acquire timeout (begin-failure runs): on an
        // overloaded machine even an idle connection can take longer than that to arrive. The
        // transaction then simply did not happen; the permit went back when `begin()` returned.
        Err(e) if e.to_string().contains("pool timed out") => {
            ctx::probe("begin_timed_out_under_load");
            model.borrow_mut().release(w);
            return Ok(());
        }
        Err(e) => return Err(format!("begin: {e}")),
    };
    {
        let prev = model.borrow().holder;
        if prev != Some(w) {
            violation("two-permits-at-once", "SqliteStore::begin", format!("writer {w} got the permit while the model says holder = {prev:?}"));
            model.borrow_mut().holder = Some(w);
        }
    }
    let body_fn = |s: usize| format!("w{w}t{t}s{s}").into_bytes();
    let result: Result<(), String> = async {
        for (s, step) in script.steps.iter().enumerate() {
            match step {
                StepKind::Append => {
                    let latest = <GS as LogStore<Operation<SimExt>, VerifyingKey, LogIdT, SeqNum, Hash>>::get_latest_entry_tx(store, &author, &LOG).await.map_err(|e| format!("get_latest_entry_tx: {e}"))?;
                    let (seq, backlink) = match &latest {
                        Some(o) => (o.header.seq_num + 1, Some(o.hash)),
                        None => (0, None),
                    };
                    let op = make_op(&key, LOG, seq, backlink, false, Some(Body::from(body_fn(s))));
                    let inserted = store.insert_operation(&op.hash, &op, &LOG).await.map_err(|e| format!("insert_operation: {e}"))?;
                    if !inserted {
                        return Err("insert_operation returned false for a fresh operation".into());
                    }
                    model.borrow_mut().appended.entry((w, t)).or_default().push(body_fn(s));
                }
                StepKind::Associate(l) => {
                    <GS as TopicStore<Topic, VerifyingKey, LogIdT>>::associate(store, &topic(0), &author, l).await.map_err(|e| format!("associate: {e}"))?;
                    model.borrow_mut().assoc.entry((w, t)).or_default().push(*l);
                }
                StepKind::SetCursor(h) => {
                    let mut state: BTreeMap<VerifyingKey, BTreeMap<LogIdT, SeqNum>> = BTreeMap::new();
                    state.entry(author).or_default().insert(LOG, *h);
                    let c: Cursor<VerifyingKey, LogIdT> = Cursor::new("c10", state);
                    store.set_cursor(&c).await.map_err(|e| format!("set_cursor: {e}"))?;
                    model.borrow_mut().cursor.insert((w, t), *h);
                }
            }
        }
        Ok(())
    }
    .await;
    if let Err(e) = result {
        // Store error inside the transaction: give the permit back like `?` would.
        model.borrow_mut().release_by_drop(w);
        drop(permit);
        return Err(e);
    }
    match script.end {
        End::Commit => {
            model.borrow_mut().in_commit = Some((w, t));
            let r = store.commit(permit).await;
            let mut m = model.borrow_mut();
            m.in_commit = None;
            m.release(w);
            match r {
                Ok(()) => {
                    m.commit_order.push((w, t));
                    Ok(())
                }
                Err(e) => Err(format!("commit: {e}")),
            }
        }
        End::Rollback => {
            let r = store.rollback(permit).await;
            model.borrow_mut().release(w);
            r.map_err(|e| format!("rollback: {e}"))
        }
        End::ErrReturn | End::DropPermit => {
            model.borrow_mut().release_by_drop(w);
            drop(permit);
            Ok(())
        }
    }
}

pub struct C10Prop;
pub static C10: C10Prop = C10Prop;

impl Property for C10Prop {
    fn id(&self) -> &'static str {
        "C10"
    }
    fn budget(&self, tier: Tier) -> Budget {
        match tier {
            Tier::Quick => Budget { runs: 6_000, wall_cap_s: 45 },
            Tier::Thorough => Budget { runs: 90_000, wall_cap_s: 420 },
        }
    }
    fn modes(&self) -> u32 {
        4
    }
    fn mode_name(&self, mode: u32) -> &'static str {
        match mode {
            0 => "in-memory pool (1 connection), no cancellation (fault-free)",
            1 => "in-memory pool (1 connection), writers cancelled at gates / while blocked in begin()",
            2 => "file database (4 connections), no cancellation",
            _ => "file database (4 connections), writers cancelled at gates / while blocked in begin()",
        }
    }
    fn rule(&self) -> &'static str {
        "one run = 2-5 concurrent writers, each 1-2 transactions of 1-3 read-modify-write steps (append to one shared log with seq = latest+1, associate, set_cursor) ending in commit / rollback / dropped permit, scheduled seam-to-seam with a scheduling point before every store call; faulty modes cancel writers at a seeded store-call boundary or while parked in begin(); final state read through the pool must equal the fold of the committed transactions in commit order and every surviving writer must finish; non-trivial = at least two writers; distinct = distinct trace fingerprint (scripts, schedule, commit order)"
    }
    fn components_real(&self) -> Vec<&'static str> {
        vec!["p2panda_store::SqliteStore::{begin, commit, rollback, tx}", "TransactionPermit::drop (spawned rollback, permit release)", "tokio Semaphore(1) inside SqliteStore", "tx-bound LogStore / OperationStore / TopicStore / CursorStore queries", "sqlx SQLite pool (1 and 4 connections)"]
    }
    fn components_stub(&self) -> Vec<&'static str> {
        vec!["none: writers are harness scripts over the public typed API"]
    }
    fn assumptions(&self) -> Vec<&'static str> {
        vec!["cancellation points are store-call boundaries and the park inside begin(); dropping a writer while a pool-level command is in flight (sqlx discards the connection) is not part of this check", "a writer cancelled before calling commit() counts as aborted"]
    }
    fn expected_probes(&self) -> Vec<&'static str> {
        vec!["writer_parked_in_begin", "permit_dropped_with_open_tx", "cancel_while_parked_in_begin", "begin_after_abort_completed", "commit_left_in_flight", "begin_failed_pool_exhausted"]
    }
    fn run(&self) {
        let mode = ctx::mode();
        let file_db = mode >= 2;
        let faults = mode % 2 == 1;
        let n_writers = ctx::range("writers", 2, 5);
        ctx::mark_nontrivial();
        let mut scripts: Vec<Vec<TxScript>> = vec![];
        for _ in 0..n_writers {
            let n_tx = ctx::range("txs", 1, 2);
            let mut v = vec![];
            for _ in 0..n_tx {
                let n_steps = ctx::range("steps", 1, 3);
                let steps = (0..n_steps)
                    .map(|_| match ctx::choose("step.kind", 4) {
                        0 | 1 => StepKind::Append,
                        2 => StepKind::Associate(ctx::choose("assoc.log", 4) as u64),
                        _ => StepKind::SetCursor(ctx::choose("cursor.h", 100) as u32),
                    })
                    .collect();
                let end = match ctx::choose("end", 6) {
                    0 | 1 | 2 => End::Commit,
                    3 => End::Rollback,
                    4 => End::ErrReturn,
                    _ => End::DropPermit,
                };
                v.push(TxScript { steps, end });
            }
            scripts.push(v);
        }
        for (w, s) in scripts.iter().enumerate() {
            ev!("writer {w}: {}", s.iter().map(|t| format!("[{:?} -> {:?}]", t.steps, t.end)).collect::<Vec<_>>().join(" "));
        }
        let path = format!("/dev/shm/p2sim-c10-{}-{:x}.sqlite", std::process::id(), ctx::seed());
        struct Cleanup(Option<String>);
        impl Drop for Cleanup {
            fn drop(&mut self) {
                if let Some(p) = &self.0 {
                    for s in ["", "-wal", "-shm", "-journal"] {
                        let _ = std::fs::remove_file(format!("{p}{s}"));
                    }
                }
            }
        }
        let _cleanup = Cleanup(if file_db { Some(path.clone()) } else { None });

        stepexec::block_on(async move {
            // A `begin()` that fails (every pool connection is checked out, the pool gives up after
            // one second) before the writers start: it must leave the permit machinery as it found it.
            let begin_failure = file_db && faults && ctx::chance("begin.fails", 1, 8);
            let sqlite = if begin_failure {
                let _ = std::fs::remove_file(&path);
                let s = simworld::populate::sqlite_file_with_acquire_timeout(&path, 4, std::time::Duration::from_millis(1000)).await;
                simworld::populate::install_commit_hold(&s, 4).await;
                let hog = simworld::populate::hog_connections(&s, 4).await;
                match <SqliteStore as Transaction>::begin(&s).await {
                    Err(e) => {
                        ctx::fault("begin_fails(pool_exhausted)");
                        ctx::probe("begin_failed_pool_exhausted");
                        ev!("a begin() with every pool connection checked out failed: {e}");
                    }
                    Ok(p) => {
                        ev!("begin() unexpectedly succeeded with every pool connection checked out");
                        let _ = <SqliteStore as Transaction>::rollback(&s, p).await;
                    }
                }
                drop(hog);
                s
            } else if file_db {
                let _ = std::fs::remove_file(&path);
                let s = sqlite_file(&path, 4).await;
                simworld::populate::install_commit_hold(&s, 4).await;
                s
            } else {
                sqlite_memory().await
            };
            let model = Rc::new(RefCell::new(TxModel::default()));
            let store: GS = GatedStore::new(sqlite.clone(), WriterGate { model: model.clone(), overlap_commit: file_db });
            let mut ex = StepExec::new();
            simworld::populate::hold_commits(false);
            ex.overlap_release = Some(Box::new(|| simworld::populate::hold_commits(false)));
            let results: Rc<RefCell<BTreeMap<usize, Vec<Result<(), String>>>>> = Rc::new(RefCell::new(BTreeMap::new()));
            for (w, txs) in scripts.iter().cloned().enumerate() {
                let store = store.clone();
                let model2 = model.clone();
                let res = results.clone();
                let act = ex.add(&format!("writer{w}"), Policy::Gated, async move {
                    for (t, script) in txs.iter().enumerate() {
                        let r = run_tx(&store, &model2, w, t, script).await;
                        res.borrow_mut().entry(w).or_default().push(r);
                    }
                });
                assert_eq!(act, w);
                let m3 = model.clone();
                ex.set_hint(act, move || {
                    let m = m3.borrow();
                    matches!(m.holder, Some(h) if h != w)
                });
            }
            // Cancellation plan.
            let mut cancel_in_begin: Option<usize> = None;
            if faults {
                for w in 0..n_writers {
                    match ctx::choose("cancel.kind", 5) {
                        1 | 2 => {
                            let at = ctx::choose("cancel.at", 12) as u64;
                            model.borrow_mut().cancel_at.insert(w, at);
                            ev!("plan: cancel writer {w} before its store call #{at}");
                        }
                        3 => {
                            if cancel_in_begin.is_none() {
                                cancel_in_begin = Some(w);
                                ev!("plan: cancel writer {w} the first time it is parked in begin()");
                            }
                        }
                        _ => {}
                    }
                }
            }
            let mut cancelled: Vec<usize> = vec![];
            let mut steps = 0;
            let mut stall = None;
            let baseline_tasks = stepexec::alive_runtime_tasks();
            let mut skip_runtime_turn = false;
            loop {
                // A permit was dropped with an open transaction: its rollback runs in a task the
                // store spawned. Whether that task or the next writer gets to run first is a
                // schedule decision like any other: either the task runs to completion now, or the
                // next activity is polled before the runtime gets a turn.
                let dropped = std::mem::take(&mut model.borrow_mut().dropped_permit);
                if dropped {
                    if ctx::chance("rollback_task_first", 1, 2) {
                        if !stepexec::drain_runtime_tasks(baseline_tasks, std::time::Duration::from_secs(10)).await {
                            stall = Some("rollback task of a dropped permit never finished".into());
                            break;
                        }
                    } else {
                        ctx::probe("next_writer_polled_before_rollback_task");
                        skip_runtime_turn = true;
                    }
                }
                let pw = model.borrow_mut().pending_wake.take();
                // (Only meaningful while that writer is still the one the permit was handed to.)
                let still_assigned = pw.is_some() && model.borrow().holder == pw;
                if let Some(h) = pw.filter(|_| still_assigned) {
                    if !skip_runtime_turn && ex.is_alive(h) && !ex.runnable().contains(&h) && !ex.wait_for_wake(h).await {
                        stall = Some(format!("writer{h} (permit never released after an abort)"));
                        break;
                    }
                    if skip_runtime_turn {
                        model.borrow_mut().pending_wake = Some(h);
                    }
                }
                let stepped = if skip_runtime_turn && !ex.runnable().is_empty() {
                    skip_runtime_turn = false;
                    ex.step_without_runtime_turn().await
                } else {
                    skip_runtime_turn = false;
                    ex.step().await
                };
                match stepped {
                    Ok(Step::Quiescent) => {
                        // The model knows whether a live writer has been handed the permit and is
                        // only waiting for a dropped permit's rollback task to release it.
                        let next = model.borrow().holder;
                        match next {
                            Some(h) if ex.is_alive(h) => {
                                if !ex.wait_for_wake(h).await {
                                    stall = Some(format!("writer{h} (permit never released after an abort)"));
                                    break;
                                }
                                continue;
                            }
                            _ => break,
                        }
                    }
                    Ok(Step::Cancelled { act }) => {
                        // Dropped at a store-call boundary; if it held the permit, that permit
                        // is now being rolled back by the spawned task.
                        let mut m = model.borrow_mut();
                        let held = m.holder == Some(act);
                        if held {
                            ctx::probe("permit_dropped_with_open_tx");
                        }
                        m.release_by_drop(act);
                        m.cancel_requested = None;
                        drop(m);
                        ctx::fault("cancel_at");
                        ev!("writer {act} cancelled at a store-call boundary (held permit: {held})");
                        cancelled.push(act);
                    }
                    Ok(Step::Ran { act, finished }) => {
                        if !finished && ex.is_in_flight(act) {
                            ctx::probe("commit_left_in_flight");
                        } else if !finished && !ex.runnable().contains(&act) {
                            // Parked: on the semaphore inside begin().
                            ctx::probe("writer_parked_in_begin");
                            if cancel_in_begin == Some(act) {
                                ex.cancel(act);
                                model.borrow_mut().release(act);
                                cancel_in_begin = None;
                                cancelled.push(act);
                                ctx::fault("cancel_at");
                                ctx::probe("cancel_while_parked_in_begin");
                                ev!("writer {act} cancelled while parked in begin()");
                            }
                        }
                    }
                    Err(s) => {
                        stall = Some(s.name.clone());
                        break;
                    }
                }
                steps += 1;
                if steps > 20_000 {
                    stall = Some("step budget".into());
                    break;
                }
            }
            let m = model.borrow();
            ev!("commit order: {:?}; cancelled writers: {:?}", m.commit_order, cancelled);
            if let Some(s) = stall {
                violation("transaction-never-completes", "store call stalled (watchdog)", format!("activity {s} did not get an answer from the store; holder {:?}", m.holder));
                return;
            }
            // Liveness: every writer that was not cancelled finished all its transactions.
            for w in 0..n_writers {
                if cancelled.contains(&w) {
                    continue;
                }
                if ex.is_alive(w) {
                    let after_abort = !cancelled.is_empty() || scripts.iter().flatten().any(|t| t.end != End::Commit);
                    violation("begin-never-completes", if after_abort { "writer parked in begin() forever after an aborted transaction" } else { "writer parked in begin() forever" }, format!("writer {w} is still blocked at quiescence; model holder {:?}; cancelled {cancelled:?}", m.holder));
                    return;
                }
                for r in results.borrow().get(&w).cloned().unwrap_or_default() {
                    if let Err(e) = r {
                        violation("transaction-failed", "store error in a fault-free transaction", format!("writer {w}: {e}"));
                        return;
                    }
                }
            }
            if !cancelled.is_empty() || scripts.iter().flatten().any(|t| t.end != End::Commit) {
                ctx::probe("begin_after_abort_completed");
            }
            drop(ex);
            // Wait for a possibly pending rollback of the last dropped permit, then read the
            // committed state through the pool.
            if let Ok(p) = sqlite.begin().await {
                let _ = sqlite.rollback(p).await;
            }
            let author = signing_key(0).verifying_key();
            let entries = <SqliteStore as LogStore<Operation<SimExt>, VerifyingKey, LogIdT, SeqNum, Hash>>::get_log_entries(&sqlite, &author, &LOG, None, None).await;
            let entries = match entries {
                Ok(e) => e.unwrap_or_default(),
                Err(e) => {
                    violation("database-unusable-after-run", "get_log_entries", e.to_string());
                    return;
                }
            };
            let got_bodies: Vec<Vec<u8>> = entries.iter().map(|(o, _)| o.body.as_ref().map(|b| b.to_bytes()).unwrap_or_default()).collect();
            let mut expect_bodies: Vec<Vec<u8>> = vec![];
            let mut expect_assoc: std::collections::BTreeSet<u64> = Default::default();
            let mut expect_cursor: Option<u32> = None;
            for k in &m.commit_order {
                expect_bodies.extend(m.appended.get(k).cloned().unwrap_or_default());
                expect_assoc.extend(m.assoc.get(k).cloned().unwrap_or_default());
                if let Some(c) = m.cursor.get(k) {
                    expect_cursor = Some(*c);
                }
            }
            let show = |v: &Vec<Vec<u8>>| v.iter().map(|b| String::from_utf8_lossy(b).to_string()).collect::<Vec<_>>().join(",");
            if got_bodies != expect_bodies {
                let aborted_trace = got_bodies.iter().any(|b| !expect_bodies.contains(b));
                violation(
                    "committed-state-differs-from-serial-fold",
                    if aborted_trace { "effects of an aborted transaction are visible" } else { "committed effects missing or reordered" },
                    format!("log holds [{}], serial fold of committed transactions gives [{}]", show(&got_bodies), show(&expect_bodies)),
                );
            }
            for (i, (o, _)) in entries.iter().enumerate() {
                if o.header.seq_num != i as u32 {
                    violation("log-not-gap-free", "non-serialized read-modify-write", format!("entry {i} has seq {}", o.header.seq_num));
                    break;
                }
            }
            let assoc = <SqliteStore as TopicStore<Topic, VerifyingKey, LogIdT>>::resolve(&sqlite, &topic(0)).await.map(|m| m.get(&author).cloned().unwrap_or_default().into_iter().collect::<std::collections::BTreeSet<u64>>());
            if let Ok(a) = assoc {
                if a != expect_assoc {
                    violation("committed-state-differs-from-serial-fold", "topic associations", format!("store {a:?} fold {expect_assoc:?}"));
                }
            }
            let cur: Result<Option<Cursor<VerifyingKey, LogIdT>>, _> = sqlite.get_cursor("c10").await;
            if let Ok(c) = cur {
                let got = c.and_then(|c| c.log_height(&author, &LOG).copied());
                if got != expect_cursor {
                    violation("committed-state-differs-from-serial-fold", "cursor", format!("store {got:?} fold {expect_cursor:?}"));
                }
            }
            sqlite.pool().close().await;
        });
    }
}
