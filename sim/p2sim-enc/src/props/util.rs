//! Small helpers shared by the encryption checks (candidates for `simworld` once they settle):
//! seeded key material, `Secret<N>` construction through the crate's own wire format, short hex
//! for trace lines, wall-clock helpers in whole seconds, and a datagram pool (the synchronous
//! stand-in for a lossy, reordering, duplicating network).

use p2panda_encryption::Rng;
use p2panda_encryption::crypto::Secret;
use simcore::ctx;
use simcore::libc_seams;
use simworld::logworld::key_bytes;

/// Deterministic 32 bytes for this run: a function of the run seed and an index.
pub fn seeded_bytes(index: u64) -> [u8; 32] {
    key_bytes(ctx::seed(), index)
}

/// The crate's ChaCha RNG seeded from the run seed (never the OS).
pub fn seeded_rng(index: u64) -> Rng {
    Rng::from_seed(seeded_bytes(0x726e_6700 + index))
}

/// `Secret::from_bytes` is crate-private; go through the public serde implementation (CBOR byte
/// string, the same encoding the crate uses on the wire).
pub fn secret32(bytes: [u8; 32]) -> Secret<32> {
    let enc = p2panda_core::cbor::encode_cbor(&serde_bytes::Bytes::new(&bytes)).expect("encode 32 bytes");
    p2panda_core::cbor::decode_cbor::<Secret<32>, _>(&enc[..]).expect("decode Secret<32>")
}

pub fn hex(bytes: &[u8]) -> String {
    let mut s = String::with_capacity(bytes.len() * 2);
    for b in bytes {
        s.push_str(&format!("{b:02x}"));
    }
    s
}

/// First four bytes as hex — enough to tell generated things apart in a trace.
pub fn hex4(bytes: &[u8]) -> String {
    hex(&bytes[..bytes.len().min(4)])
}

/// Simulated wall clock in whole seconds (what `SystemTime::now().as_secs()` reads in the crate).
pub fn now_s() -> u64 {
    libc_seams::wall_us() / 1_000_000
}

/// Largest second the clock seam can represent (i64 nanoseconds), with headroom.
pub const MAX_CLOCK_S: u64 = 9_000_000_000;

/// Set the simulated wall clock to `s` seconds plus `frac_us` microseconds.
pub fn set_clock_s(s: u64, frac_us: u64) {
    libc_seams::set_wall_us(s.min(MAX_CLOCK_S) * 1_000_000 + frac_us % 1_000_000);
}

/// A pool of datagrams in flight. The choice stream decides which one is delivered next (index 0 =
/// the oldest = FIFO), whether it is lost, and whether a copy stays in flight.
pub struct DatagramPool<M> {
    in_flight: Vec<(M, u32)>,
    pub max_copies: u32,
}

pub enum Delivery<M> {
    /// Delivered; `reordered` = it was not the oldest datagram in flight; `copy` = n-th copy (0 = original).
    Deliver { msg: M, reordered: bool, copy: u32 },
    Lost { msg: M },
}

impl<M: Clone> DatagramPool<M> {
    pub fn new(msgs: Vec<M>) -> Self {
        DatagramPool { in_flight: msgs.into_iter().map(|m| (m, 0)).collect(), max_copies: 2 }
    }

    pub fn len(&self) -> usize {
        self.in_flight.len()
    }

    pub fn is_empty(&self) -> bool {
        self.in_flight.is_empty()
    }

    /// One network step. `span` ≥ 1 bounds how far a datagram can overtake (1 = FIFO);
    /// `loss_den` / `dup_den`: probability 1/den, 0 = never. Returns the delivery and, when a
    /// duplicate was left in flight, its queue position.
    pub fn step(&mut self, span: usize, loss_den: usize, dup_den: usize) -> (Delivery<M>, Option<usize>) {
        let n = self.in_flight.len();
        debug_assert!(n > 0);
        let idx = ctx::choose("net.next", span.max(1).min(n));
        let (msg, copy) = self.in_flight.remove(idx);
        if loss_den > 0 && ctx::chance("net.drop", 1, loss_den) {
            ctx::fault("drop");
            return (Delivery::Lost { msg }, None);
        }
        if idx > 0 {
            ctx::fault("reorder");
        }
        let mut dup_at = None;
        if dup_den > 0 && copy < self.max_copies && ctx::chance("net.dup", 1, dup_den) {
            ctx::fault("duplicate");
            let at = ctx::choose("net.dup_at", self.in_flight.len() + 1);
            self.in_flight.insert(at, (msg.clone(), copy + 1));
            dup_at = Some(at);
        }
        (Delivery::Deliver { msg, reordered: idx > 0, copy }, dup_at)
    }
}
