//! C23 — Live mode forwards every new operation once to every other session.
//! C22 (network modes) — session event lifecycle, on the same SyncNet world.

use std::collections::{BTreeMap, BTreeSet};

use p2panda_core::Hash;
use p2panda_sync::protocols::TopicLogSyncEvent;
use simcore::{Budget, Property, Tier, ctx, ev, violation};
use simworld::logworld::{op_label, short};
use simworld::syncnet::{NetCfg, NetOutcome, Topology, run_net};
use simworld::syncwire::Wire;

pub fn draw_cfg(faulty: bool) -> NetCfg {
    // One run in 100: three peers in a line, the first holds a log of 1100-1300 operations. The
    // middle peer receives them over one session while its other session (slower link) is still
    // in its sync phase, so more operations are forwarded than that session's live-mode channel
    // holds: forwarding must wait (back-pressure), not drop.
    if !faulty && ctx::chance("net.bulk", 1, 100) {
        ctx::fault("bulk_volume(>1028 operations forwarded to one session)");
        return NetCfg { peers: 3, topology: Topology::Line, initial_ops_max: 2, publishes: ctx::range("net.publishes", 1, 3), latency: true, cut_link: false, close_at_end: true, bulk_peer: Some(0) };
    }
    let peers = ctx::range("net.peers", 2, 5);
    let topology = *ctx::pick("net.topology", &[Topology::Line, Topology::Star, Topology::Ring, Topology::Mesh]);
    NetCfg {
        peers,
        topology,
        initial_ops_max: 3,
        publishes: ctx::range("net.publishes", 1, 8),
        latency: faulty || ctx::chance("net.latency", 1, 2),
        cut_link: faulty && ctx::chance("net.cut", 1, 2),
        close_at_end: true,
        bulk_peer: None,
    }
}

pub fn connected_without_cut(out: &NetOutcome) -> bool {
    let n = out.peers.len();
    let mut adj: BTreeMap<usize, Vec<usize>> = BTreeMap::new();
    for (i, (a, b)) in out.edges.iter().enumerate() {
        let cut = out.sessions.get(2 * i).map(|s| s.cut).unwrap_or(false);
        if !cut {
            adj.entry(*a).or_default().push(*b);
            adj.entry(*b).or_default().push(*a);
        }
    }
    let mut seen = BTreeSet::from([0usize]);
    let mut stack = vec![0usize];
    while let Some(x) = stack.pop() {
        for y in adj.get(&x).cloned().unwrap_or_default() {
            if seen.insert(y) {
                stack.push(y);
            }
        }
    }
    seen.len() == n
}

pub fn log_outcome(out: &NetOutcome) {
    let name = |h: &Hash| out.all_ops.get(h).map(op_label).unwrap_or_else(|| short(h));
    for s in &out.sessions {
        let sent: Vec<String> = s
            .sent()
            .iter()
            .map(|w| match w {
                Wire::Op { hash, .. } => format!("Op({})", name(hash)),
                Wire::Live { hash } => format!("Live({})", name(hash)),
                other => other.label(),
            })
            .collect();
        ev!("session {} (peer {} -> peer {}){}: sent {} | events {} | result {:?}", s.session_id, s.peer, s.remote, if s.cut { " [link cut]" } else { "" }, sent.join(" "), s.evts().iter().map(|e| e.label()).collect::<Vec<_>>().join(" "), s.result);
    }
    for (i, p) in out.peers.iter().enumerate() {
        let ops: Vec<String> = p
            .consumed
            .iter()
            .filter_map(|(_, fs)| match &fs.event {
                TopicLogSyncEvent::OperationReceived { operation, .. } => Some(format!("{}@s{}", name(&operation.hash), fs.session_id)),
                _ => None,
            })
            .collect();
        ev!("peer {i} consumer saw operations: {}; holds {} of {} ops", ops.join(" "), p.final_ids.len(), out.all_ops.len());
    }
    ev!("converged at {:?} us; sessions finished: {}", out.converged_at_us, out.sessions_finished);
}

pub struct C23Prop;
pub static C23: C23Prop = C23Prop;

impl Property for C23Prop {
    fn id(&self) -> &'static str {
        "C23"
    }
    fn budget(&self, tier: Tier) -> Budget {
        match tier {
            Tier::Quick => Budget { runs: 30_000, wall_cap_s: 40 },
            Tier::Thorough => Budget { runs: 500_000, wall_cap_s: 420 },
        }
    }
    fn modes(&self) -> u32 {
        2
    }
    fn mode_name(&self, mode: u32) -> &'static str {
        match mode {
            0 => "no connection loss (fault-free)",
            _ => "latencies + connection loss on one link",
        }
    }
    fn rule(&self) -> &'static str {
        "one run = 2-5 peers in a line / star / ring / mesh, each with a real TopicSyncManager, ManagerEventStream consumer and live-mode TopicLogSync sessions to its neighbours over SimDuplex; 1-8 operations are published at seeded peers and instants while copies travel over several paths under seeded latencies and task schedules, optionally one link is cut (one fault-free run in 100: a line of three peers whose first peer holds a log of 1100-1300 operations); non-trivial = at least 3 peers or a fault; distinct = distinct trace fingerprint (topology, transcripts of all sessions, consumer views)"
    }
    fn components_real(&self) -> Vec<&'static str> {
        vec!["p2panda_sync::manager::TopicSyncManager::{session, session_handle, subscribe}", "p2panda_sync::manager::ManagerEventStream (forwarding + manager dedup)", "p2panda_sync::protocols::TopicLogSync incl. live mode", "p2panda_sync::dedup::DeduplicationBuffer", "p2panda_stream::ingest::ingest_operation (consumer)"]
    }
    fn components_stub(&self) -> Vec<&'static str> {
        vec!["store: MemStore", "transport: SimDuplex", "topic manager fan-out of locally published operations (the harness sends ToSync::Payload to every session handle of the publishing peer)"]
    }
    fn expected_probes(&self) -> Vec<&'static str> {
        vec!["operation_arrived_over_two_paths", "forwarded_to_other_session"]
    }
    fn run(&self) {
        let faulty = ctx::mode() == 1;
        let cfg = draw_cfg(faulty);
        let out = run_net(&cfg);
        log_outcome(&out);
        if cfg.peers >= 3 || cfg.cut_link {
            ctx::mark_nontrivial();
        }
        if out.hang {
            violation("hang", "sync network", "simulated 1 h watchdog fired".into());
            return;
        }
        check_c23(&out);
    }
}

pub fn check_c23(out: &NetOutcome) {
    let name = |h: &Hash| out.all_ops.get(h).map(op_label).unwrap_or_else(|| short(h));
    // Per session: each operation at most once; never back to where it came from.
    for (i, s) in out.sessions.iter().enumerate() {
        let pair = if i % 2 == 0 { i + 1 } else { i - 1 };
        let link = s.link_out.borrow();
        let mut sent_at: BTreeMap<Hash, u64> = BTreeMap::new();
        let mut sent_idx: BTreeMap<Hash, usize> = BTreeMap::new();
        for (k, m) in link.transcript.iter().enumerate() {
            use simworld::syncwire::ToWire;
            let h = match m.to_wire() {
                Wire::Op { hash, .. } | Wire::Live { hash } => hash,
                _ => continue,
            };
            // "At most once within its de-duplication window": the window (1024 entries, sent and
            // received operations alike) cannot have forgotten the first copy while fewer than
            // 1023 other operations went over this connection since (bulk runs move more).
            if let Some(first) = sent_idx.get(&h) {
                let (t0, t1) = (link.sent_seq[*first], link.sent_seq[k]);
                let received_between = {
                    let back = out.sessions[pair].link_out.borrow();
                    back.transcript
                        .iter()
                        .enumerate()
                        .filter(|(j, m)| matches!(m.to_wire(), Wire::Op { .. } | Wire::Live { .. }) && back.delivered_seq.get(*j).map(|d| *d > t0 && *d < t1).unwrap_or(false))
                        .count()
                };
                let between = (k - first - 1) + received_between;
                if between < 1023 {
                    violation("sent-twice-on-one-session", "TopicLogSync", format!("session {} (peer {} -> {}) sent {} twice with only {} other operations sent or received in between", s.session_id, s.peer, s.remote, name(&h), between));
                } else {
                    ctx::probe("resent_after_dedup_window_rolled_over");
                }
            }
            sent_at.insert(h, link.sent_seq[k]);
            sent_idx.insert(h, k);
        }
        if sent_at.len() > 1 {
            ctx::probe("forwarded_to_other_session");
        }
        {
            use simworld::syncwire::ToWire;
            let lives = link.transcript.iter().filter(|m| matches!(m.to_wire(), Wire::Live { .. })).count();
            if lives > 1028 {
                ctx::probe("more_live_forwards_than_channel_slots");
            }
        }
        // What this peer received over the same connection (the paired session's transcript, at
        // the moments it was delivered to us).
        let back = out.sessions[pair].link_out.borrow();
        for (k, m) in back.transcript.iter().enumerate() {
            use simworld::syncwire::ToWire;
            let h = match m.to_wire() {
                Wire::Op { hash, .. } | Wire::Live { hash } => hash,
                _ => continue,
            };
            let Some(recv_seq) = back.delivered_seq.get(k) else { continue };
            if let Some(sent_seq) = sent_at.get(&h) {
                if sent_seq > recv_seq {
                    violation("sent-back-to-origin", "TopicLogSync / ManagerEventStream", format!("peer {} received {} from peer {} and afterwards sent it back over the same session {}", s.peer, name(&h), s.remote, s.session_id));
                }
            }
        }
    }
    // Manager stream: each operation at most once per peer.
    for (i, p) in out.peers.iter().enumerate() {
        let mut seen: BTreeMap<Hash, u64> = BTreeMap::new();
        let mut sessions_per_op: BTreeMap<Hash, BTreeSet<u64>> = BTreeMap::new();
        for (_, fs) in &p.consumed {
            if let TopicLogSyncEvent::OperationReceived { operation, .. } = &fs.event {
                *seen.entry(operation.hash).or_insert(0) += 1;
                sessions_per_op.entry(operation.hash).or_default().insert(fs.session_id);
            }
        }
        for (h, k) in &seen {
            if *k > 1 {
                violation("manager-stream-reported-twice", "ManagerEventStream", format!("peer {i}'s event stream yielded {} {k} times", name(h)));
            }
        }
        // Probe: the same operation reached this peer's sessions over two paths.
        let mut arrivals: BTreeMap<Hash, usize> = BTreeMap::new();
        for (j, s) in out.sessions.iter().enumerate() {
            if s.remote == i {
                // session j sends to peer i
                let _ = j;
                for w in s.sent() {
                    if let Wire::Op { hash, .. } | Wire::Live { hash } = w {
                        *arrivals.entry(hash).or_insert(0) += 1;
                    }
                }
            }
        }
        if arrivals.values().any(|c| *c >= 2) {
            ctx::probe("operation_arrived_over_two_paths");
        }
    }
    // Reach: with the graph still connected, every peer ends up with every operation.
    if connected_without_cut(out) {
        for (i, p) in out.peers.iter().enumerate() {
            if p.final_ids.len() != out.all_ops.len() {
                let missing: Vec<String> = out.all_ops.keys().filter(|h| !p.final_ids.contains(h)).map(|h| name(h)).collect();
                let live_missing = out.published.iter().any(|(_, _, o)| !p.final_ids.contains(&o.hash));
                violation(
                    "operation-did-not-reach-every-peer",
                    if live_missing { "published in live mode" } else { "initial operation (sync phase + forwarding)" },
                    format!("peer {i} misses {} within 120 simulated seconds after the last publish", missing.join(",")),
                );
                break;
            }
        }
    }
}
