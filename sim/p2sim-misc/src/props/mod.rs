pub mod c30;

pub fn all() -> Vec<&'static dyn simcore::Property> {
    vec![&c30::C30]
}
