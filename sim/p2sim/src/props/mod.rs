pub mod c10;
pub mod c13;
pub mod c19;
pub mod c20;
pub mod c21;
pub mod c22;
pub mod c23;
pub mod ingest_props;
pub mod ingestworld;
pub mod ord_props;
pub mod ordworld;
pub mod store_props;
pub mod storeworld;
pub mod syncworld;

pub fn all() -> Vec<&'static dyn simcore::Property> {
    vec![&ingest_props::C01, &ingest_props::C03, &ingest_props::C05, &ord_props::C11, &ord_props::C12, &store_props::C08, &store_props::C09, &c10::C10, &c13::C13, &c19::C19, &c20::C20, &c21::C21, &c22::C22, &c23::C23]
}
