//! C37 — Two-party messaging (2SM) decrypts in any interleaving and rejects replays.
//!
//! World: Alice and Bob with real key managers, real (one-time or long-term) pre-key bundles and
//! real `TwoParty` session states. The simulator is the network between them: one FIFO queue per
//! direction, the choice stream decides who sends next, which direction delivers next, and — in the
//! replay modes — which already processed message is handed to its receiver once more.
//!
//! The API is state-passing (`receive(state, keys, msg) -> Result<(state', keys', plaintext)>`): on
//! `Err` the caller has nothing but the state it passed in, so the harness keeps that one (exactly
//! what an application persisting "the final state only when all processes have successfully
//! completed" would do).

use std::collections::VecDeque;

use p2panda_encryption::Rng;
use p2panda_encryption::crypto::x25519::SecretKey;
use p2panda_encryption::key_bundle::{Lifetime, LongTermKeyBundle, OneTimeKeyBundle};
use p2panda_encryption::key_manager::{KeyManager, KeyManagerState};
use p2panda_encryption::traits::{KeyBundle, PreKeyManager};
use p2panda_encryption::two_party::{TwoParty, TwoPartyMessage, TwoPartyState};
use simcore::{Budget, Property, Tier, ctx, ev, violation};

use super::util::{err_site, seeded_rng};

pub struct C37Prop;
pub static C37: C37Prop = C37Prop;

const NAMES: [&str; 2] = ["alice", "bob"];

struct Side<KB: KeyBundle> {
    st: TwoPartyState<KB>,
    keys: KeyManagerState,
    /// The state can encrypt: it was initialised with the peer's bundle or has received something.
    can_send: bool,
    /// An accepted replay rolled this side's state back; later failures are a consequence of it.
    poisoned: bool,
    sends_since_receive: u32,
}

struct Sent {
    wire: TwoPartyMessage,
    plaintext: Vec<u8>,
    kind: &'static str,
    processed: bool,
}

/// Which key the sender addressed (from the message's `Debug` form; the field is private). Never
/// log the `Debug` form itself: HPKE encapsulation draws OS randomness inside `hpke-rs`.
fn kind_of(m: &TwoPartyMessage) -> &'static str {
    let d = format!("{m:?}");
    if d.contains("key_used: PreKey") {
        "x3dh-prekey"
    } else if d.contains("key_used: ReceivedKey") {
        "hpke-received-key"
    } else if d.contains("key_used: OwnKey") {
        "hpke-own-key"
    } else {
        "unknown"
    }
}

struct World<KB: KeyBundle + Clone> {
    rng: Rng,
    bundle_kind: &'static str,
    sides: [Side<KB>; 2],
    msgs: Vec<Sent>,
    /// In flight per direction (index = sender), FIFO.
    queue: [VecDeque<usize>; 2],
    /// Processed per receiver, in processing order.
    processed: [Vec<usize>; 2],
    replay_x3dh: bool,
}

impl<KB: KeyBundle + Clone> World<KB> {
    /// A replay was accepted earlier in this run and one side carried on with the rolled-back
    /// state it got back.
    fn poisoned(&self) -> bool {
        self.sides[0].poisoned || self.sides[1].poisoned
    }

    /// Everything that goes wrong after an accepted replay has that replay as its root cause and
    /// is already covered by its signature; it is shown in the trace and counted as a probe (the
    /// second half of the clause: an already processed message must "not corrupt later decryption").
    fn consequence(&self, detail: String) {
        ctx::probe("session_corrupted_after_accepted_replay");
        ev!("CONSEQUENCE of the accepted replay: {detail}");
    }

    fn send(&mut self, from: usize) {
        let idx = self.msgs.len();
        let plaintext = format!("#{idx} {}->{}", NAMES[from], NAMES[1 - from]).into_bytes();
        let side = &self.sides[from];
        match TwoParty::<KeyManager, KB>::send(side.st.clone(), &side.keys, &plaintext, &self.rng) {
            Ok((st, wire)) => {
                let kind = kind_of(&wire);
                ev!("{} sends #{idx} ({kind})", NAMES[from]);
                let side = &mut self.sides[from];
                side.st = st;
                side.sends_since_receive += 1;
                if side.sends_since_receive == 3 {
                    ctx::probe("burst_without_reply");
                }
                self.msgs.push(Sent { wire, plaintext, kind, processed: false });
                self.queue[from].push_back(idx);
                if kind == "x3dh-prekey" && self.queue[1 - from].front().map(|i| self.msgs[*i].kind == "x3dh-prekey").unwrap_or(false) {
                    ctx::probe("concurrent_first_messages");
                }
            }
            Err(e) => {
                ev!("{} send FAILED: {e}", NAMES[from]);
                let detail = format!("{} could not encrypt message #{idx}: {e}", NAMES[from]);
                if self.poisoned() {
                    self.consequence(detail);
                } else {
                    violation("send-failed", &err_site(&format!("{e:?}")), detail);
                }
            }
        }
    }

    /// First delivery of the oldest in-flight message of direction `from`.
    fn deliver(&mut self, from: usize) {
        let Some(idx) = self.queue[from].pop_front() else { return };
        let to = 1 - from;
        if !self.queue[to].is_empty() {
            ctx::probe("both_directions_interleaved");
            ctx::mark_nontrivial();
        }
        let m = &self.msgs[idx];
        let side = &self.sides[to];
        match TwoParty::<KeyManager, KB>::receive(side.st.clone(), side.keys.clone(), m.wire.clone()) {
            Ok((st, keys, plaintext)) => {
                if plaintext == m.plaintext {
                    ev!("{} receives #{idx} ({}): ok", NAMES[to], m.kind);
                } else {
                    ev!("{} receives #{idx} ({}): WRONG PLAINTEXT {:?}", NAMES[to], m.kind, String::from_utf8_lossy(&plaintext));
                    violation("wrong-plaintext", m.kind, format!("message #{idx} decrypted to {:?} instead of {:?}", String::from_utf8_lossy(&plaintext), String::from_utf8_lossy(&m.plaintext)));
                }
                let side = &mut self.sides[to];
                side.st = st;
                side.keys = keys;
                side.can_send = true;
                side.sends_since_receive = 0;
            }
            Err(e) => {
                ev!("{} receives #{idx} ({}): REJECTED {e}", NAMES[to], m.kind);
                let detail = format!("message #{idx} ({}, {} bundle) delivered in send order for its direction was rejected: {e}", m.kind, self.bundle_kind);
                if self.poisoned() {
                    self.consequence(detail);
                } else {
                    violation("first-delivery-rejected", &format!("{}/{}", m.kind, err_site(&format!("{e:?}"))), detail);
                }
            }
        }
        self.msgs[idx].processed = true;
        self.processed[to].push(idx);
    }

    /// Hand an already processed message to its receiver again.
    fn replay(&mut self, to: usize, pick: usize) {
        let idx = self.processed[to][pick];
        let later = self.processed[to].len() - 1 - pick;
        let m = &self.msgs[idx];
        if m.kind == "x3dh-prekey" && !self.replay_x3dh {
            return;
        }
        ctx::fault("duplicate");
        if later > 0 {
            ctx::probe("replay_after_later_messages");
        }
        if m.kind == "x3dh-prekey" {
            ctx::probe("replay_of_first_message");
        }
        let side = &self.sides[to];
        match TwoParty::<KeyManager, KB>::receive(side.st.clone(), side.keys.clone(), m.wire.clone()) {
            Err(e) => {
                ctx::probe("replay_rejected");
                ev!("REPLAY #{idx} ({}) to {} after {later} later message(s): rejected ({})", m.kind, NAMES[to], err_site(&format!("{e:?}")));
            }
            Ok((st, keys, plaintext)) => {
                ev!("REPLAY #{idx} ({}) to {} after {later} later message(s): ACCEPTED, plaintext {:?}", m.kind, NAMES[to], String::from_utf8_lossy(&plaintext));
                let detail = format!("message #{idx} ({}) was processed a second time by {} and returned {:?} again", m.kind, NAMES[to], String::from_utf8_lossy(&plaintext));
                // Decrypting an X3DH message does not depend on the session state, so its
                // acceptance is never a consequence of an earlier one.
                if self.poisoned() && m.kind != "x3dh-prekey" {
                    self.consequence(detail);
                } else {
                    violation("replay-accepted", &format!("{}/{}-bundle", m.kind, self.bundle_kind), detail);
                }
                // An application would now carry on with the state it got back.
                let side = &mut self.sides[to];
                side.st = st;
                side.keys = keys;
                side.poisoned = true;
            }
        }
    }
}

fn identity(rng: &Rng) -> KeyManagerState {
    let secret = SecretKey::from_bytes(rng.random_array().expect("seeded rng"));
    KeyManager::init_and_generate_prekey(&secret, Lifetime::default(), rng).expect("key manager")
}

fn session<KB: KeyBundle + Clone>(bundle_kind: &'static str, replay: bool, make_bundle: impl Fn(KeyManagerState, &Rng) -> (KeyManagerState, KB)) {
    let rng = seeded_rng(37);
    let alice_keys = identity(&rng);
    let bob_keys = identity(&rng);
    let both_initiate = ctx::chance("both_initiate", 1, 3);
    let total = ctx::range("messages", 2, 14);
    // Long-term bundles: in half of the replay runs the X3DH messages are left alone, so that the
    // replay handling of the HPKE rounds is also exercised on sessions no X3DH replay has touched.
    let replay_x3dh = !replay || bundle_kind == "onetime" || ctx::chance("replay_x3dh_messages", 1, 2);

    let (bob_keys, bob_bundle) = make_bundle(bob_keys, &rng);
    let alice_st = TwoParty::<KeyManager, KB>::init_to_send(bob_bundle);
    let (alice_keys, bob_st) = if both_initiate {
        let (alice_keys, alice_bundle) = make_bundle(alice_keys, &rng);
        (alice_keys, TwoParty::<KeyManager, KB>::init_to_send(alice_bundle))
    } else {
        (alice_keys, TwoParty::<KeyManager, KB>::init_to_receive())
    };
    ev!(
        "{bundle_kind} pre-key bundles; alice initiates{}; {total} messages; replays {}",
        if both_initiate { ", bob initiates concurrently with alice's bundle" } else { ", bob waits for her first message" },
        if !replay { "off" } else if replay_x3dh { "on" } else { "on (HPKE rounds only)" }
    );

    let mut w = World {
        rng,
        bundle_kind,
        sides: [
            Side { st: alice_st, keys: alice_keys, can_send: true, poisoned: false, sends_since_receive: 0 },
            Side { st: bob_st, keys: bob_keys, can_send: both_initiate, poisoned: false, sends_since_receive: 0 },
        ],
        msgs: Vec::new(),
        queue: [VecDeque::new(), VecDeque::new()],
        processed: [Vec::new(), Vec::new()],
        replay_x3dh,
    };

    #[derive(Clone, Copy)]
    enum Act {
        Deliver(usize),
        Send(usize),
    }
    let mut sends_left = total;
    loop {
        if replay && (!w.processed[0].is_empty() || !w.processed[1].is_empty()) && ctx::chance("replay", 1, 5) {
            let to = if w.processed[0].is_empty() {
                1
            } else if w.processed[1].is_empty() {
                0
            } else {
                ctx::choose("replay_to", 2)
            };
            // 0 = the most recently processed message.
            let n = w.processed[to].len();
            let pick = n - 1 - ctx::choose("replay_which", n);
            w.replay(to, pick);
            ctx::add_steps(1);
            continue;
        }
        let mut acts: Vec<Act> = Vec::new();
        for d in 0..2 {
            if !w.queue[d].is_empty() {
                acts.push(Act::Deliver(d));
            }
        }
        if sends_left > 0 {
            for s in 0..2 {
                if w.sides[s].can_send {
                    acts.push(Act::Send(s));
                }
            }
        }
        if acts.is_empty() {
            break;
        }
        match acts[ctx::choose("next", acts.len())] {
            Act::Deliver(d) => w.deliver(d),
            Act::Send(s) => {
                w.send(s);
                sends_left -= 1;
            }
        }
        ctx::add_steps(1);
    }

    // Quiescence. Replay modes: every processed message once more, in a drawn order.
    if replay {
        let mut all: Vec<(usize, usize)> = Vec::new();
        for to in 0..2 {
            for pick in 0..w.processed[to].len() {
                all.push((to, pick));
            }
        }
        ctx::shuffle("final_replays", &mut all);
        for (to, pick) in all {
            w.replay(to, pick);
        }
    }
    // Neither rejected replays nor anything else may have damaged the session: one more message
    // in each direction (Bob only if he can encrypt at all).
    for s in 0..2 {
        if w.sides[s].can_send {
            w.send(s);
        }
    }
    for d in 0..2 {
        while !w.queue[d].is_empty() {
            w.deliver(d);
        }
    }
    if replay && !ctx::has_violation() {
        ctx::probe("fresh_message_after_replays_ok");
    }
    let unprocessed = w.msgs.iter().filter(|m| !m.processed).count();
    ev!("done: {} messages, {} processed by alice, {} by bob, {unprocessed} never delivered", w.msgs.len(), w.processed[0].len(), w.processed[1].len());
}

impl Property for C37Prop {
    fn id(&self) -> &'static str {
        "C37"
    }
    fn budget(&self, tier: Tier) -> Budget {
        match tier {
            Tier::Quick => Budget { runs: 40_000, wall_cap_s: 30 },
            Tier::Thorough => Budget { runs: 300_000, wall_cap_s: 330 },
        }
    }
    fn shrink_budget_s(&self, tier: Tier) -> u64 {
        match tier {
            Tier::Quick => 5,
            Tier::Thorough => 20,
        }
    }
    fn modes(&self) -> u32 {
        4
    }
    fn mode_name(&self, mode: u32) -> &'static str {
        match mode {
            0 => "onetime-bundles/no-replay",
            1 => "onetime-bundles/replays",
            2 => "longterm-bundles/no-replay",
            _ => "longterm-bundles/replays",
        }
    }
    fn rule(&self) -> &'static str {
        "one run = one 2SM session between two real key managers (alice initiates with bob's pre-key bundle; in a third of the runs bob initiates concurrently with alice's bundle), 2-14 messages plus one closing message per direction; the choice stream interleaves sends and per-direction FIFO deliveries; replay modes hand already processed messages to their receiver again at drawn points and all of them once more at the end; non-trivial = a delivery happened while the opposite direction had messages in flight, or a replay fired; distinct = distinct trace fingerprint"
    }
    fn components_real(&self) -> Vec<&'static str> {
        vec![
            "p2panda_encryption::two_party::TwoParty::{init_to_send, init_to_receive, send, receive} (OneTimeTwoParty and LongTermTwoParty)",
            "p2panda_encryption::two_party::{x3dh_encrypt, x3dh_decrypt}",
            "p2panda_encryption::crypto::hpke::{hpke_seal, hpke_open}",
            "p2panda_encryption::key_manager::KeyManager::{init_and_generate_prekey, prekey_bundle, generate_onetime_bundle, use_onetime_secret, prekey_secret}",
            "p2panda_encryption::key_bundle::{OneTimeKeyBundle, LongTermKeyBundle, Lifetime}::verify (CLOCK_REALTIME seam)",
        ]
    }
    fn components_stub(&self) -> Vec<&'static str> {
        vec!["network between the two parties: one FIFO queue per direction, delivery / send / replay order from the choice stream", "randomness: crate Rng seeded from the run seed (HPKE encapsulation inside hpke-rs still draws from the OS; no outcome depends on it)"]
    }
    fn assumptions(&self) -> Vec<&'static str> {
        vec!["on Err the receiver keeps the state it passed in (state-passing API)", "FIFO within a direction, as the 2SM documentation requires"]
    }
    fn expected_probes(&self) -> Vec<&'static str> {
        vec!["both_directions_interleaved", "concurrent_first_messages", "burst_without_reply", "replay_rejected", "replay_of_first_message", "replay_after_later_messages", "fresh_message_after_replays_ok"]
    }
    fn run(&self) {
        let mode = ctx::mode();
        let replay = mode % 2 == 1;
        if mode < 2 {
            session::<OneTimeKeyBundle>("onetime", replay, |keys, rng| KeyManager::generate_onetime_bundle(keys, rng).expect("one-time bundle"));
        } else {
            session::<LongTermKeyBundle>("longterm", replay, |keys, _rng| {
                let b = KeyManager::prekey_bundle(&keys).expect("long-term bundle");
                (keys, b)
            });
        }
    }
}
