//! C40 — Topic sync metrics count every session's bytes exactly once.
//!
//! DES. The SyncNet world (real `TopicSyncManager`s, real live-mode `TopicLogSync` sessions over
//! `SimDuplex`, real `ManagerEventStream`) produces, per peer, the stream of
//! `FromSync<TopicLogSyncEvent>` a topic stream task would consume. That stream is replayed into a
//! fresh real `Aggregator` (hook H3a) twice: exactly as emitted, and with the documented
//! `SessionStarted` prepended before each session's first event.
//!
//! Ground truth is taken where the bytes cross the simulated network: every message a session
//! put on its `SimDuplex` link and every message that was delivered to it, expressed in the
//! session's own accounting (sync phase: encoded header length + body length of every `Operation`
//! message; live phase: `header.to_bytes().len() + payload_size` of every `Live` message, received
//! ones only when the session's de-duplication buffer had not seen the operation).

use std::collections::{BTreeMap, BTreeSet};

use p2panda::streams::verif::{Aggregator, SyncEventView};
use p2panda_core::Hash;
use p2panda_sync::FromSync;
use p2panda_sync::protocols::{LogSyncMessage, Metrics, TopicLogSyncEvent};
use simcore::{Budget, Property, Tier, ctx, ev, violation};
use simworld::logworld::{SimExt, op_label, short};
use simworld::syncnet::{Msg, NetCfg, NetOutcome, Topology, run_net};

type Ev = TopicLogSyncEvent<SimExt>;

/// Bytes one session moved, in the session's own accounting, derived from the link transcripts.
#[derive(Clone, Copy, Debug, Default, PartialEq, Eq)]
struct Wire {
    sent_sync: u64,
    sent_live: u64,
    recv_sync: u64,
    /// Live operations delivered and not dropped by the session's de-duplication buffer.
    recv_live: u64,
    /// Live operations delivered, duplicates included.
    recv_live_all: u64,
    sent_ops: u64,
    recv_ops: u64,
}

impl Wire {
    fn sent(&self) -> u64 {
        self.sent_sync + self.sent_live
    }
    fn recv(&self) -> u64 {
        self.recv_sync + self.recv_live
    }
}

fn msg_cost(m: &Msg) -> Option<(Hash, u64, bool)> {
    match m {
        Msg::Sync(LogSyncMessage::Operation(h, b)) => {
            let header: p2panda_core::Header<SimExt> = p2panda_core::cbor::decode_cbor(&h[..]).ok()?;
            Some((header.hash(), (h.len() + b.as_ref().map(|b| b.len()).unwrap_or(0)) as u64, false))
        }
        Msg::Live(header, _) => Some((header.hash(), header.to_bytes().len() as u64 + header.payload_size as u64, true)),
        _ => None,
    }
}

/// Ground truth of session `i` (its paired session on the same connection is `i ^ 1`).
fn wire_truth(out: &NetOutcome, i: usize) -> Wire {
    let mut w = Wire::default();
    // (global sequence number, is_send, hash, bytes, live)
    let mut events: Vec<(u64, bool, Hash, u64, bool)> = vec![];
    {
        let link = out.sessions[i].link_out.borrow();
        for (k, m) in link.transcript.iter().enumerate() {
            if let Some((h, bytes, live)) = msg_cost(m) {
                events.push((link.sent_seq.get(k).copied().unwrap_or(u64::MAX), true, h, bytes, live));
            }
        }
    }
    {
        let back = out.sessions[i ^ 1].link_out.borrow();
        for (k, m) in back.transcript.iter().enumerate() {
            // Delivered in order; what is still queued never reached the session.
            let Some(seq) = back.delivered_seq.get(k) else { break };
            if let Some((h, bytes, live)) = msg_cost(m) {
                events.push((*seq, false, h, bytes, live));
            }
        }
    }
    events.sort_by_key(|e| e.0);
    let mut seen: BTreeSet<Hash> = BTreeSet::new();
    for (_, is_send, h, bytes, live) in events {
        match (is_send, live) {
            (true, false) => {
                w.sent_sync += bytes;
                w.sent_ops += 1;
                seen.insert(h);
            }
            (true, true) => {
                w.sent_live += bytes;
                w.sent_ops += 1;
                seen.insert(h);
            }
            (false, false) => {
                // Sync phase: counted before the de-duplication check.
                w.recv_sync += bytes;
                w.recv_ops += 1;
                seen.insert(h);
            }
            (false, true) => {
                w.recv_live_all += bytes;
                if seen.insert(h) {
                    w.recv_live += bytes;
                    w.recv_ops += 1;
                } else {
                    ctx::probe("live_duplicate_not_counted_by_session");
                }
            }
        }
    }
    w
}

fn metrics_of(e: &Ev) -> Option<&Metrics> {
    match e {
        Ev::SyncStarted { metrics } | Ev::SyncFinished { metrics } | Ev::SessionFinished { metrics } | Ev::OperationReceived { metrics, .. } => Some(metrics),
        _ => None,
    }
}

fn kind(e: &Ev) -> &'static str {
    match e {
        Ev::SessionStarted => "SessionStarted",
        Ev::SyncStarted { .. } => "SyncStarted",
        Ev::OperationReceived { .. } => "OperationReceived",
        Ev::SyncFinished { .. } => "SyncFinished",
        Ev::LiveModeStarted => "LiveModeStarted",
        Ev::SessionFinished { .. } => "SessionFinished",
        Ev::Failed { .. } => "Failed",
    }
}

fn is_terminal(e: &Ev) -> bool {
    matches!(e, Ev::SessionFinished { .. } | Ev::Failed { .. })
}

/// What the consumed event stream of one peer says about one of its sessions.
#[derive(Clone, Debug, Default)]
struct Seen {
    first: Option<usize>,
    terminal: Option<usize>,
    failed: bool,
    emitted_session_started: bool,
    /// Largest byte counts the session reported in any event before its terminal one.
    reported_sent: u64,
    reported_recv: u64,
    final_metrics: Option<Metrics>,
}

/// Bytes the aggregator added to the topic totals while processing events of one session, and
/// at which kinds of events (attribution only, never decides a violation).
#[derive(Clone, Debug, Default)]
struct Contribution {
    sent: u64,
    recv: u64,
    at: Vec<(&'static str, u64, u64)>,
}

pub fn draw_cfg(faulty: bool) -> NetCfg {
    let peers = ctx::range("net.peers", 2, 5);
    let topology = *ctx::pick("net.topology", &[Topology::Line, Topology::Star, Topology::Ring, Topology::Mesh]);
    NetCfg {
        peers,
        topology,
        initial_ops_max: 3,
        publishes: ctx::range("net.publishes", 1, 8),
        latency: faulty || ctx::chance("net.latency", 1, 2),
        cut_link: faulty && ctx::chance("net.cut", 2, 3),
        close_at_end: true,
        bulk_peer: None,
    }
}

const SITE_DOUBLE: &str = "Aggregator: SessionFinished adds sync bytes again after SyncFinished";
const SITE_NO_STARTED: &str = "no SessionStarted is ever emitted by the sessions";

fn replay_peer(out: &NetOutcome, peer: usize, truth: &[Wire], prepend_started: bool) {
    let label = if prepend_started { "with SessionStarted prepended" } else { "as emitted" };
    let idx_of: BTreeMap<u64, usize> = out.sessions.iter().enumerate().filter(|(_, s)| s.peer == peer).map(|(i, s)| (s.session_id, i)).collect();
    let consumed = &out.peers[peer].consumed;

    // Pass 1: what the stream says about each session.
    let mut seen: BTreeMap<u64, Seen> = BTreeMap::new();
    for (k, (_, fs)) in consumed.iter().enumerate() {
        let s = seen.entry(fs.session_id).or_default();
        if s.first.is_none() {
            s.first = Some(k);
        }
        if matches!(fs.event, Ev::SessionStarted) {
            s.emitted_session_started = true;
        }
        if let Some(m) = metrics_of(&fs.event) {
            if s.terminal.is_none() {
                s.reported_sent = s.reported_sent.max(m.sent_bytes() as u64);
                s.reported_recv = s.reported_recv.max(m.received_bytes() as u64);
            }
        }
        if is_terminal(&fs.event) && s.terminal.is_none() {
            s.terminal = Some(k);
            s.failed = matches!(fs.event, Ev::Failed { .. });
            if let Ev::SessionFinished { metrics } = &fs.event {
                s.final_metrics = Some(metrics.clone());
            }
        }
    }
    let none_emits_started = seen.values().all(|s| !s.emitted_session_started);

    // Sound upper bound for every moment of the replay: no session has, at any time, transferred
    // more than it has transferred by the end of the run.
    let ub_sent: u64 = idx_of.values().map(|i| truth[*i].sent()).sum();
    let ub_recv: u64 = idx_of.values().map(|i| truth[*i].recv_sync + truth[*i].recv_live_all).sum();

    // Pass 2: the replay.
    let mut agg = Aggregator::new();
    let mut contrib: BTreeMap<u64, Contribution> = BTreeMap::new();
    let (mut prev_sent, mut prev_recv) = (0u64, 0u64);
    let mut started: BTreeSet<u64> = BTreeSet::new();
    let mut ended: BTreeSet<u64> = BTreeSet::new();
    let mut running_reported = false;
    let mut bound_reported = false;

    for (k, (_, fs)) in consumed.iter().enumerate() {
        let sid = fs.session_id;
        let first_of_session = seen.get(&sid).and_then(|s| s.first) == Some(k);
        if first_of_session {
            started.insert(sid);
            if prepend_started && !matches!(fs.event, Ev::SessionStarted) {
                let _ = agg.process(FromSync { session_id: sid, remote: fs.remote, event: Ev::SessionStarted });
            }
        }
        let view: Option<SyncEventView> = agg.process(fs.clone());
        if is_terminal(&fs.event) {
            ended.insert(sid);
        }
        let (sent, recv) = (agg.total_bytes_sent() as u64, agg.total_bytes_received() as u64);
        // The totals shown to the application are the ones the accessors return.
        if let Some(SyncEventView::SyncEnded { sent_bytes_topic_total, received_bytes_topic_total, .. }) = &view {
            if *sent_bytes_topic_total as u64 != sent || *received_bytes_topic_total as u64 != recv {
                violation("event-totals-differ-from-accessors", "SyncEnded", format!("peer {peer} ({label}) event {k}: event says {sent_bytes_topic_total}/{received_bytes_topic_total}, accessors {sent}/{recv}"));
            }
        }
        // Monotone.
        if sent < prev_sent || recv < prev_recv {
            violation("totals-decreased", &format!("at {}", kind(&fs.event)), format!("peer {peer} ({label}) event {k} of session {sid}: totals went from {prev_sent}/{prev_recv} to {sent}/{recv}"));
        }
        let c = contrib.entry(sid).or_default();
        if sent != prev_sent || recv != prev_recv {
            c.sent += sent.saturating_sub(prev_sent);
            c.recv += recv.saturating_sub(prev_recv);
            c.at.push((kind(&fs.event), sent.saturating_sub(prev_sent), recv.saturating_sub(prev_recv)));
        }
        // Never more than was transferred.
        if (sent > ub_sent || recv > ub_recv) && !bound_reported {
            bound_reported = true;
            let (clause, site) = classify_excess(&contrib, &idx_of, truth);
            violation(clause, &site, format!("peer {peer} ({label}) after event {k} ({} of session {sid}): totals sent/received {sent}/{recv} exceed what all {} sessions of this peer transferred over the network by the end of the run, {ub_sent}/{ub_recv}; added per session {}", kind(&fs.event), idx_of.len(), show_contrib(&contrib)));
        }
        (prev_sent, prev_recv) = (sent, recv);
        // Running sessions = started - ended.
        let expect_running = (started.len() - ended.len()) as u32;
        let got_running = agg.running_sessions();
        let shown = match &view {
            Some(SyncEventView::SyncStarted { topic_sessions, .. }) => Some(*topic_sessions),
            _ => None,
        };
        if (got_running != expect_running || shown.is_some_and(|s| s != expect_running)) && !running_reported {
            running_reported = true;
            let site = if !prepend_started && none_emits_started { SITE_NO_STARTED } else { "Aggregator: running_sessions differs from started minus ended" };
            violation(
                "running-sessions-wrong",
                site,
                format!("peer {peer} ({label}) after event {k} ({} of session {sid}): {} sessions have started and {} have ended, running_sessions() = {got_running}{}, expected {expect_running}", kind(&fs.event), started.len(), ended.len(), shown.map(|s| format!(", SyncStarted.topic_sessions = {s}")).unwrap_or_default()),
            );
        }
    }

    // End of the stream.
    let all_ended = idx_of.keys().all(|sid| seen.get(sid).is_some_and(|s| s.terminal.is_some()));
    let (sent, recv) = (agg.total_bytes_sent() as u64, agg.total_bytes_received() as u64);
    // Every finished session contributes exactly what it transferred; a failed one at least what
    // it had reported before it failed and at most what it really transferred.
    let (mut lo_s, mut hi_s, mut lo_r, mut hi_r) = (0u64, 0u64, 0u64, 0u64);
    let mut any_failed = false;
    for (sid, i) in &idx_of {
        let w = &truth[*i];
        match seen.get(sid) {
            Some(s) if s.terminal.is_some() && !s.failed => {
                lo_s += w.sent();
                hi_s += w.sent();
                lo_r += w.recv();
                hi_r += w.recv();
            }
            Some(s) => {
                any_failed |= s.failed;
                lo_s += s.reported_sent.min(w.sent());
                hi_s += w.sent();
                lo_r += s.reported_recv.min(w.recv());
                hi_r += w.recv_sync + w.recv_live_all;
            }
            None => {
                hi_s += w.sent();
                hi_r += w.recv_sync + w.recv_live_all;
            }
        }
    }
    ev!("peer {peer} replay {label}: {} events, {} sessions ({} ended); totals sent/received {sent}/{recv}, network says sent {lo_s}..={hi_s} received {lo_r}..={hi_r}; running {}; added per session {}", consumed.len(), idx_of.len(), ended.len(), agg.running_sessions(), show_contrib(&contrib));
    if !all_ended {
        ctx::probe("session_without_terminal_event_in_stream");
        return;
    }
    if sent > hi_s || recv > hi_r {
        if !bound_reported {
            let (clause, site) = classify_excess(&contrib, &idx_of, truth);
            violation(clause, &site, format!("peer {peer} ({label}) all {} sessions ended: totals sent/received {sent}/{recv}, the sessions transferred {hi_s}/{hi_r}; added per session {}", idx_of.len(), show_contrib(&contrib)));
        }
    } else if sent < lo_s || recv < lo_r {
        // Which sessions are short?
        let mut failed_short = false;
        let mut finished_short = false;
        for (sid, i) in &idx_of {
            let w = &truth[*i];
            let c = contrib.get(sid).cloned().unwrap_or_default();
            let s = seen.get(sid).cloned().unwrap_or_default();
            if s.failed {
                if c.sent < s.reported_sent.min(w.sent()) || c.recv < s.reported_recv.min(w.recv()) {
                    failed_short = true;
                }
            } else if c.sent < w.sent() || c.recv < w.recv() {
                finished_short = true;
            }
        }
        let site = if failed_short && !finished_short {
            "Aggregator: Failed adds none of the bytes the session reported before it failed"
        } else if finished_short {
            "Aggregator adds less than a finished session transferred"
        } else {
            "totals lower than the sum over sessions"
        };
        violation("bytes-missing", site, format!("peer {peer} ({label}) all {} sessions ended ({}): totals sent/received {sent}/{recv}, the sessions transferred at least {lo_s}/{lo_r}; added per session {}", idx_of.len(), if any_failed { "some failed" } else { "none failed" }, show_contrib(&contrib)));
    }
    if agg.running_sessions() != 0 && !running_reported {
        violation("running-sessions-wrong", "Aggregator: running_sessions not 0 after every session ended", format!("peer {peer} ({label}): running_sessions() = {}", agg.running_sessions()));
    }
}

fn show_contrib(c: &BTreeMap<u64, Contribution>) -> String {
    c.iter().map(|(sid, c)| format!("s{sid}:{}/{} [{}]", c.sent, c.recv, c.at.iter().map(|(k, s, r)| format!("{k}+{s}/{r}")).collect::<Vec<_>>().join(" "))).collect::<Vec<_>>().join("; ")
}

/// Attribution of "totals exceed what was transferred": is there a session whose sync-phase
/// bytes were added at `SyncFinished` and again, together with the live bytes, at
/// `SessionFinished`?
fn classify_excess(contrib: &BTreeMap<u64, Contribution>, idx_of: &BTreeMap<u64, usize>, truth: &[Wire]) -> (&'static str, String) {
    let mut double = false;
    let mut other = false;
    for (sid, c) in contrib {
        let Some(i) = idx_of.get(sid) else { continue };
        let w = &truth[*i];
        let over_sent = c.sent > w.sent();
        let over_recv = c.recv > w.recv();
        if !over_sent && !over_recv {
            continue;
        }
        let at_sync: (u64, u64) = c.at.iter().filter(|a| a.0 == "SyncFinished").fold((0, 0), |x, a| (x.0 + a.1, x.1 + a.2));
        let at_end: (u64, u64) = c.at.iter().filter(|a| a.0 == "SessionFinished").fold((0, 0), |x, a| (x.0 + a.1, x.1 + a.2));
        let only_those = c.at.iter().all(|a| a.0 == "SyncFinished" || a.0 == "SessionFinished");
        if only_those && at_sync == (w.sent_sync, w.recv_sync) && at_end == (w.sent(), w.recv()) {
            double = true;
        } else {
            other = true;
        }
    }
    if double && !other {
        ("bytes-counted-twice", SITE_DOUBLE.to_string())
    } else {
        ("totals-exceed-transferred", "Aggregator adds more than a session transferred".to_string())
    }
}

pub struct C40Prop;
pub static C40: C40Prop = C40Prop;

impl Property for C40Prop {
    fn id(&self) -> &'static str {
        "C40"
    }
    fn budget(&self, tier: Tier) -> Budget {
        match tier {
            Tier::Quick => Budget { runs: 24_000, wall_cap_s: 35 },
            Tier::Thorough => Budget { runs: 400_000, wall_cap_s: 330 },
        }
    }
    fn modes(&self) -> u32 {
        2
    }
    fn mode_name(&self, mode: u32) -> &'static str {
        match mode {
            0 => "no connection loss: every session ends with SessionFinished (fault-free)",
            _ => "latencies + connection loss on one link: some sessions end with Failed",
        }
    }
    fn rule(&self) -> &'static str {
        "one run = a seeded 2-5 peer sync network (line / star / ring / mesh; real managers, live-mode sessions, 0-3 initial operations per peer, 1-8 live publishes, seeded latencies and task schedules, optionally one link cut); for every peer the manager event stream it consumed is replayed into a fresh real Aggregator, once as emitted and once with SessionStarted prepended per session, and totals / running sessions are compared after every event and at the end with the bytes that crossed SimDuplex; non-trivial = a peer with at least two sessions, or a fault; distinct = distinct trace fingerprint (topology, per-session wire bytes, per-peer replay outcome)"
    }
    fn components_real(&self) -> Vec<&'static str> {
        vec!["p2panda::streams::sync_metrics::Aggregator::{process, total_bytes_sent, total_bytes_received, running_sessions}", "p2panda_sync::protocols::TopicLogSync (Metrics accounting, event emission, sync + live phase)", "p2panda_sync::protocols::LogSync", "p2panda_sync::manager::{TopicSyncManager, ManagerEventStream} (the FromSync stream that is replayed)"]
    }
    fn components_stub(&self) -> Vec<&'static str> {
        vec!["store: MemStore", "transport: SimDuplex (its transcripts are the ground truth)", "the topic stream task around the Aggregator (the harness feeds Aggregator::process itself, in the order the manager stream yielded)", "SessionStarted in the second replay is supplied by the harness"]
    }
    fn assumptions(&self) -> Vec<&'static str> {
        vec!["bytes are counted in the session's own units (encoded header + body / payload size of operations), protocol framing is not counted", "a session that ended with Failed may contribute anything between what it had reported before failing and what it really transferred"]
    }
    fn expected_probes(&self) -> Vec<&'static str> {
        vec!["peer_with_several_sessions", "session_with_sync_and_live_bytes", "session_failed_after_reporting_bytes", "live_duplicate_not_counted_by_session"]
    }
    fn run(&self) {
        let faulty = ctx::mode() == 1;
        let cfg = draw_cfg(faulty);
        let out = run_net(&cfg);
        if out.hang {
            // Not this property's subject (C22 / C23 report hangs); nothing to replay reliably.
            ev!("network run hit the simulated watchdog; skipped");
            return;
        }
        let name = |h: &Hash| out.all_ops.get(h).map(op_label).unwrap_or_else(|| short(h));
        let truth: Vec<Wire> = (0..out.sessions.len()).map(|i| wire_truth(&out, i)).collect();
        for (i, s) in out.sessions.iter().enumerate() {
            let w = &truth[i];
            let sent: Vec<String> = s.link_out.borrow().transcript.iter().filter_map(|m| msg_cost(m).map(|(h, b, live)| format!("{}({},{}B)", if live { "Live" } else { "Op" }, name(&h), b))).collect();
            ev!(
                "session {} (peer {} -> peer {}){}: wire sent sync/live {}/{} received sync/live {}/{} (live incl. duplicates {}) | sent {} | events {} | result {:?}",
                s.session_id,
                s.peer,
                s.remote,
                if s.cut { " [link cut]" } else { "" },
                w.sent_sync,
                w.sent_live,
                w.recv_sync,
                w.recv_live,
                w.recv_live_all,
                sent.join(" "),
                s.events.iter().map(|(_, e)| kind(e)).collect::<Vec<_>>().join(" "),
                s.result
            );
            if w.sent_sync + w.recv_sync > 0 && w.sent_live + w.recv_live > 0 {
                ctx::probe("session_with_sync_and_live_bytes");
            }
            // Layer 1: the session's own final accounting against the wire.
            let fin = s.events.iter().find_map(|(_, e)| match e {
                Ev::SessionFinished { metrics } => Some(metrics.clone()),
                _ => None,
            });
            if let Some(m) = fin {
                let got = (m.sent_sync_bytes as u64, m.sent_live_bytes as u64, m.received_sync_bytes as u64, m.received_live_bytes as u64);
                let want = (w.sent_sync, w.sent_live, w.recv_sync, w.recv_live);
                if got != want {
                    violation("session-metrics-differ-from-wire", "TopicLogSync Metrics at SessionFinished", format!("session {} (peer {} -> {}): metrics sent sync/live, received sync/live = {got:?}, SimDuplex transcripts give {want:?}", s.session_id, s.peer, s.remote));
                }
            }
            let failed = s.events.iter().any(|(_, e)| matches!(e, Ev::Failed { .. }));
            if failed && s.events.iter().filter_map(|(_, e)| metrics_of(e)).any(|m| m.sent_bytes() + m.received_bytes() > 0) {
                ctx::probe("session_failed_after_reporting_bytes");
            }
        }
        let mut multi = false;
        for p in 0..out.peers.len() {
            let n = out.sessions.iter().filter(|s| s.peer == p).count();
            if n >= 2 {
                multi = true;
                ctx::probe("peer_with_several_sessions");
            }
        }
        if multi || cfg.cut_link {
            ctx::mark_nontrivial();
        }
        for p in 0..out.peers.len() {
            let ops: Vec<String> = out.peers[p].consumed.iter().map(|(_, fs)| format!("{}@s{}", kind(&fs.event), fs.session_id)).collect();
            ev!("peer {p} consumed: {}", ops.join(" "));
            replay_peer(&out, p, &truth, false);
            replay_peer(&out, p, &truth, true);
        }
    }
}
