//! C16 — Ephemeral messages are authentic and unique per publish.
//!
//! Real: `EphemeralStreamPublisher::publish` (with its `HybridTimestamp::increment` and
//! `WrappedMessage::new/to_bytes`), `EphemeralStreamSubscription::poll_next` (with
//! `WrappedMessage::from_bytes`/`verify`), `GossipHandle::publish`, `GossipSubscription`, the
//! `Gossip::stream` slow path with the real `AddressBook`. Stub: the gossip manager (probe actor)
//! and the overlay (the harness forwards, reorders, duplicates, tampers, re-signs, injects and
//! overflows); the wall clock is the libc seam.
//!
//! The consumer of this check re-polls after every quiet simulated second, so that it does not
//! depend on the wake-up behaviour of the subscription (that is C17).

use std::time::Duration;

use simcore::{Budget, Property, Tier, ctx, des, ev, violation};

use crate::ephworld::{self, Eph, Outcome, TAMPERS, Tamper, clock_fault, clock_tick};

pub struct C16Prop;
pub static C16: C16Prop = C16Prop;

impl Property for C16Prop {
    fn id(&self) -> &'static str {
        "C16"
    }
    fn budget(&self, tier: Tier) -> Budget {
        match tier {
            Tier::Quick => Budget { runs: 16_000, wall_cap_s: 40 },
            Tier::Thorough => Budget { runs: 160_000, wall_cap_s: 360 },
        }
    }
    fn modes(&self) -> u32 {
        4
    }
    fn mode_name(&self, mode: u32) -> &'static str {
        match mode {
            0 => "advancing clock, faithful FIFO overlay (fault-free)",
            1 => "wall clock freezes / jumps back / jumps forward between publishes, faithful overlay",
            2 => "advancing clock, byzantine overlay (reorder, duplicate, tamper, re-sign, inject, overflow)",
            _ => "clock faults and byzantine overlay",
        }
    }
    fn rule(&self) -> &'static str {
        "one run = 4-40 operations in choice-stream order over 1-3 publishers (own keys or the same key; clones share a timestamp) and one subscription on one topic: publish a body from a small alphabet (identical bodies are common), wall-clock step (tick; faulty modes: freeze, jump back by 1 us..54 years, jump forward, reset to an earlier reading), overlay delivery (FIFO; faulty modes: out of order, duplicate, bit flip, re-signed by another key, author / body / timestamp field replaced, other version, undecodable bytes, content re-published by an outsider under its own key, burst beyond the broadcast capacity 2..16), drain the subscription; every frame is judged by the harness' own decoder+verifier and an exact model of the broadcast receiver says which frame each poll consumed; non-trivial = at least two publishes and one delivery, or any fault; distinct = distinct trace fingerprint"
    }
    fn components_real(&self) -> Vec<&'static str> {
        vec![
            "p2panda EphemeralStreamPublisher::publish (HybridTimestamp::increment, WrappedMessage::new / to_bytes)",
            "p2panda EphemeralStreamSubscription::poll_next (WrappedMessage::from_bytes / verify), EphemeralMessage accessors",
            "p2panda OperationForge::signing_key (forge over a SQLite pool that never connects)",
            "p2panda_net GossipHandle::{publish, subscribe}, GossipSubscription (BroadcastStream), TopicDropGuard",
            "p2panda_net Gossip::stream slow path, AddressBook actor over in-memory SQLite (set-up phase)",
            "p2panda_core HybridTimestamp / Timestamp::now over the interposed CLOCK_REALTIME",
        ]
    }
    fn components_stub(&self) -> Vec<&'static str> {
        vec!["gossip manager: probe ractor actor answering Subscribe with harness-owned channels", "gossip overlay: the harness moves frames from the to-gossip mpsc channel into the from-gossip broadcast channel", "iroh endpoint / iroh-gossip: not run"]
    }
    fn assumptions(&self) -> Vec<&'static str> {
        vec!["one subscription per run (the broadcast channel's own queue length then tells exactly which frames a poll consumed)", "two publisher objects created with the same key keep separate timestamps; byte-identical frames between them are counted as a probe, the property speaks of one publisher"]
    }
    fn expected_probes(&self) -> Vec<&'static str> {
        vec!["publish_with_clock_behind_previous_timestamp", "identical_body_same_clock_reading", "invalid_frame_skipped", "foreign_valid_yielded", "lagged_consumed", "same_key_publishers_identical_frames"]
    }
    fn run(&self) {
        let mode = ctx::mode();
        let clock_faults = mode == 1 || mode == 3;
        let byz = mode >= 2;
        let n_ops = ctx::range("ops", 4, 40);
        let cap = if byz { *ctx::pick("bcast.cap", &[16usize, 8, 4, 2]) } else { 64 };
        let n_keys = 3;
        ev!("mode {mode}: {n_ops} operations, broadcast capacity {cap}, clock faults {clock_faults}, byzantine overlay {byz}");
        let parts = match ephworld::phase1(n_keys, cap) {
            Ok(p) => p,
            Err(e) => {
                violation("setup-failed", "Gossip::stream / AddressBook", e);
                return;
            }
        };
        let r = des::run(move || async move {
            let (mut w, mut c) = Eph::new(parts, cap);
            let bodies: [&[u8]; 3] = [b"a", b"b", b"ping"];
            let mut deliveries = 0usize;
            for _ in 0..n_ops {
                if ctx::has_violation() {
                    break;
                }
                // 0 = publish (plain), then deliver, drain, clock, new publisher, clone.
                match ctx::choose("op", 12) {
                    0 | 1 | 2 | 3 => {
                        let i = ctx::choose("publisher", w.pubs.len());
                        let body = ctx::pick("body", &bodies).to_vec();
                        let fam = w.pubs[i].family;
                        if let (Some(last), Some(at)) = (w.families[fam].last, w.clock_at_last_publish[fam]) {
                            let now = simcore::libc_seams::wall_us();
                            if now < last.0 {
                                ctx::probe("publish_with_clock_behind_previous_timestamp");
                            }
                            if now == at {
                                ctx::probe("identical_body_same_clock_reading");
                            }
                        }
                        w.publish(i, body).await;
                        if w.published >= 2 && deliveries >= 1 {
                            ctx::mark_nontrivial();
                        }
                    }
                    4 | 5 | 6 => {
                        deliver_one(&mut w, byz);
                        deliveries += 1;
                    }
                    7 | 8 => drain(&mut c).await,
                    9 => {
                        if clock_faults {
                            clock_fault()
                        } else {
                            clock_tick()
                        }
                    }
                    10 => {
                        if w.families.len() < 3 {
                            // Own key, or (by chance) the key of the first publisher again.
                            let key = if ctx::chance("same.key", 1, 3) { 0 } else { w.families.len() as u64 };
                            // The extra subscription of the pair is dropped at once.
                            drop(w.add_publisher(key));
                        }
                    }
                    _ => {
                        if w.pubs.len() < 5 {
                            let i = ctx::choose("clone.of", w.pubs.len());
                            w.clone_publisher(i);
                        }
                    }
                }
                if !clock_faults {
                    clock_tick();
                } else if ctx::chance("clock.between", 1, 2) {
                    clock_fault();
                }
            }
            // Faults stop: deliver what is left faithfully and drain.
            while let Some(f) = w.pool.pop_front() {
                w.deliver(f.raw.clone(), "plain");
                w.delivered_valid.push(f);
                drain(&mut c).await;
            }
            drain(&mut c).await;
            ev!("end: {} published, {} yielded, {} polls", w.published, c.yielded.len(), c.polls);
            drop(c);
            drop(w);
        });
        if r.is_err() {
            violation("hang", "ephemeral stream world", "simulated 1 h watchdog fired".into());
        }
    }
}

/// One overlay delivery. Value 0 of the fault choice = the oldest undelivered frame, unchanged.
fn deliver_one(w: &mut Eph, byz: bool) {
    let fault = if byz { ctx::choose("deliver.fault", 6) } else { 0 };
    match fault {
        0 => {
            if let Some(f) = w.pool.pop_front() {
                w.deliver(f.raw.clone(), "plain");
                w.delivered_valid.push(f);
            }
        }
        1 => {
            if w.pool.len() >= 2 {
                let j = 1 + ctx::choose("reorder.pick", w.pool.len() - 1);
                let f = w.pool.remove(j).expect("index in range");
                ctx::fault("reorder");
                w.deliver(f.raw.clone(), "reorder");
                w.delivered_valid.push(f);
            } else if let Some(f) = w.pool.pop_front() {
                w.deliver(f.raw.clone(), "plain");
                w.delivered_valid.push(f);
            }
        }
        2 => {
            if !w.delivered_valid.is_empty() {
                let j = ctx::choose("dup.pick", w.delivered_valid.len());
                let raw = w.delivered_valid[j].raw.clone();
                ctx::fault("duplicate");
                w.deliver(raw, "duplicate");
            }
        }
        3 | 4 => {
            // Tamper with an authentic frame: a fresh one from the pool (delivered instead of the
            // original), an already delivered one, or a synthetic one.
            let t = *ctx::pick("tamper.kind", &TAMPERS);
            let base = if !w.pool.is_empty() && ctx::chance("tamper.fresh", 1, 2) {
                w.pool.pop_front().expect("non-empty")
            } else if !w.delivered_valid.is_empty() {
                let j = ctx::choose("tamper.pick", w.delivered_valid.len());
                let f = &w.delivered_valid[j];
                ephworld::PoolFrame { raw: f.raw.clone(), content: f.content.clone(), key: f.key }
            } else {
                ephworld::synthetic(w.published)
            };
            let (raw, kind) = ephworld::tamper(&base, t);
            if t != Tamper::ForeignValid {
                ctx::fault(kind);
            } else {
                ctx::mark_nontrivial();
            }
            w.deliver(raw, kind);
        }
        _ => {
            // Burst: more frames than the broadcast channel holds, without a poll in between.
            let cap = w.model.borrow().cap;
            let base = w.delivered_valid.last().map(|f| f.raw.clone()).unwrap_or_else(|| ephworld::synthetic(0).raw);
            let n = cap + 1 + ctx::choose("burst.extra", 3);
            ev!("overlay delivers a burst of {n} frames (capacity {cap})");
            for _ in 0..n {
                w.deliver(base.clone(), "burst");
            }
        }
    }
}

/// Take everything out of the subscription that is there: `next()` with a bound of one simulated
/// second, polled again after every quiet second, until the model says nothing is queued.
async fn drain(c: &mut ephworld::Consumer) {
    let mut quiet = 0;
    loop {
        let (queued, lagged) = {
            let m = c.model.borrow();
            (m.pending.len(), m.lagged)
        };
        if (queued == 0 && lagged == 0) || quiet > queued + 3 {
            break;
        }
        match c.next_bounded(Duration::from_secs(1)).await {
            Ok(Outcome::Item) => {
                quiet = 0;
                if let Some(last) = c.yielded.last() {
                    if last.0 == simworld::logworld::signing_key(ephworld::OUTSIDER).verifying_key() {
                        ctx::probe("foreign_valid_yielded");
                    }
                }
            }
            Ok(Outcome::End) => break,
            Ok(Outcome::Pending) => unreachable!("next_bounded resolves Pending internally"),
            Err(()) => quiet += 1,
        }
    }
}
