//! C27 — The address book keeps the newest authentic transport info per node, whatever order
//! records arrive in; forged or mismatched records never enter the book.
//!
//! Engine: StepExec runtime (real-time tokio, real SQLite), strictly sequential: one request to the
//! real `AddressBook` actor in flight at a time, every reply awaited. The oracle is a last-write-
//! wins register per node fed with the same deliveries.

use std::collections::{BTreeMap, BTreeSet};
use std::net::{Ipv4Addr, SocketAddr};

use p2panda_core::timestamp::{HybridTimestamp, LamportTimestamp, Timestamp};
use p2panda_core::{SigningKey, VerifyingKey};
use p2panda_net::address_book::{AddressBook, AddressBookError};
use p2panda_net::addrs::{NodeInfo, NodeTransportInfo, TransportAddress, TransportInfo, TrustedTransportInfo, UnsignedTransportInfo};
use p2panda_net::utils::from_verifying_key;
use simcore::libc_seams::EPOCH_US;
use simcore::{Budget, Property, Tier, ctx, ev, stepexec, violation};
use simworld::logworld::signing_key;

pub struct C27Prop;
pub static C27: C27Prop = C27Prop;

#[derive(Clone, Copy, Debug, PartialEq, Eq, PartialOrd, Ord)]
enum Kind {
    /// Signed by the node itself.
    Signed,
    /// Signed by the node itself, explicitly without addresses ("not reachable").
    SignedEmpty,
    /// Unsigned "trusted" info whose address carries the node's id.
    Trusted,
    /// Signed by another key but delivered for this node.
    Forged,
    /// Authentic record whose timestamp was changed after signing.
    TamperedTimestamp,
    /// Authentic record whose addresses were changed after signing.
    TamperedAddresses,
    /// Authentic record of ANOTHER node delivered under this node's id.
    WrongNode,
    /// Unsigned "trusted" info whose address carries another node's id.
    TrustedMismatch,
}

impl Kind {
    fn valid(self) -> bool {
        matches!(self, Kind::Signed | Kind::SignedEmpty | Kind::Trusted)
    }
    fn name(self) -> &'static str {
        match self {
            Kind::Signed => "signed",
            Kind::SignedEmpty => "signed-empty",
            Kind::Trusted => "trusted",
            Kind::Forged => "forged",
            Kind::TamperedTimestamp => "tampered-timestamp",
            Kind::TamperedAddresses => "tampered-addresses",
            Kind::WrongNode => "wrong-node",
            Kind::TrustedMismatch => "trusted-mismatch",
        }
    }
    fn fault(self) -> Option<&'static str> {
        match self {
            Kind::Forged => Some("forged_record"),
            Kind::TamperedTimestamp | Kind::TamperedAddresses => Some("tampered_record"),
            Kind::WrongNode => Some("mismatched_id"),
            Kind::TrustedMismatch => Some("trusted_mismatched_id"),
            _ => None,
        }
    }
}

struct Record {
    label: String,
    node: usize,
    kind: Kind,
    ts: HybridTimestamp,
    info: TransportInfo,
}

fn ts_of(p: u64, l: u64) -> HybridTimestamp {
    HybridTimestamp::from_parts(Timestamp::new(EPOCH_US + p), LamportTimestamp::new(l))
}

fn show_ts(ts: &HybridTimestamp) -> String {
    let (p, l) = ts.to_parts();
    format!("E+{}/{}", u64::from(p) - EPOCH_US, l)
}

fn addr(id: VerifyingKey, tag: u32) -> TransportAddress {
    let sock = SocketAddr::from((Ipv4Addr::new(10, 1, (tag >> 8) as u8, tag as u8), 4000 + (tag % 1000) as u16));
    TransportAddress::Iroh(iroh_base::EndpointAddr::new(from_verifying_key(id)).with_ip_addr(sock))
}

fn signed(key: &SigningKey, ts: HybridTimestamp, addrs: Vec<TransportAddress>) -> TransportInfo {
    let mut u = UnsignedTransportInfo::from_addrs(addrs);
    u.timestamp = ts;
    u.sign(key).expect("sign transport info").into()
}

fn show_info(info: &Option<TransportInfo>) -> String {
    match info {
        None => "none".into(),
        Some(TransportInfo::Authenticated(a)) => format!("signed@{} {:?}", show_ts(&a.timestamp), ips(&a.addresses)),
        Some(TransportInfo::Trusted(t)) => format!("trusted@{} {:?}", show_ts(&t.timestamp), ips(&t.addresses)),
    }
}

fn ips(a: &[TransportAddress]) -> Vec<String> {
    a.iter()
        .flat_map(|TransportAddress::Iroh(e)| e.ip_addrs().map(|s| s.to_string()).collect::<Vec<_>>())
        .collect()
}

struct ModeCfg {
    reorder: bool,
    duplicates: bool,
    byzantine: bool,
}

fn mode_cfg(mode: u32) -> ModeCfg {
    match mode {
        0 => ModeCfg { reorder: false, duplicates: false, byzantine: false },
        1 => ModeCfg { reorder: true, duplicates: true, byzantine: false },
        2 => ModeCfg { reorder: false, duplicates: false, byzantine: true },
        _ => ModeCfg { reorder: true, duplicates: true, byzantine: true },
    }
}

impl Property for C27Prop {
    fn id(&self) -> &'static str {
        "C27"
    }
    fn budget(&self, tier: Tier) -> Budget {
        match tier {
            Tier::Quick => Budget { runs: 6_000, wall_cap_s: 30 },
            Tier::Thorough => Budget { runs: 90_000, wall_cap_s: 330 },
        }
    }
    fn modes(&self) -> u32 {
        4
    }
    fn mode_name(&self, mode: u32) -> &'static str {
        match mode {
            0 => "authentic-in-timestamp-order",
            1 => "authentic-reordered-duplicated",
            2 => "byzantine-in-timestamp-order",
            _ => "byzantine-reordered-duplicated",
        }
    }
    fn rule(&self) -> &'static str {
        "one run = 1..3 nodes (some pre-registered through insert_node_info without transports), 1..7 records per node with pairwise distinct hybrid timestamps drawn from a 4x3 grid (equal physical part / different logical part included) plus, by chance, one equal-timestamp twin; kinds: signed, signed without addresses, trusted with matching id, and per mode forged (other key), tampered timestamp, tampered addresses, another node's record, trusted with foreign id; delivered one at a time through AddressBook::insert_transport_info (records that must be rejected: half of the time wrapped into a NodeInfo through insert_node_info) in timestamp order or PRNG order with duplicates; after every delivery the transports of the addressed node (after a byzantine delivery and at the end: of every node) are read back through AddressBook::node_info and compared with a last-write-wins register; non-trivial = >= 2 authentic records for one node or any byzantine record; distinct = distinct trace fingerprint"
    }
    fn components_real(&self) -> Vec<&'static str> {
        vec![
            "p2panda_net::address_book::AddressBook (ractor thread-local actor: InsertTransportInfo, InsertNodeInfo, NodeInfo)",
            "p2panda_net::addrs::{NodeInfo::update_transports, AuthenticatedTransportInfo::verify, TrustedTransportInfo::verify, UnsignedTransportInfo::sign}",
            "p2panda_store::SqliteStore address-book store (in-memory SQLite, CBOR-encoded NodeInfo rows)",
        ]
    }
    fn components_stub(&self) -> Vec<&'static str> {
        vec!["the discovery protocols / iroh publish path that would deliver the records: replaced by direct calls, one in flight"]
    }
    fn expected_probes(&self) -> Vec<&'static str> {
        vec![
            "stale_authentic_ignored",
            "equal_timestamp_ignored",
            "duplicate_ignored",
            "newer_replaces",
            "same_physical_higher_logical_replaces",
            "lower_physical_higher_logical_ignored",
            "byzantine_with_newest_timestamp_rejected",
            "byzantine_for_unknown_node_rejected",
            "trusted_replaces_signed",
            "signed_replaces_trusted",
            "record_for_preregistered_node",
        ]
    }

    fn run(&self) {
        let cfg = mode_cfg(ctx::mode());
        let n_nodes = 1 + ctx::choose("nodes", 3);
        let keys: Vec<SigningKey> = (0..n_nodes as u64).map(signing_key).collect();
        let ids: Vec<VerifyingKey> = keys.iter().map(|k| k.verifying_key()).collect();
        let attacker = signing_key(100);

        // ---- workload ------------------------------------------------------------------------
        let mut records: Vec<Record> = Vec::new();
        let mut tag = 0u32;
        for node in 0..n_nodes {
            let n_rec = 1 + ctx::choose("records", 7);
            let mut used: BTreeSet<(u64, u64)> = BTreeSet::new();
            let mut twin_done = false;
            for _ in 0..n_rec {
                // Timestamp from a small grid so that equal physical parts are frequent.
                let mut p = ctx::choose("ts_phys", 4) as u64 * 1000;
                let mut l = ctx::choose("ts_logical", 3) as u64;
                let twin = !twin_done && used.contains(&(p, l)) && ctx::chance("twin", 1, 2);
                if twin {
                    twin_done = true;
                } else {
                    while used.contains(&(p, l)) {
                        l += 1;
                        if l > 3 {
                            l = 0;
                            p += 1000;
                        }
                    }
                }
                used.insert((p, l));
                let ts = ts_of(p, l);
                let kind = if cfg.byzantine {
                    *ctx::pick("kind", &[Kind::Signed, Kind::Forged, Kind::Trusted, Kind::Signed, Kind::TamperedTimestamp, Kind::SignedEmpty, Kind::Signed, Kind::WrongNode, Kind::Trusted, Kind::TamperedAddresses, Kind::Signed, Kind::TrustedMismatch])
                } else {
                    *ctx::pick("kind", &[Kind::Signed, Kind::Signed, Kind::Trusted, Kind::SignedEmpty])
                };
                tag += 1;
                let other = ids[(node + 1) % n_nodes];
                let other_key = &keys[(node + 1) % n_nodes];
                let (kind, info): (Kind, TransportInfo) = match kind {
                    Kind::Signed => (kind, signed(&keys[node], ts, vec![addr(ids[node], tag)])),
                    Kind::SignedEmpty => (kind, signed(&keys[node], ts, vec![])),
                    Kind::Trusted => {
                        let mut t = TrustedTransportInfo::from_addrs([addr(ids[node], tag)]);
                        t.timestamp = ts;
                        (kind, t.into())
                    }
                    Kind::Forged => (kind, signed(&attacker, ts, vec![addr(ids[node], tag)])),
                    Kind::TamperedTimestamp => {
                        // Signed for an older timestamp, then re-dated to `ts`.
                        let TransportInfo::Authenticated(mut a) = signed(&keys[node], ts_of(0, 0), vec![addr(ids[node], tag)]) else { unreachable!() };
                        a.timestamp = if ts == ts_of(0, 0) { ts_of(0, 9) } else { ts };
                        (kind, a.into())
                    }
                    Kind::TamperedAddresses => {
                        let TransportInfo::Authenticated(mut a) = signed(&keys[node], ts, vec![addr(ids[node], tag)]) else { unreachable!() };
                        a.addresses = vec![addr(ids[node], tag + 500)];
                        (kind, a.into())
                    }
                    Kind::WrongNode if n_nodes > 1 => (kind, signed(other_key, ts, vec![addr(other, tag)])),
                    Kind::TrustedMismatch if n_nodes > 1 => {
                        let mut t = TrustedTransportInfo::from_addrs([addr(other, tag)]);
                        t.timestamp = ts;
                        (kind, t.into())
                    }
                    // Single-node worlds have no "other node": use the attacker's identity.
                    Kind::WrongNode => (kind, signed(&attacker, ts, vec![addr(attacker.verifying_key(), tag)])),
                    Kind::TrustedMismatch => {
                        let mut t = TrustedTransportInfo::from_addrs([addr(attacker.verifying_key(), tag)]);
                        t.timestamp = ts;
                        (kind, t.into())
                    }
                };
                let ts = info.timestamp();
                records.push(Record { label: format!("r{}", records.len()), node, kind, ts, info });
            }
        }
        // Delivery schedule: indices into `records`.
        let mut schedule: Vec<usize> = (0..records.len()).collect();
        schedule.sort_by_key(|&i| (records[i].ts, i));
        if cfg.duplicates {
            let n = schedule.len();
            for k in 0..n {
                if ctx::chance("dup", 1, 4) {
                    schedule.push(schedule[k]);
                }
            }
        }
        if cfg.reorder {
            ctx::shuffle("order", &mut schedule);
        }
        let prereg: Vec<bool> = (0..n_nodes).map(|_| ctx::chance("preregistered", 1, 3)).collect();

        ev!("world: {n_nodes} node(s), {} record(s), {} deliveries; pre-registered: {prereg:?}", records.len(), schedule.len());
        for r in &records {
            ev!("  {} for node {}: {} @{}", r.label, r.node, r.kind.name(), show_ts(&r.ts));
        }

        // ---- execution -----------------------------------------------------------------------
        stepexec::block_on(async {
            let store = simworld::populate::sqlite_memory().await;
            let book = match AddressBook::builder().store(store.clone()).spawn().await {
                Ok(b) => b,
                Err(e) => {
                    violation("unexpected-error", "AddressBook::spawn", format!("{e}"));
                    return;
                }
            };
            for (i, pre) in prereg.iter().enumerate() {
                if *pre {
                    match book.insert_node_info(NodeInfo::new(ids[i]).bootstrap()).await {
                        Ok(_) => ev!("node {i} pre-registered as bootstrap without transports"),
                        Err(e) => violation("unexpected-error", "AddressBook::insert_node_info", format!("{e}")),
                    }
                }
            }

            // Reference model: a last-write-wins register per node.
            let mut model: BTreeMap<usize, (HybridTimestamp, TransportInfo, Kind)> = BTreeMap::new();
            let mut delivered: BTreeSet<usize> = BTreeSet::new();
            let mut authentic_per_node = vec![0usize; n_nodes];

            for (step, &ri) in schedule.iter().enumerate() {
                let r = &records[ri];
                let dup = !delivered.insert(ri);
                if dup {
                    ctx::fault("duplicate");
                }
                if let Some(f) = r.kind.fault() {
                    ctx::fault(f);
                    ctx::mark_nontrivial();
                }
                let held = model.get(&r.node).cloned();
                // Expected outcome.
                let expect: Result<bool, ()> = if !r.kind.valid() {
                    Err(())
                } else {
                    match &held {
                        None => Ok(true),
                        Some((cur, _, _)) => Ok(r.ts > *cur),
                    }
                };
                // Probes and fault accounting for what this delivery exercises.
                if r.kind.valid() {
                    authentic_per_node[r.node] += 1;
                    if authentic_per_node[r.node] >= 2 {
                        ctx::mark_nontrivial();
                    }
                    if prereg[r.node] {
                        ctx::probe("record_for_preregistered_node");
                    }
                    if let Some((cur, _, cur_kind)) = &held {
                        let (cp, cl) = cur.to_parts();
                        let (rp, rl) = r.ts.to_parts();
                        if r.ts < *cur {
                            ctx::fault("reorder");
                            ctx::probe("stale_authentic_ignored");
                            if rp < cp && rl > cl {
                                ctx::probe("lower_physical_higher_logical_ignored");
                            }
                        } else if r.ts == *cur {
                            if dup {
                                ctx::probe("duplicate_ignored");
                            } else {
                                ctx::probe("equal_timestamp_ignored");
                            }
                        } else {
                            ctx::probe("newer_replaces");
                            if rp == cp {
                                ctx::probe("same_physical_higher_logical_replaces");
                            }
                            if r.kind == Kind::Trusted && *cur_kind != Kind::Trusted {
                                ctx::probe("trusted_replaces_signed");
                            }
                            if r.kind != Kind::Trusted && *cur_kind == Kind::Trusted {
                                ctx::probe("signed_replaces_trusted");
                            }
                        }
                    }
                } else {
                    match &held {
                        None => ctx::probe("byzantine_for_unknown_node_rejected"),
                        Some((cur, _, _)) if r.ts > *cur => ctx::probe("byzantine_with_newest_timestamp_rejected"),
                        _ => {}
                    }
                }

                // A record that must be rejected takes, half of the time, the other door into the
                // book: wrapped into a NodeInfo and handed to insert_node_info.
                let via_node_info = expect.is_err() && ctx::chance("via_node_info", 1, 2);
                let res = if via_node_info {
                    ctx::fault("byzantine_record_via_insert_node_info");
                    let mut ni = NodeInfo::new(ids[r.node]);
                    ni.transports = Some(r.info.clone());
                    book.insert_node_info(ni).await.map(|_| true)
                } else {
                    book.insert_transport_info(ids[r.node], r.info.clone()).await
                };
                let res_s = match &res {
                    Ok(b) => format!("Ok({b})"),
                    Err(AddressBookError::NodeInfo(e)) => format!("Err(NodeInfo: {e})"),
                    Err(e) => format!("Err(OTHER: {e})"),
                };
                ev!(
                    "deliver #{step}: {}{} ({} @{}) to node {} holding {} -> {res_s}",
                    r.label,
                    if dup { " [duplicate]" } else { "" },
                    r.kind.name(),
                    show_ts(&r.ts),
                    r.node,
                    held.as_ref().map(|(t, _, _)| show_ts(t)).unwrap_or_else(|| "nothing".into())
                );

                match (&res, expect) {
                    (Err(AddressBookError::NodeInfo(_)), Err(())) => {}
                    (Err(AddressBookError::NodeInfo(e)), Ok(_)) => {
                        violation("authentic-record-rejected", r.kind.name(), format!("{} @{} for node {}: {e}", r.label, show_ts(&r.ts), r.node));
                    }
                    (Err(e), _) => {
                        violation("unexpected-error", "AddressBook::insert_transport_info", format!("{} -> {e}", r.label));
                        break;
                    }
                    (Ok(_), Err(())) => {
                        violation("inauthentic-record-accepted", r.kind.name(), format!("{} ({}) @{} for node {} -> {res_s}", r.label, r.kind.name(), show_ts(&r.ts), r.node));
                    }
                    (Ok(got), Ok(want)) => {
                        if *got != want {
                            violation(
                                "wrong-is-newer-result",
                                if want { "newer record reported as not newer" } else { "older-or-equal record reported as newer" },
                                format!("{} @{} against held {:?} -> Ok({got})", r.label, show_ts(&r.ts), held.as_ref().map(|(t, _, _)| show_ts(t))),
                            );
                        }
                    }
                }
                if expect == Ok(true) {
                    model.insert(r.node, (r.ts, r.info.clone(), r.kind));
                }

                // Read back and compare with the model: the addressed node after every delivery,
                // every node after a byzantine delivery ("book unchanged") and after the last one.
                let read_all = !r.kind.valid() || step + 1 == schedule.len();
                for n in 0..n_nodes {
                    if n != r.node && !read_all {
                        continue;
                    }
                    let got = match book.node_info(ids[n]).await {
                        Ok(info) => info.and_then(|i| i.transports),
                        Err(e) => {
                            violation("unexpected-error", "AddressBook::node_info", format!("{e}"));
                            return;
                        }
                    };
                    let want = model.get(&n).map(|(_, i, _)| i.clone());
                    if got != want {
                        let (clause, site): (&str, &str) = if n != r.node {
                            ("other-node-changed", "delivery for one node changed another node's entry")
                        } else if !r.kind.valid() {
                            ("inauthentic-record-changed-book", r.kind.name())
                        } else if expect == Ok(true) {
                            ("stored-not-newest-authentic", "strictly newer authentic record not stored")
                        } else if dup || held.as_ref().map(|(t, _, _)| *t == r.ts).unwrap_or(false) {
                            ("stored-not-newest-authentic", "equal-timestamp record replaced the stored one")
                        } else {
                            ("stored-not-newest-authentic", "older record replaced the stored one")
                        };
                        violation(clause, site, format!("after delivering {} to node {}: node {n} holds {} but the newest authentic record delivered so far is {}", r.label, r.node, show_info(&got), show_info(&want)));
                    }
                    if n == r.node {
                        ev!("           node {n} now holds {}", show_info(&got));
                    }
                }
                if ctx::has_violation() {
                    break;
                }
            }
            ctx::add_steps(schedule.len() as u64);
            drop(book);
            store.pool().close().await;
        });
    }
}
