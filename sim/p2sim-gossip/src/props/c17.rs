//! C17 — An ephemeral subscription never stalls on invalid messages.
//!
//! Same world as C16 (real publisher / subscription / gossip handle, harness overlay). While
//! faults flow the harness publishes, delivers valid / invalid frames, overflows the broadcast
//! channel and polls the subscription by hand. Then faults stop and a consumer does what an
//! application task does: `next().await`, woken only through the waker it handed to `poll_next`.
//! Every valid frame the gossip subscription holds (or receives while the consumer waits) must come
//! out of such a call within 60 simulated seconds.

use std::time::Duration;

use simcore::{Budget, Property, Tier, ctx, des, ev, violation};

use crate::ephworld::{self, Consumed, Eph, Outcome, TAMPERS, Tamper, clock_tick, deliver_into};

const BOUND: Duration = Duration::from_secs(60);

pub struct C17Prop;
pub static C17: C17Prop = C17Prop;

impl Property for C17Prop {
    fn id(&self) -> &'static str {
        "C17"
    }
    fn budget(&self, tier: Tier) -> Budget {
        match tier {
            Tier::Quick => Budget { runs: 16_000, wall_cap_s: 40 },
            Tier::Thorough => Budget { runs: 160_000, wall_cap_s: 360 },
        }
    }
    fn modes(&self) -> u32 {
        4
    }
    fn mode_name(&self, mode: u32) -> &'static str {
        match mode {
            0 => "valid frames only, no overflow (fault-free)",
            1 => "invalid frames (tampered, re-signed, undecodable, other version) between valid ones",
            2 => "valid frames only, bursts beyond the broadcast capacity (Lagged)",
            _ => "invalid frames and overflow",
        }
    }
    fn rule(&self) -> &'static str {
        "one run = a fault phase of 2-30 operations in choice-stream order (publish through the real publisher; overlay delivers the oldest frame, an invalid variant of a frame, a duplicate, or a burst beyond the broadcast capacity 2..16; one manual poll of the subscription) followed by the liveness phase: the remaining frames are delivered, by chance some of them (valid and invalid) only later from a separate simulated task while the consumer is already waiting, and the consumer calls next() once per expected message with a 60 s simulated bound; an exact model of the broadcast receiver (fed by the channel's own queue length) says which frames are queued; non-trivial = at least one valid frame queued behind an invalid / lagged item or delivered to a waiting consumer, or any fault; distinct = distinct trace fingerprint"
    }
    fn components_real(&self) -> Vec<&'static str> {
        vec![
            "p2panda EphemeralStreamSubscription::poll_next (WrappedMessage::from_bytes / verify)",
            "p2panda EphemeralStreamPublisher::publish",
            "p2panda_net GossipHandle::{publish, subscribe}, GossipSubscription (tokio_stream BroadcastStream over tokio broadcast)",
            "p2panda_net Gossip::stream slow path, AddressBook actor over in-memory SQLite (set-up phase)",
        ]
    }
    fn components_stub(&self) -> Vec<&'static str> {
        vec!["gossip manager: probe ractor actor answering Subscribe with harness-owned channels", "gossip overlay: the harness moves frames from the to-gossip mpsc channel into the from-gossip broadcast channel", "iroh endpoint / iroh-gossip: not run"]
    }
    fn assumptions(&self) -> Vec<&'static str> {
        vec!["the consumer is a task that only awaits next(): it is re-polled only when the waker passed to poll_next is woken (or when the 60 s simulated bound expires)", "one subscription per run"]
    }
    fn expected_probes(&self) -> Vec<&'static str> {
        vec!["valid_frame_behind_invalid_frame", "valid_frame_behind_lagged_item", "valid_frame_arrives_while_consumer_waits", "invalid_frame_arrives_while_consumer_waits", "invalid_frame_skipped", "lagged_consumed", "invalid_frame_storm"]
    }
    fn run(&self) {
        let mode = ctx::mode();
        let invalid = mode == 1 || mode == 3;
        let overflow = mode >= 2;
        let n_ops = ctx::range("ops", 2, 30);
        let cap = if overflow { *ctx::pick("bcast.cap", &[8usize, 4, 2, 16]) } else { 64 };
        ev!("mode {mode}: {n_ops} operations in the fault phase, broadcast capacity {cap}, invalid frames {invalid}, overflow {overflow}");
        let parts = match ephworld::phase1(2, cap) {
            Ok(p) => p,
            Err(e) => {
                violation("setup-failed", "Gossip::stream / AddressBook", e);
                return;
            }
        };
        let r = des::run(move || async move {
            let (mut w, mut c) = Eph::new(parts, cap);
            let mut n_body = 0usize;
            // ---- fault phase ------------------------------------------------------------------
            for _ in 0..n_ops {
                if ctx::has_violation() {
                    break;
                }
                match ctx::choose("op", 8) {
                    0 | 1 | 2 => {
                        n_body += 1;
                        w.publish(0, format!("m{n_body}").into_bytes()).await;
                    }
                    3 | 4 | 5 => {
                        // value 0 = faithful delivery
                        match if invalid || overflow { ctx::choose("deliver.fault", 5) } else { 0 } {
                            4 if invalid => {
                                // A storm of invalid frames arriving while the consumer is not
                                // polling (e.g. a misbehaving peer): up to 40 in a row.
                                let n = ctx::range("storm.len", 2, 40);
                                ev!("overlay delivers a storm of {n} invalid frames");
                                for _ in 0..n {
                                    let (raw, kind) = invalid_frame(&mut w);
                                    ctx::fault(kind);
                                    w.deliver(raw, kind);
                                }
                                ctx::probe("invalid_frame_storm");
                            }
                            1 | 2 if invalid => {
                                let (raw, kind) = invalid_frame(&mut w);
                                ctx::fault(kind);
                                w.deliver(raw, kind);
                            }
                            3 if overflow => {
                                let base = w.delivered_valid.last().map(|f| f.raw.clone()).unwrap_or_else(|| ephworld::synthetic(0).raw);
                                let n = cap + 1 + ctx::choose("burst.extra", 3);
                                ev!("overlay delivers a burst of {n} frames (capacity {cap})");
                                for _ in 0..n {
                                    w.deliver(base.clone(), "burst");
                                }
                            }
                            _ => {
                                if let Some(f) = w.pool.pop_front() {
                                    w.deliver(f.raw.clone(), "plain");
                                    w.delivered_valid.push(f);
                                }
                            }
                        }
                    }
                    _ => {
                        // A poll from outside (e.g. another branch of the application's select!).
                        let _ = c.poll(None);
                    }
                }
                clock_tick();
            }
            // ---- faults stop --------------------------------------------------------------------
            // Everything the publishers handed over and (in the faulty modes) a few last invalid
            // frames reach the subscription; by chance some of it only while the consumer waits.
            let mut now: Vec<(Vec<u8>, &'static str)> = vec![];
            let mut tail: Vec<(Vec<u8>, &'static str)> = vec![];
            if w.pool.is_empty() && !c.model.borrow().has_valid_pending() {
                n_body += 1;
                w.publish(0, format!("m{n_body}").into_bytes()).await;
            }
            while let Some(f) = w.pool.pop_front() {
                if invalid && ctx::chance("last.invalid", 1, 2) {
                    let (raw, kind) = invalid_frame_of(&f);
                    ctx::fault(kind);
                    tail.push((raw, kind));
                }
                tail.push((f.raw.clone(), "plain"));
                w.delivered_valid.push(f);
            }
            let late_from = if ctx::chance("late", 1, 2) { ctx::choose("late.from", tail.len() + 1) } else { tail.len() };
            let late: Vec<(Vec<u8>, &'static str)> = tail.split_off(late_from);
            now.append(&mut tail);
            for (raw, kind) in now {
                w.deliver(raw, kind);
            }
            {
                let m = c.model.borrow();
                let mut seen_invalid = m.lagged > 0;
                if m.lagged > 0 && m.has_valid_pending() {
                    ctx::probe("valid_frame_behind_lagged_item");
                    ctx::mark_nontrivial();
                }
                for i in m.pending.iter() {
                    if i.verdict.is_none() {
                        seen_invalid = true;
                    } else if seen_invalid {
                        if m.pending.iter().any(|j| j.verdict.is_none()) {
                            ctx::probe("valid_frame_behind_invalid_frame");
                        }
                        ctx::mark_nontrivial();
                        break;
                    }
                }
            }
            ev!("faults stop: {} frame(s) queued in the gossip subscription ({} valid), Lagged pending: {}, {} frame(s) will arrive while the consumer waits", c.model.borrow().pending.len(), c.model.borrow().pending.iter().filter(|i| i.verdict.is_some()).count(), c.model.borrow().lagged, late.len());
            let late_valid = late.iter().filter(|(raw, _)| crate::wire::judge(raw).is_some()).count();
            let late_left = std::rc::Rc::new(std::cell::Cell::new(late.len()));
            if !late.is_empty() {
                ctx::mark_nontrivial();
                let from_tx = w.parts.from_tx.clone();
                let model = w.model.clone();
                let next_item = w.next_item.clone();
                let left = late_left.clone();
                des::spawn(async move {
                    for (raw, kind) in late {
                        des::delay("late.gap", &[0, 1_000, 50_000, 400_000]).await;
                        if crate::wire::judge(&raw).is_some() {
                            ctx::probe("valid_frame_arrives_while_consumer_waits");
                        } else {
                            ctx::probe("invalid_frame_arrives_while_consumer_waits");
                        }
                        deliver_into(&from_tx, &model, &next_item, raw, kind);
                        left.set(left.get() - 1);
                    }
                });
            }
            let _ = late_valid;
            // ---- liveness -----------------------------------------------------------------------
            let mut calls = 0;
            loop {
                let expecting = c.model.borrow().has_valid_pending() || late_left.get() > 0;
                if !expecting || ctx::has_violation() {
                    break;
                }
                calls += 1;
                ev!("consumer: next().await (call {calls}) at t={} ms", des::now_us() / 1000);
                match c.next_bounded(BOUND).await {
                    Ok(Outcome::Item) => {}
                    Ok(Outcome::End) => {
                        violation("stream-ended-with-valid-messages-queued", "EphemeralStreamSubscription::poll_next", "next() returned None".into());
                        break;
                    }
                    Ok(Outcome::Pending) => unreachable!("next_bounded resolves Pending internally"),
                    Err(()) => {
                        let m = c.model.borrow();
                        if m.has_valid_pending() {
                            let site = match c.last_pending {
                                Some(p) if !p.registered => match p.consumed {
                                    Consumed::Invalid => "EphemeralStreamSubscription::poll_next returns Pending after an invalid message without registering a waker",
                                    Consumed::Lagged => "EphemeralStreamSubscription::poll_next returns Pending after a lagged broadcast item without registering a waker",
                                    Consumed::Nothing => "EphemeralStreamSubscription::poll_next returns Pending without registering a waker",
                                },
                                Some(_) => "waker registered but never woken although a valid frame is queued",
                                None => "next() did not return although its last poll yielded",
                            };
                            let first = m.pending.iter().find(|i| i.verdict.is_some()).expect("valid pending");
                            violation(
                                "valid-message-not-yielded",
                                site,
                                format!("next() pending for 60 simulated seconds while frame #{} ({}) is queued in the gossip subscription ({} frame(s) queued, {} valid); last poll: {:?}", first.id, crate::wire::show(first.verdict.as_ref().expect("valid")), m.pending.len(), m.pending.iter().filter(|i| i.verdict.is_some()).count(), c.last_pending),
                            );
                        }
                        break;
                    }
                }
            }
            ev!("end: {} published, {} yielded, {} polls, {} next() calls in the liveness phase", w.published, c.yielded.len(), c.polls, calls);
            drop(c);
            drop(w);
        });
        if r.is_err() {
            violation("hang", "ephemeral stream world", "simulated 1 h watchdog fired".into());
        }
    }
}

const INVALID: [Tamper; 7] = [Tamper::FlipByte, Tamper::Resign, Tamper::Author, Tamper::BodyField, Tamper::TimestampField, Tamper::Version, Tamper::Undecodable];

/// An invalid variant of some authentic frame (a flipped bit that happens to keep the frame valid
/// is simply a valid frame for the model).
fn invalid_frame(w: &mut Eph) -> (Vec<u8>, &'static str) {
    let base = if !w.delivered_valid.is_empty() {
        let j = ctx::choose("tamper.pick", w.delivered_valid.len());
        let f = &w.delivered_valid[j];
        ephworld::PoolFrame { raw: f.raw.clone(), content: f.content.clone(), key: f.key }
    } else if let Some(f) = w.pool.front() {
        ephworld::PoolFrame { raw: f.raw.clone(), content: f.content.clone(), key: f.key }
    } else {
        ephworld::synthetic(w.published)
    };
    invalid_frame_of(&base)
}

fn invalid_frame_of(base: &ephworld::PoolFrame) -> (Vec<u8>, &'static str) {
    let _ = TAMPERS;
    ephworld::tamper(base, *ctx::pick("tamper.kind", &INVALID))
}
