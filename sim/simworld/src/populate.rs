//! Helpers to fill stores with replica views and to dump them through the public query API.

use std::collections::BTreeMap;

use p2panda_core::{Hash, Operation, SeqNum, Topic, VerifyingKey};
use p2panda_store::logs::LogStore;
use p2panda_store::operations::OperationStore;
use p2panda_store::topics::TopicStore;
use p2panda_store::{SqliteStore, SqliteStoreBuilder, Transaction};

use crate::logworld::{LogIdT, Op, SimExt};

/// Insert operations (in one transaction) and associate their logs with `topic`.
pub async fn populate<S>(store: &S, ops: &[Op], topic: &Topic, associate: impl Fn(&Op) -> bool)
where
    S: Transaction + OperationStore<Operation<SimExt>, Hash> + TopicStore<Topic, VerifyingKey, LogIdT>,
    <S as Transaction>::Error: std::fmt::Debug,
    <S as OperationStore<Operation<SimExt>, Hash>>::Error: std::fmt::Debug,
    <S as TopicStore<Topic, VerifyingKey, LogIdT>>::Error: std::fmt::Debug,
{
    let permit = store.begin().await.expect("populate: begin");
    for op in ops {
        store.insert_operation(&op.hash, op, &op.header.extensions.log_id).await.expect("populate: insert");
        if associate(op) {
            <S as TopicStore<Topic, VerifyingKey, LogIdT>>::associate(store, topic, &op.header.verifying_key, &op.header.extensions.log_id)
                .await
                .expect("populate: associate");
        }
    }
    store.commit(permit).await.expect("populate: commit");
}

/// Heights of the given logs, read through `get_log_heights`.
pub async fn heights<S>(store: &S, logs: &BTreeMap<VerifyingKey, Vec<LogIdT>>) -> BTreeMap<(VerifyingKey, LogIdT), SeqNum>
where
    S: LogStore<Operation<SimExt>, VerifyingKey, LogIdT, SeqNum, Hash>,
    <S as LogStore<Operation<SimExt>, VerifyingKey, LogIdT, SeqNum, Hash>>::Error: std::fmt::Debug,
{
    let mut out = BTreeMap::new();
    for (a, ls) in logs {
        if ls.is_empty() {
            continue;
        }
        if let Some(h) = store.get_log_heights(a, ls).await.expect("get_log_heights") {
            for (l, s) in h {
                out.insert((*a, l), s);
            }
        }
    }
    out
}

/// All entries of one log through `get_log_entries(None, None)`.
pub async fn log_entries<S>(store: &S, author: &VerifyingKey, log: &LogIdT) -> Vec<Op>
where
    S: LogStore<Operation<SimExt>, VerifyingKey, LogIdT, SeqNum, Hash>,
    <S as LogStore<Operation<SimExt>, VerifyingKey, LogIdT, SeqNum, Hash>>::Error: std::fmt::Debug,
{
    store.get_log_entries(author, log, None, None).await.expect("get_log_entries").unwrap_or_default().into_iter().map(|(o, _)| o).collect()
}

/// A fresh in-memory SQLite store exactly as `SqliteStore::temporary()` / `SqliteStoreBuilder::memory()`.
pub async fn sqlite_memory() -> SqliteStore {
    SqliteStoreBuilder::memory().build().await.expect("build in-memory sqlite store")
}

/// A file-backed SQLite store (several pool connections) under /dev/shm.
pub async fn sqlite_file(path: &str, max_connections: u32) -> SqliteStore {
    SqliteStoreBuilder::new()
        .database_url(&format!("sqlite://{path}"))
        .min_connections(1)
        .max_connections(max_connections)
        .build()
        .await
        .expect("build file sqlite store")
}

// ------------------------------------------------------------------------------------------------
// Holding a COMMIT in flight (foreign-thread seam)
// ------------------------------------------------------------------------------------------------

static HOLD_COMMITS: std::sync::atomic::AtomicBool = std::sync::atomic::AtomicBool::new(false);

/// While set, every SQLite COMMIT of a connection prepared by `install_commit_hold` stays inside
/// SQLite's commit hook on its sqlx worker thread: the transaction is neither committed nor has
/// the caller's future an answer. Process-global (runs of one worker process are sequential).
pub fn hold_commits(hold: bool) {
    HOLD_COMMITS.store(hold, std::sync::atomic::Ordering::SeqCst);
}

/// Install the commit hook on `n` pool connections (the whole pool when `n` = max_connections).
/// The hook only waits while `hold_commits(true)` is in force (at most 20 s: safety net) and
/// always lets the commit proceed.
pub async fn install_commit_hold(store: &SqliteStore, n: u32) {
    let mut conns = vec![];
    for _ in 0..n {
        conns.push(acquire_patiently(store).await);
    }
    for c in conns.iter_mut() {
        let mut h = c.lock_handle().await.expect("lock sqlite handle");
        h.set_commit_hook(|| {
            let t0 = std::time::Instant::now();
            while HOLD_COMMITS.load(std::sync::atomic::Ordering::SeqCst) && t0.elapsed() < std::time::Duration::from_secs(20) {
                std::thread::sleep(std::time::Duration::from_micros(50));
            }
            true
        });
    }
    drop(conns);
}

/// A file-backed store whose pool gives up waiting for a free connection after `acquire_timeout`
/// (sqlx's default is 30 s): with every connection checked out, `begin()` fails quickly with
/// `PoolTimedOut` — the one way to make `pool.begin()` fail without breaking the database.
pub async fn sqlite_file_with_acquire_timeout(path: &str, max_connections: u32, acquire_timeout: std::time::Duration) -> SqliteStore {
    let url = format!("sqlite://{path}");
    p2panda_store::sqlite::create_database(&url).await.expect("create database file");
    // Opening a connection counts against the same timeout; on an overloaded machine that can
    // take longer than the timeout, so opening is simply tried again.
    let mut pool = None;
    for _ in 0..100 {
        match sqlx::sqlite::SqlitePoolOptions::new().max_connections(max_connections).acquire_timeout(acquire_timeout).test_before_acquire(false).connect(&url).await {
            Ok(p) => {
                pool = Some(p);
                break;
            }
            Err(sqlx::Error::PoolTimedOut) => continue,
            Err(e) => panic!("connect pool: {e}"),
        }
    }
    let pool = pool.expect("connect pool (timed out 100 times)");
    let mut migrated = false;
    for _ in 0..100 {
        match p2panda_store::sqlite::run_pending_migrations(&pool).await {
            Ok(()) => {
                migrated = true;
                break;
            }
            Err(e) if e.to_string().contains("timed out") => continue,
            Err(e) => panic!("migrations: {e}"),
        }
    }
    assert!(migrated, "migrations (timed out 100 times)");
    SqliteStore::from_pool(pool)
}

async fn acquire_patiently(store: &SqliteStore) -> sqlx::pool::PoolConnection<sqlx::Sqlite> {
    for _ in 0..200 {
        match store.pool().acquire().await {
            Ok(c) => return c,
            Err(sqlx::Error::PoolTimedOut) => continue,
            Err(e) => panic!("acquire pool connection: {e}"),
        }
    }
    panic!("acquire pool connection: timed out 200 times");
}

/// Check out `n` pool connections at once (dropping the result gives them back).
pub async fn hog_connections(store: &SqliteStore, n: u32) -> Vec<sqlx::pool::PoolConnection<sqlx::Sqlite>> {
    let mut v = vec![];
    for _ in 0..n {
        v.push(acquire_patiently(store).await);
    }
    v
}
